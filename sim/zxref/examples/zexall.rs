//! Runs a CP/M ZEXALL / ZEXDOC image on `RefZ80`.
//!
//! `cargo run --release -p zxref --example zexall -- <path to zexall.com>`
//!
//! Flat 64 KiB RAM, image loaded at 0x0100, BDOS functions 2 and 9 trapped at 0x0005,
//! run ends at the warm boot (PC = 0). Exit status 0 only if no "ERROR" was printed.

use std::io::Write;
use zxref::z80::{RefBus, RefZ80};

struct Flat {
    mem: Vec<u8>,
    t: u64,
}

impl RefBus for Flat {
    #[inline]
    fn m1(&mut self, addr: u16) -> u8 {
        self.t += 4;
        self.mem[addr as usize]
    }
    #[inline]
    fn rd(&mut self, addr: u16) -> u8 {
        self.t += 3;
        self.mem[addr as usize]
    }
    #[inline]
    fn wr(&mut self, addr: u16, v: u8) {
        self.t += 3;
        self.mem[addr as usize] = v;
    }
    #[inline]
    fn dly(&mut self, _addr: u16, n: u8) {
        self.t += n as u64;
    }
    #[inline]
    fn internal(&mut self, n: u8) {
        self.t += n as u64;
    }
    #[inline]
    fn io_r(&mut self, _port: u16) -> u8 {
        self.t += 4;
        0xFF
    }
    #[inline]
    fn io_w(&mut self, _port: u16, _v: u8) {
        self.t += 4;
    }
    #[inline]
    fn sample_lines(&mut self) -> (bool, bool) {
        (false, false)
    }
    #[inline]
    fn int_bus_byte(&mut self) -> u8 {
        0xFF
    }
}

fn main() {
    let path = std::env::args().nth(1).expect("usage: zexall <file.com>");
    let image = std::fs::read(&path).expect("cannot read image");
    let mut bus = Flat { mem: vec![0u8; 0x10000], t: 0 };
    bus.mem[0x0100..0x0100 + image.len()].copy_from_slice(&image);
    bus.mem[5] = 0xC9; // BDOS entry: RET
    bus.mem[6] = 0x00; // top of TPA = 0xF000 (ZEXALL loads SP from here)
    bus.mem[7] = 0xF0;

    let mut cpu = RefZ80::new();
    cpu.pc = 0x0100;
    cpu.sp = 0xF000;
    let mut out: Vec<u8> = Vec::new();
    let stdout = std::io::stdout();
    let emit =|bytes: &[u8], out: &mut Vec<u8>| {
        out.extend_from_slice(bytes);
        let mut h = stdout.lock();
        h.write_all(bytes).unwrap();
        h.flush().unwrap();
    };
    let mut steps: u64 = 0;
    loop {
        if cpu.pc == 0 {
            break;
        }
        if cpu.pc == 5 {
            match cpu.c {
                2 => emit(&[cpu.e], &mut out),
                9 => {
                    let mut a = ((cpu.d as u16) << 8) | cpu.e as u16;
                    let mut s = Vec::new();
                    while bus.mem[a as usize] != b'$' {
                        s.push(bus.mem[a as usize]);
                        a = a.wrapping_add(1);
                    }
                    emit(&s, &mut out);
                }
                _ => {}
            }
        }
        cpu.step(&mut bus);
        steps += 1;
    }
    let text = String::from_utf8_lossy(&out);
    let errors = text.matches("ERROR").count();
    let oks = text.matches("OK").count();
    println!("\n[zexall: {} steps, {} T-states, {} OK, {} ERROR]", steps, bus.t, oks, errors);
    std::process::exit(if errors == 0 && oks > 0 { 0 } else { 1 });
}
