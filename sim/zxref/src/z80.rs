//! `RefZ80` — an independent, cycle-scripted NMOS Z80 reference model.
//!
//! Written from documentation (Zilog manual, "The Undocumented Z80 Documented",
//! MEMPTR / Q research, the well-known per-cycle contention breakdown tables), see
//! /verif/DESIGN.md appendices A and D. It shares no code with rustzx-z80.
//!
//! The model talks to the outside world through [`RefBus`], which is *cycle level*:
//! every machine cycle of every instruction is one call, in the order the cycles occur
//! on the real chip. A bus implementation can therefore record the exact cycle script,
//! keep a T-state clock and apply contention.

/// Cycle-level bus seen by the reference CPU.
pub trait RefBus {
    /// 4 T-state opcode fetch (M1) at `addr`; returns the byte. (R is incremented by the CPU.)
    fn m1(&mut self, addr: u16) -> u8;
    /// 3 T-state memory read.
    fn rd(&mut self, addr: u16) -> u8;
    /// 3 T-state memory write.
    fn wr(&mut self, addr: u16, v: u8);
    /// `n` single internal T-states, each presenting `addr` on the address bus.
    fn dly(&mut self, addr: u16, n: u8);
    /// `n` T-states with no meaningful address (interrupt acknowledge overhead).
    fn internal(&mut self, n: u8);
    /// 4 T-state port read.
    fn io_r(&mut self, port: u16) -> u8;
    /// 4 T-state port write.
    fn io_w(&mut self, port: u16, v: u8);
    /// Called exactly once per interrupt *sampling opportunity* (an instruction boundary
    /// that is not directly after EI/DI and not inside a prefix chain). Returns
    /// `(nmi_edge_pending, int_level)`.
    fn sample_lines(&mut self) -> (bool, bool);
    /// Byte on the data bus during an IM 2 (or IM 0) acknowledge.
    fn int_bus_byte(&mut self) -> u8;
}

/// What kind of interrupt (if any) was accepted at the start of a step.
#[derive(Clone, Copy, Debug, PartialEq, Eq, Hash)]
pub enum Accepted {
    None,
    Int,
    Nmi,
}

/// Encoding page of the executed instruction.
#[derive(Clone, Copy, Debug, PartialEq, Eq, Hash, PartialOrd, Ord)]
pub enum Page {
    Base = 0,
    CB = 1,
    ED = 2,
    DD = 3,
    FD = 4,
    DDCB = 5,
    FDCB = 6,
}

/// Result of one [`RefZ80::step`].
#[derive(Clone, Copy, Debug, PartialEq, Eq)]
pub struct StepInfo {
    /// interrupt accepted at the boundary *before* the instruction of this step
    pub accepted: Accepted,
    /// number of DD/FD prefix bytes that were skipped as no-ops before the effective
    /// prefix (0 for an ordinary instruction; `DD FD 21` → 1)
    pub ignored_prefixes: u32,
    pub page: Page,
    pub opcode: u8,
    /// timing / behaviour variant of this execution: 0 = only/not-taken/last iteration,
    /// 1 = taken / repeating iteration
    pub variant: u8,
    /// true when the HALT instruction was (re-)executed in this step
    pub halt: bool,
    /// hardware behaviour of this step is not established by the sources the model is
    /// built from; the harness truncates the run here (`None` = well defined)
    pub ambiguous: Option<&'static str>,
}

/// Architectural + hidden state of the reference CPU. All fields are public so the
/// harness can copy state in and out.
#[derive(Clone, Debug, PartialEq, Eq, Default)]
pub struct RefZ80 {
    pub a: u8,
    pub f: u8,
    pub b: u8,
    pub c: u8,
    pub d: u8,
    pub e: u8,
    pub h: u8,
    pub l: u8,
    pub a_alt: u8,
    pub f_alt: u8,
    pub b_alt: u8,
    pub c_alt: u8,
    pub d_alt: u8,
    pub e_alt: u8,
    pub h_alt: u8,
    pub l_alt: u8,
    pub ix: u16,
    pub iy: u16,
    pub sp: u16,
    pub pc: u16,
    pub i: u8,
    pub r: u8,
    pub iff1: bool,
    pub iff2: bool,
    /// interrupt mode 0, 1 or 2
    pub im: u8,
    pub halted: bool,
    /// hidden WZ register
    pub memptr: u16,
    /// hidden Q latch: copy of F if the previous instruction modified flags, else 0
    pub q: u8,
    /// the previous instruction was EI or DI: the next boundary is not sampled
    pub no_sample: bool,
}

// ------------------------------------------------------------------------------------
// Implementation
// ------------------------------------------------------------------------------------

const CF: u8 = 0x01;
const NF: u8 = 0x02;
const PF: u8 = 0x04;
const XF: u8 = 0x08;
const HF: u8 = 0x10;
const YF: u8 = 0x20;
const ZF: u8 = 0x40;
const SF: u8 = 0x80;
const XY: u8 = XF | YF;

/// Which register plays the role of HL in the current instruction.
#[derive(Clone, Copy, PartialEq, Eq)]
enum Idx {
    Hl,
    Ix,
    Iy,
}

#[inline]
fn even_parity(v: u8) -> bool {
    v.count_ones() & 1 == 0
}
#[inline]
fn sz53(v: u8) -> u8 {
    (v & (SF | XY)) | if v == 0 { ZF } else { 0 }
}
#[inline]
fn sz53p(v: u8) -> u8 {
    sz53(v) | if even_parity(v) { PF } else { 0 }
}
#[inline]
fn flag(cond: bool, bit: u8) -> u8 {
    if cond {
        bit
    } else {
        0
    }
}
#[inline]
fn word(hi: u8, lo: u8) -> u16 {
    ((hi as u16) << 8) | lo as u16
}
#[inline]
fn hi(v: u16) -> u8 {
    (v >> 8) as u8
}
#[inline]
fn lo(v: u16) -> u8 {
    v as u8
}
#[inline]
fn disp(base: u16, d: u8) -> u16 {
    base.wrapping_add(d as i8 as u16)
}

impl RefZ80 {
    /// All zero: PC = 0, SP = 0, IM 0, interrupts disabled.
    pub fn new() -> Self {
        Self::default()
    }

    /// Documented total T-states of `(page, opcode, variant)`; see `z80_tables.rs`.
    pub fn t_total(page: Page, opcode: u8, variant: u8) -> u32 {
        crate::z80_tables::t_total(page, opcode, variant)
    }

    // ---- register helpers -----------------------------------------------------------

    #[inline]
    fn bc(&self) -> u16 {
        word(self.b, self.c)
    }
    #[inline]
    fn de(&self) -> u16 {
        word(self.d, self.e)
    }
    #[inline]
    fn hl(&self) -> u16 {
        word(self.h, self.l)
    }
    #[inline]
    fn set_bc(&mut self, v: u16) {
        self.b = hi(v);
        self.c = lo(v);
    }
    #[inline]
    fn set_de(&mut self, v: u16) {
        self.d = hi(v);
        self.e = lo(v);
    }
    #[inline]
    fn set_hl(&mut self, v: u16) {
        self.h = hi(v);
        self.l = lo(v);
    }
    /// The I:R pair as it appears on the address bus during internal cycles.
    #[inline]
    fn ir(&self) -> u16 {
        word(self.i, self.r)
    }
    #[inline]
    fn inc_r(&mut self) {
        self.r = (self.r & 0x80) | (self.r.wrapping_add(1) & 0x7F);
    }
    /// Write F as the result of a flag computation (also latches Q).
    #[inline]
    fn setf(&mut self, f: u8) {
        self.f = f;
        self.q = f;
    }
    #[inline]
    fn idx_val(&self, idx: Idx) -> u16 {
        match idx {
            Idx::Hl => self.hl(),
            Idx::Ix => self.ix,
            Idx::Iy => self.iy,
        }
    }
    #[inline]
    fn set_idx_val(&mut self, idx: Idx, v: u16) {
        match idx {
            Idx::Hl => self.set_hl(v),
            Idx::Ix => self.ix = v,
            Idx::Iy => self.iy = v,
        }
    }
    /// 8-bit register by its 3-bit code (6 is never passed here).
    #[inline]
    fn reg(&self, code: u8, idx: Idx) -> u8 {
        match code {
            0 => self.b,
            1 => self.c,
            2 => self.d,
            3 => self.e,
            4 => hi(self.idx_val(idx)),
            5 => lo(self.idx_val(idx)),
            _ => self.a,
        }
    }
    #[inline]
    fn set_reg(&mut self, code: u8, idx: Idx, v: u8) {
        match code {
            0 => self.b = v,
            1 => self.c = v,
            2 => self.d = v,
            3 => self.e = v,
            4 => self.set_idx_val(idx, word(v, lo(self.idx_val(idx)))),
            5 => self.set_idx_val(idx, word(hi(self.idx_val(idx)), v)),
            _ => self.a = v,
        }
    }
    /// Register pair BC, DE, HL/IX/IY, SP.
    #[inline]
    fn rp(&self, p: u8, idx: Idx) -> u16 {
        match p {
            0 => self.bc(),
            1 => self.de(),
            2 => self.idx_val(idx),
            _ => self.sp,
        }
    }
    #[inline]
    fn set_rp(&mut self, p: u8, idx: Idx, v: u16) {
        match p {
            0 => self.set_bc(v),
            1 => self.set_de(v),
            2 => self.set_idx_val(idx, v),
            _ => self.sp = v,
        }
    }
    /// Condition code NZ Z NC C PO PE P M.
    #[inline]
    fn cc(&self, c: u8) -> bool {
        let bit = [ZF, CF, PF, SF][(c >> 1) as usize];
        ((self.f & bit) != 0) == (c & 1 != 0)
    }

    // ---- bus helpers ----------------------------------------------------------------

    #[inline]
    fn fetch<B: RefBus>(&mut self, bus: &mut B) -> u8 {
        let v = bus.m1(self.pc);
        self.pc = self.pc.wrapping_add(1);
        self.inc_r();
        v
    }
    #[inline]
    fn imm8<B: RefBus>(&mut self, bus: &mut B) -> u8 {
        let v = bus.rd(self.pc);
        self.pc = self.pc.wrapping_add(1);
        v
    }
    #[inline]
    fn imm16<B: RefBus>(&mut self, bus: &mut B) -> u16 {
        let l = self.imm8(bus);
        let h = self.imm8(bus);
        word(h, l)
    }
    #[inline]
    fn rd16<B: RefBus>(&mut self, bus: &mut B, a: u16) -> u16 {
        let l = bus.rd(a);
        let h = bus.rd(a.wrapping_add(1));
        word(h, l)
    }
    #[inline]
    fn wr16<B: RefBus>(&mut self, bus: &mut B, a: u16, v: u16) {
        bus.wr(a, lo(v));
        bus.wr(a.wrapping_add(1), hi(v));
    }
    #[inline]
    fn push<B: RefBus>(&mut self, bus: &mut B, v: u16) {
        self.sp = self.sp.wrapping_sub(1);
        bus.wr(self.sp, hi(v));
        self.sp = self.sp.wrapping_sub(1);
        bus.wr(self.sp, lo(v));
    }
    #[inline]
    fn pop<B: RefBus>(&mut self, bus: &mut B) -> u16 {
        let v = self.rd16(bus, self.sp);
        self.sp = self.sp.wrapping_add(2);
        v
    }
    /// Effective address of the `(HL)` operand: HL, or IX/IY+d with the displacement
    /// fetch `R(pc) D(pc)x5` and MEMPTR := address.
    #[inline]
    fn ea<B: RefBus>(&mut self, bus: &mut B, idx: Idx) -> u16 {
        if idx == Idx::Hl {
            return self.hl();
        }
        let d = bus.rd(self.pc);
        bus.dly(self.pc, 5);
        self.pc = self.pc.wrapping_add(1);
        let a = disp(self.idx_val(idx), d);
        self.memptr = a;
        a
    }
    /// Taken relative jump; PC points at the displacement byte `e` (already read).
    #[inline]
    fn jr_taken<B: RefBus>(&mut self, bus: &mut B, e: u8) {
        bus.dly(self.pc, 5);
        self.pc = disp(self.pc.wrapping_add(1), e);
        self.memptr = self.pc;
    }

    // ---- ALU ------------------------------------------------------------------------

    /// ADD ADC SUB SBC AND XOR OR CP on A.
    fn alu(&mut self, op: u8, v: u8) {
        let a = self.a;
        match op {
            0 | 1 => {
                let c = (op == 1 && self.f & CF != 0) as u16;
                let r16 = a as u16 + v as u16 + c;
                let r = r16 as u8;
                self.setf(sz53(r) | ((a ^ v ^ r) & HF) | (((a ^ r) & (v ^ r) & 0x80) >> 5) | hi(r16));
                self.a = r;
            }
            2 | 3 | 7 => {
                let c = (op == 3 && self.f & CF != 0) as u16;
                let r16 = (a as u16).wrapping_sub(v as u16).wrapping_sub(c);
                let r = r16 as u8;
                let f = (r & SF)
                    | flag(r == 0, ZF)
                    | ((a ^ v ^ r) & HF)
                    | (((a ^ v) & (a ^ r) & 0x80) >> 5)
                    | NF
                    | (hi(r16) & CF);
                if op == 7 {
                    self.setf(f | (v & XY));
                } else {
                    self.setf(f | (r & XY));
                    self.a = r;
                }
            }
            4 => {
                self.a = a & v;
                self.setf(sz53p(self.a) | HF);
            }
            5 => {
                self.a = a ^ v;
                self.setf(sz53p(self.a));
            }
            _ => {
                self.a = a | v;
                self.setf(sz53p(self.a));
            }
        }
    }
    fn inc8(&mut self, v: u8) -> u8 {
        let r = v.wrapping_add(1);
        self.setf((self.f & CF) | sz53(r) | flag(r & 0x0F == 0, HF) | flag(v == 0x7F, PF));
        r
    }
    fn dec8(&mut self, v: u8) -> u8 {
        let r = v.wrapping_sub(1);
        self.setf((self.f & CF) | NF | sz53(r) | flag(v & 0x0F == 0, HF) | flag(v == 0x80, PF));
        r
    }
    fn add16(&mut self, a: u16, v: u16) -> u16 {
        let r32 = a as u32 + v as u32;
        let r = r32 as u16;
        self.setf((self.f & (SF | ZF | PF)) | (hi(a ^ v ^ r) & HF) | ((r32 >> 16) as u8) | (hi(r) & XY));
        self.memptr = a.wrapping_add(1);
        r
    }
    fn adc16(&mut self, a: u16, v: u16) -> u16 {
        let r32 = a as u32 + v as u32 + (self.f & CF) as u32;
        let r = r32 as u16;
        self.setf(
            (hi(r) & (SF | XY))
                | flag(r == 0, ZF)
                | (hi(a ^ v ^ r) & HF)
                | (((a ^ r) & (v ^ r) & 0x8000) >> 13) as u8
                | ((r32 >> 16) as u8),
        );
        self.memptr = a.wrapping_add(1);
        r
    }
    fn sbc16(&mut self, a: u16, v: u16) -> u16 {
        let r32 = (a as u32).wrapping_sub(v as u32).wrapping_sub((self.f & CF) as u32);
        let r = r32 as u16;
        self.setf(
            (hi(r) & (SF | XY))
                | flag(r == 0, ZF)
                | (hi(a ^ v ^ r) & HF)
                | (((a ^ v) & (a ^ r) & 0x8000) >> 13) as u8
                | NF
                | ((r32 >> 16) as u8 & CF),
        );
        self.memptr = a.wrapping_add(1);
        r
    }
    /// CB-page rotate/shift `y` of `v` (RLC RRC RL RR SLA SRA SLL SRL).
    fn rot(&mut self, y: u8, v: u8) -> u8 {
        let c = self.f & CF;
        let (r, co) = match y {
            0 => (v.rotate_left(1), v >> 7),
            1 => (v.rotate_right(1), v & 1),
            2 => ((v << 1) | c, v >> 7),
            3 => ((v >> 1) | (c << 7), v & 1),
            4 => (v << 1, v >> 7),
            5 => ((v >> 1) | (v & 0x80), v & 1),
            6 => ((v << 1) | 1, v >> 7),
            _ => (v >> 1, v & 1),
        };
        self.setf(sz53p(r) | co);
        r
    }
    /// BIT n: `v` operand, `xy` the byte supplying bits 5 and 3.
    fn bit(&mut self, n: u8, v: u8, xy: u8) {
        let b = v & (1 << n);
        self.setf((self.f & CF) | HF | flag(b == 0, ZF | PF) | (b & SF) | (xy & XY));
    }
    fn daa(&mut self) {
        let a = self.a;
        let (c, h, n) = (self.f & CF != 0, self.f & HF != 0, self.f & NF != 0);
        let low = a & 0x0F;
        let mut corr = 0u8;
        if h || low > 9 {
            corr |= 0x06;
        }
        if c || a > 0x99 {
            corr |= 0x60;
        }
        let r = if n { a.wrapping_sub(corr) } else { a.wrapping_add(corr) };
        let h2 = if n { h && low < 6 } else { low > 9 };
        self.a = r;
        self.setf(sz53p(r) | flag(h2, HF) | flag(n, NF) | flag(c || a > 0x99, CF));
    }

    // ---- interrupt acceptance -------------------------------------------------------

    fn accept<B: RefBus>(&mut self, bus: &mut B, nmi: bool) {
        self.q = 0;
        if self.halted {
            self.halted = false;
            self.pc = self.pc.wrapping_add(1);
        }
        self.inc_r();
        self.iff1 = false;
        if nmi {
            bus.internal(5);
        } else {
            self.iff2 = false;
            bus.internal(7);
        }
        self.push(bus, self.pc);
        self.pc = if nmi {
            0x0066
        } else if self.im == 2 {
            let v = word(self.i, bus.int_bus_byte());
            self.rd16(bus, v)
        } else {
            0x0038
        };
        self.memptr = self.pc;
    }

    // ---- the step -------------------------------------------------------------------

    /// One step = [sampling + possible interrupt acceptance] followed by ONE complete
    /// instruction (including its whole prefix chain).
    pub fn step<B: RefBus>(&mut self, bus: &mut B) -> StepInfo {
        let mut info = StepInfo {
            accepted: Accepted::None,
            ignored_prefixes: 0,
            page: Page::Base,
            opcode: 0,
            variant: 0,
            halt: false,
            ambiguous: None,
        };
        if self.no_sample {
            self.no_sample = false;
        } else {
            let (nmi, int) = bus.sample_lines();
            if nmi {
                self.accept(bus, true);
                info.accepted = Accepted::Nmi;
            } else if int && self.iff1 {
                self.accept(bus, false);
                info.accepted = Accepted::Int;
            }
        }
        let q_before = self.q;
        self.q = 0;

        if self.halted {
            // still halted: the HALT at PC is executed again (the byte read is ignored)
            bus.m1(self.pc);
            self.inc_r();
            info.opcode = 0x76;
            info.halt = true;
            return info;
        }

        // prefix chain
        let mut idx = Idx::Hl;
        let op = loop {
            let op = self.fetch(bus);
            match op {
                0xDD | 0xFD => {
                    if idx != Idx::Hl {
                        // (a chain may be as long as memory allows: every overridden prefix is a 4-T no-op)
                        info.ignored_prefixes = info.ignored_prefixes.saturating_add(1);
                    }
                    idx = if op == 0xDD { Idx::Ix } else { Idx::Iy };
                }
                0xED if idx != Idx::Hl => {
                    info.ignored_prefixes = info.ignored_prefixes.saturating_add(1);
                    idx = Idx::Hl;
                    break op;
                }
                _ => break op,
            }
        };
        info.page = match idx {
            Idx::Hl => Page::Base,
            Idx::Ix => Page::DD,
            Idx::Iy => Page::FD,
        };
        info.opcode = op;
        match op {
            0xCB if idx == Idx::Hl => {
                info.page = Page::CB;
                info.opcode = self.fetch(bus);
                self.exec_cb(bus, info.opcode);
            }
            0xCB => {
                info.page = if idx == Idx::Ix { Page::DDCB } else { Page::FDCB };
                info.opcode = self.exec_idxcb(bus, idx);
            }
            0xED => {
                info.page = Page::ED;
                info.opcode = self.fetch(bus);
                self.exec_ed(bus, info.opcode, &mut info);
            }
            _ => self.exec_main(bus, op, idx, q_before, &mut info),
        }
        info
    }

    // ---- unprefixed / DD / FD page --------------------------------------------------

    fn exec_main<B: RefBus>(&mut self, bus: &mut B, op: u8, idx: Idx, q_before: u8, info: &mut StepInfo) {
        let (x, y, z) = (op >> 6, (op >> 3) & 7, op & 7);
        let (p, q) = (y >> 1, y & 1);
        match x {
            0 => match z {
                0 => match y {
                    0 => {}
                    1 => {
                        core::mem::swap(&mut self.a, &mut self.a_alt);
                        core::mem::swap(&mut self.f, &mut self.f_alt);
                    }
                    2 => {
                        bus.dly(self.ir(), 1);
                        let e = bus.rd(self.pc);
                        self.b = self.b.wrapping_sub(1);
                        if self.b != 0 {
                            self.jr_taken(bus, e);
                            info.variant = 1;
                        } else {
                            self.pc = self.pc.wrapping_add(1);
                        }
                    }
                    _ => {
                        let e = bus.rd(self.pc);
                        if y == 3 {
                            self.jr_taken(bus, e);
                        } else if self.cc(y - 4) {
                            self.jr_taken(bus, e);
                            info.variant = 1;
                        } else {
                            self.pc = self.pc.wrapping_add(1);
                        }
                    }
                },
                1 => {
                    if q == 0 {
                        let v = self.imm16(bus);
                        self.set_rp(p, idx, v);
                    } else {
                        bus.dly(self.ir(), 7);
                        let r = self.add16(self.idx_val(idx), self.rp(p, idx));
                        self.set_idx_val(idx, r);
                    }
                }
                2 => match y {
                    0 | 2 => {
                        let a = if y == 0 { self.bc() } else { self.de() };
                        bus.wr(a, self.a);
                        self.memptr = word(self.a, lo(a.wrapping_add(1)));
                    }
                    1 | 3 => {
                        let a = if y == 1 { self.bc() } else { self.de() };
                        self.a = bus.rd(a);
                        self.memptr = a.wrapping_add(1);
                    }
                    4 => {
                        let nn = self.imm16(bus);
                        self.wr16(bus, nn, self.idx_val(idx));
                        self.memptr = nn.wrapping_add(1);
                    }
                    5 => {
                        let nn = self.imm16(bus);
                        let v = self.rd16(bus, nn);
                        self.set_idx_val(idx, v);
                        self.memptr = nn.wrapping_add(1);
                    }
                    6 => {
                        let nn = self.imm16(bus);
                        bus.wr(nn, self.a);
                        self.memptr = word(self.a, lo(nn.wrapping_add(1)));
                    }
                    _ => {
                        let nn = self.imm16(bus);
                        self.a = bus.rd(nn);
                        self.memptr = nn.wrapping_add(1);
                    }
                },
                3 => {
                    bus.dly(self.ir(), 2);
                    let v = self.rp(p, idx);
                    self.set_rp(p, idx, if q == 0 { v.wrapping_add(1) } else { v.wrapping_sub(1) });
                }
                4 | 5 => {
                    if y == 6 {
                        let a = self.ea(bus, idx);
                        let v = bus.rd(a);
                        bus.dly(a, 1);
                        let r = if z == 4 { self.inc8(v) } else { self.dec8(v) };
                        bus.wr(a, r);
                    } else {
                        let v = self.reg(y, idx);
                        let r = if z == 4 { self.inc8(v) } else { self.dec8(v) };
                        self.set_reg(y, idx, r);
                    }
                }
                6 => {
                    if y != 6 {
                        let n = self.imm8(bus);
                        self.set_reg(y, idx, n);
                    } else if idx == Idx::Hl {
                        let n = self.imm8(bus);
                        bus.wr(self.hl(), n);
                    } else {
                        let d = self.imm8(bus);
                        let n = bus.rd(self.pc);
                        bus.dly(self.pc, 2);
                        self.pc = self.pc.wrapping_add(1);
                        let a = disp(self.idx_val(idx), d);
                        self.memptr = a;
                        bus.wr(a, n);
                    }
                }
                _ => {
                    let (a, f) = (self.a, self.f);
                    let keep = f & (SF | ZF | PF);
                    match y {
                        0 => {
                            self.a = a.rotate_left(1);
                            self.setf(keep | (self.a & (XY | CF)));
                        }
                        1 => {
                            self.a = a.rotate_right(1);
                            self.setf(keep | (self.a & XY) | (a & CF));
                        }
                        2 => {
                            self.a = (a << 1) | (f & CF);
                            self.setf(keep | (self.a & XY) | (a >> 7));
                        }
                        3 => {
                            self.a = (a >> 1) | ((f & CF) << 7);
                            self.setf(keep | (self.a & XY) | (a & CF));
                        }
                        4 => self.daa(),
                        5 => {
                            self.a = !a;
                            self.setf((f & (SF | ZF | PF | CF)) | HF | NF | (self.a & XY));
                        }
                        6 => self.setf(keep | CF | (((q_before ^ f) | a) & XY)),
                        _ => self.setf(
                            keep | flag(f & CF != 0, HF) | flag(f & CF == 0, CF) | (((q_before ^ f) | a) & XY),
                        ),
                    }
                }
            },
            1 => {
                if op == 0x76 {
                    self.halted = true;
                    self.pc = self.pc.wrapping_sub(1);
                    // DD/FD in front of HALT is an ordinary ignored prefix: the CPU halts on the 0x76
                    // byte, idles with one 4-T fetch per step and resumes behind the HALT
                    info.halt = true;
                } else if z == 6 {
                    let a = self.ea(bus, idx);
                    let v = bus.rd(a);
                    self.set_reg(y, Idx::Hl, v);
                } else if y == 6 {
                    let a = self.ea(bus, idx);
                    bus.wr(a, self.reg(z, Idx::Hl));
                } else {
                    let v = self.reg(z, idx);
                    self.set_reg(y, idx, v);
                }
            }
            2 => {
                let v = if z == 6 {
                    let a = self.ea(bus, idx);
                    bus.rd(a)
                } else {
                    self.reg(z, idx)
                };
                self.alu(y, v);
            }
            _ => match z {
                0 => {
                    bus.dly(self.ir(), 1);
                    if self.cc(y) {
                        self.pc = self.pop(bus);
                        self.memptr = self.pc;
                        info.variant = 1;
                    }
                }
                1 => {
                    if q == 0 {
                        let v = self.pop(bus);
                        if p == 3 {
                            self.a = hi(v);
                            self.f = lo(v); // not a flag computation: Q stays 0
                        } else {
                            self.set_rp(p, idx, v);
                        }
                    } else {
                        match p {
                            0 => {
                                self.pc = self.pop(bus);
                                self.memptr = self.pc;
                            }
                            1 => {
                                core::mem::swap(&mut self.b, &mut self.b_alt);
                                core::mem::swap(&mut self.c, &mut self.c_alt);
                                core::mem::swap(&mut self.d, &mut self.d_alt);
                                core::mem::swap(&mut self.e, &mut self.e_alt);
                                core::mem::swap(&mut self.h, &mut self.h_alt);
                                core::mem::swap(&mut self.l, &mut self.l_alt);
                            }
                            2 => self.pc = self.idx_val(idx),
                            _ => {
                                bus.dly(self.ir(), 2);
                                self.sp = self.idx_val(idx);
                            }
                        }
                    }
                }
                2 => {
                    let nn = self.imm16(bus);
                    self.memptr = nn;
                    if self.cc(y) {
                        self.pc = nn;
                        info.variant = 1;
                    }
                }
                3 => match y {
                    0 => {
                        self.pc = self.imm16(bus);
                        self.memptr = self.pc;
                    }
                    1 => unreachable!("CB is handled as a prefix"),
                    2 => {
                        let n = self.imm8(bus);
                        bus.io_w(word(self.a, n), self.a);
                        self.memptr = word(self.a, n.wrapping_add(1));
                    }
                    3 => {
                        let n = self.imm8(bus);
                        let port = word(self.a, n);
                        self.a = bus.io_r(port);
                        self.memptr = port.wrapping_add(1);
                    }
                    4 => {
                        let sp = self.sp;
                        let sp1 = sp.wrapping_add(1);
                        let old = self.idx_val(idx);
                        let l = bus.rd(sp);
                        let h = bus.rd(sp1);
                        bus.dly(sp1, 1);
                        bus.wr(sp1, hi(old));
                        bus.wr(sp, lo(old));
                        bus.dly(sp, 2);
                        self.set_idx_val(idx, word(h, l));
                        self.memptr = word(h, l);
                    }
                    5 => {
                        core::mem::swap(&mut self.d, &mut self.h);
                        core::mem::swap(&mut self.e, &mut self.l);
                    }
                    _ => {
                        self.iff1 = y == 7;
                        self.iff2 = y == 7;
                        self.no_sample = true;
                    }
                },
                4 => {
                    let l = self.imm8(bus);
                    let h = bus.rd(self.pc);
                    let nn = word(h, l);
                    self.memptr = nn;
                    if self.cc(y) {
                        bus.dly(self.pc, 1);
                        self.pc = self.pc.wrapping_add(1);
                        self.push(bus, self.pc);
                        self.pc = nn;
                        info.variant = 1;
                    } else {
                        self.pc = self.pc.wrapping_add(1);
                    }
                }
                5 => {
                    if q == 0 {
                        bus.dly(self.ir(), 1);
                        let v = if p == 3 { word(self.a, self.f) } else { self.rp(p, idx) };
                        self.push(bus, v);
                    } else {
                        // only CALL nn gets here; DD/ED/FD are prefixes
                        let l = self.imm8(bus);
                        let h = bus.rd(self.pc);
                        bus.dly(self.pc, 1);
                        self.pc = self.pc.wrapping_add(1);
                        self.push(bus, self.pc);
                        self.pc = word(h, l);
                        self.memptr = self.pc;
                    }
                }
                6 => {
                    let n = self.imm8(bus);
                    self.alu(y, n);
                }
                _ => {
                    bus.dly(self.ir(), 1);
                    self.push(bus, self.pc);
                    self.pc = (y as u16) << 3;
                    self.memptr = self.pc;
                }
            },
        }
    }

    // ---- CB page --------------------------------------------------------------------

    fn exec_cb<B: RefBus>(&mut self, bus: &mut B, op: u8) {
        let (x, y, z) = (op >> 6, (op >> 3) & 7, op & 7);
        if z != 6 {
            let v = self.reg(z, Idx::Hl);
            match x {
                0 => {
                    let r = self.rot(y, v);
                    self.set_reg(z, Idx::Hl, r);
                }
                1 => self.bit(y, v, v),
                2 => self.set_reg(z, Idx::Hl, v & !(1 << y)),
                _ => self.set_reg(z, Idx::Hl, v | (1 << y)),
            }
        } else {
            let a = self.hl();
            let v = bus.rd(a);
            bus.dly(a, 1);
            match x {
                0 => {
                    let r = self.rot(y, v);
                    bus.wr(a, r);
                }
                1 => self.bit(y, v, hi(self.memptr)),
                2 => bus.wr(a, v & !(1 << y)),
                _ => bus.wr(a, v | (1 << y)),
            }
        }
    }

    /// DD CB d op / FD CB d op. Returns the opcode byte.
    fn exec_idxcb<B: RefBus>(&mut self, bus: &mut B, idx: Idx) -> u8 {
        let d = self.imm8(bus);
        let op = bus.rd(self.pc); // plain read: no R increment
        bus.dly(self.pc, 2);
        self.pc = self.pc.wrapping_add(1);
        let a = disp(self.idx_val(idx), d);
        self.memptr = a;
        let (x, y, z) = (op >> 6, (op >> 3) & 7, op & 7);
        let v = bus.rd(a);
        bus.dly(a, 1);
        if x == 1 {
            self.bit(y, v, hi(a));
        } else {
            let r = match x {
                0 => self.rot(y, v),
                2 => v & !(1 << y),
                _ => v | (1 << y),
            };
            bus.wr(a, r);
            if z != 6 {
                self.set_reg(z, Idx::Hl, r); // undocumented copy into a plain register
            }
        }
        op
    }

    // ---- ED page --------------------------------------------------------------------

    fn exec_ed<B: RefBus>(&mut self, bus: &mut B, op: u8, info: &mut StepInfo) {
        let (x, y, z) = (op >> 6, (op >> 3) & 7, op & 7);
        let (p, q) = (y >> 1, y & 1);
        if x == 2 && y >= 4 && z <= 3 {
            return self.exec_block(bus, y, z, info);
        }
        if x != 1 {
            return; // undefined: 8-T NOP
        }
        match z {
            0 => {
                let bc = self.bc();
                let v = bus.io_r(bc);
                self.memptr = bc.wrapping_add(1);
                if y != 6 {
                    self.set_reg(y, Idx::Hl, v);
                }
                self.setf(sz53p(v) | (self.f & CF));
            }
            1 => {
                let bc = self.bc();
                let v = if y == 6 { 0 } else { self.reg(y, Idx::Hl) };
                bus.io_w(bc, v);
                self.memptr = bc.wrapping_add(1);
            }
            2 => {
                bus.dly(self.ir(), 7);
                let (hl, v) = (self.hl(), self.rp(p, Idx::Hl));
                let r = if q == 0 { self.sbc16(hl, v) } else { self.adc16(hl, v) };
                self.set_hl(r);
            }
            3 => {
                let nn = self.imm16(bus);
                if q == 0 {
                    self.wr16(bus, nn, self.rp(p, Idx::Hl));
                } else {
                    let v = self.rd16(bus, nn);
                    self.set_rp(p, Idx::Hl, v);
                }
                self.memptr = nn.wrapping_add(1);
            }
            4 => {
                let a = self.a;
                self.a = 0;
                self.alu(2, a);
            }
            5 => {
                self.pc = self.pop(bus);
                self.memptr = self.pc;
                self.iff1 = self.iff2;
            }
            6 => self.im = [0, 0, 1, 2][(y & 3) as usize],
            _ => match y {
                0 => {
                    bus.dly(self.ir(), 1);
                    self.i = self.a;
                }
                1 => {
                    bus.dly(self.ir(), 1);
                    self.r = self.a;
                }
                2 | 3 => {
                    bus.dly(self.ir(), 1);
                    self.a = if y == 2 { self.i } else { self.r };
                    self.setf(sz53(self.a) | flag(self.iff2, PF) | (self.f & CF));
                }
                4 | 5 => {
                    let hl = self.hl();
                    let v = bus.rd(hl);
                    bus.dly(hl, 4);
                    let a = self.a;
                    if y == 4 {
                        bus.wr(hl, (a << 4) | (v >> 4));
                        self.a = (a & 0xF0) | (v & 0x0F);
                    } else {
                        bus.wr(hl, (v << 4) | (a & 0x0F));
                        self.a = (a & 0xF0) | (v >> 4);
                    }
                    self.setf(sz53p(self.a) | (self.f & CF));
                    self.memptr = hl.wrapping_add(1);
                }
                _ => {}
            },
        }
    }

    /// LDI CPI INI OUTI (z = 0..3), y bit 0 = decrementing, y >= 6 = repeating form.
    fn exec_block<B: RefBus>(&mut self, bus: &mut B, y: u8, z: u8, info: &mut StepInfo) {
        let dec = y & 1 != 0;
        let step = |v: u16| if dec { v.wrapping_sub(1) } else { v.wrapping_add(1) };
        let hl = self.hl();
        let mut repeating = y >= 6;
        let mut data = 0u8;
        match z {
            0 => {
                let v = bus.rd(hl);
                let de = self.de();
                bus.wr(de, v);
                bus.dly(de, 2);
                self.set_hl(step(hl));
                self.set_de(step(de));
                let bc = self.bc().wrapping_sub(1);
                self.set_bc(bc);
                let n = self.a.wrapping_add(v);
                self.setf((self.f & (SF | ZF | CF)) | (n & XF) | ((n << 4) & YF) | flag(bc != 0, PF));
                repeating &= bc != 0;
                if repeating {
                    bus.dly(de, 5);
                }
            }
            1 => {
                let v = bus.rd(hl);
                bus.dly(hl, 5);
                let a = self.a;
                let r = a.wrapping_sub(v);
                let h = (a ^ v ^ r) & HF;
                let n = r.wrapping_sub(h >> 4);
                let bc = self.bc().wrapping_sub(1);
                self.set_bc(bc);
                self.set_hl(step(hl));
                self.memptr = step(self.memptr);
                self.setf(
                    (self.f & CF) | NF | (r & SF) | flag(r == 0, ZF) | h | (n & XF) | ((n << 4) & YF) | flag(bc != 0, PF),
                );
                repeating &= bc != 0 && r != 0;
                if repeating {
                    bus.dly(hl, 5);
                }
            }
            2 => {
                bus.dly(self.ir(), 1);
                let bc = self.bc();
                let v = bus.io_r(bc);
                data = v;
                self.memptr = step(bc);
                self.b = self.b.wrapping_sub(1);
                bus.wr(hl, v);
                self.set_hl(step(hl));
                let k = lo(step(self.c as u16)) as u16 + v as u16;
                self.inout_flags(v, k);
                repeating &= self.b != 0;
                if repeating {
                    bus.dly(hl, 5);
                }
            }
            _ => {
                bus.dly(self.ir(), 1);
                let v = bus.rd(hl);
                data = v;
                self.b = self.b.wrapping_sub(1);
                let bc = self.bc();
                bus.io_w(bc, v);
                self.set_hl(step(hl));
                self.memptr = step(bc);
                let k = self.l as u16 + v as u16;
                self.inout_flags(v, k);
                repeating &= self.b != 0;
                if repeating {
                    bus.dly(bc, 5);
                }
            }
        }
        if !repeating {
            return;
        }
        info.variant = 1;
        self.pc = self.pc.wrapping_sub(2);
        let pc = self.pc; // address of the ED byte
        if (pc ^ pc.wrapping_add(1)) & 0x2800 != 0 {
            info.ambiguous = Some("block repeat F53 at page-crossing PC");
        }
        let mut f = (self.f & !XY) | (hi(pc) & XY);
        if z < 2 {
            self.memptr = pc.wrapping_add(1);
        } else {
            // INxR / OTxR: H and P/V are rewritten while the instruction repeats
            let b = self.b;
            let odd = |x: u8| flag(!even_parity(x & 7), PF);
            if f & CF != 0 {
                if data & 0x80 != 0 {
                    f ^= odd(b.wrapping_sub(1));
                    f = (f & !HF) | flag(b & 0x0F == 0x00, HF);
                } else {
                    f ^= odd(b.wrapping_add(1));
                    f = (f & !HF) | flag(b & 0x0F == 0x0F, HF);
                }
            } else {
                f ^= odd(b);
            }
        }
        self.setf(f);
    }

    /// Flags of INI/IND/OUTI/OUTD; `v` = byte transferred, `k` = 9-bit helper sum, B already
    /// decremented.
    fn inout_flags(&mut self, v: u8, k: u16) {
        let b = self.b;
        self.setf(sz53(b) | flag(v & 0x80 != 0, NF) | flag(k > 0xFF, HF | CF) | flag(even_parity((k as u8 & 7) ^ b), PF));
    }
}
