//! `RefMem`: the Spectrum 48K / 128K memory map and 0x7FFD paging latch.

pub const PAGE: usize = 16384;

#[derive(Clone)]
pub struct RefMem {
    pub m128: bool,
    /// 8 RAM banks (48K uses banks 5, 2, 0 only)
    pub banks: Vec<Vec<u8>>,
    pub roms: Vec<Vec<u8>>,
    /// bank at 0xC000
    pub top: u8,
    /// false = bank 5 displayed, true = bank 7
    pub shadow_screen: bool,
    pub rom: u8,
    pub locked: bool,
    pub last_7ffd: u8,
}

impl RefMem {
    pub fn new(m128: bool) -> RefMem {
        RefMem {
            m128,
            banks: vec![vec![0u8; PAGE]; 8],
            roms: vec![vec![0u8; PAGE]; if m128 { 2 } else { 1 }],
            top: 0,
            shadow_screen: false,
            rom: 0,
            locked: false,
            last_7ffd: 0,
        }
    }
    /// A write that reaches the paging latch (the port decode is the caller's business).
    pub fn out_7ffd(&mut self, v: u8) {
        if !self.m128 || self.locked {
            return;
        }
        self.last_7ffd = v;
        self.top = v & 7;
        self.shadow_screen = v & 8 != 0;
        self.rom = (v >> 4) & 1;
        if v & 0x20 != 0 {
            self.locked = true;
        }
    }
    /// (is_rom, bank/page) mapped at the 16 KiB window `w` (0..3)
    pub fn window(&self, w: usize) -> (bool, u8) {
        match w {
            0 => (true, if self.m128 { self.rom } else { 0 }),
            1 => (false, 5),
            2 => (false, 2),
            _ => (false, if self.m128 { self.top } else { 0 }),
        }
    }
    pub fn read(&self, addr: u16) -> u8 {
        let (rom, p) = self.window(addr as usize / PAGE);
        let off = addr as usize % PAGE;
        if rom {
            self.roms[p as usize][off]
        } else {
            self.banks[p as usize][off]
        }
    }
    pub fn write(&mut self, addr: u16, v: u8) {
        let (rom, p) = self.window(addr as usize / PAGE);
        if !rom {
            self.banks[p as usize][addr as usize % PAGE] = v;
        }
    }
    /// the bank the ULA displays
    pub fn screen_bank(&self) -> u8 {
        if self.m128 && self.shadow_screen {
            7
        } else {
            5
        }
    }
    pub fn contended_bank(&self, bank: u8) -> bool {
        if self.m128 {
            bank & 1 == 1
        } else {
            bank == 5
        }
    }
    pub fn contended_addr(&self, addr: u16) -> bool {
        let (rom, p) = self.window(addr as usize / PAGE);
        !rom && self.contended_bank(p)
    }
}
