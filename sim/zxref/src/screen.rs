//! `RefScreen`: standard decode of the 6912-byte Spectrum display file + attributes, and
//! `RefBorder` geometry helpers. Pixel value = colour (0..7) | bright << 3.

pub const W: usize = 256;
pub const H: usize = 192;

/// offset of the display byte for pixel row y, byte column c
pub fn bitmap_offset(y: usize, c: usize) -> usize {
    ((y & 0xC0) << 5) | ((y & 7) << 8) | ((y & 0x38) << 2) | c
}

pub fn attr_offset(y: usize, c: usize) -> usize {
    0x1800 + (y >> 3) * 32 + c
}

/// Decodes the 6912 bytes into 256x192 pixel values. `flash_swapped` = FLASH cells currently
/// show ink and paper exchanged.
pub fn decode(mem: &[u8], flash_swapped: bool) -> Vec<u8> {
    let mut out = vec![0u8; W * H];
    for y in 0..H {
        for c in 0..32 {
            let bits = mem[bitmap_offset(y, c)];
            let a = mem[attr_offset(y, c)];
            let ink = a & 7;
            let paper = (a >> 3) & 7;
            let bright = (a >> 6) & 1;
            let swap = (a & 0x80 != 0) && flash_swapped;
            for b in 0..8 {
                let set = bits & (0x80 >> b) != 0;
                let colour = if set != swap { ink } else { paper };
                out[y * W + c * 8 + b] = colour | (bright << 3);
            }
        }
    }
    out
}

/// true if the two flash phases decode differently (some FLASH cell with ink != paper)
pub fn has_visible_flash(mem: &[u8]) -> bool {
    (0..768).any(|i| {
        let a = mem[0x1800 + i];
        a & 0x80 != 0 && (a & 7) != ((a >> 3) & 7)
    })
}
