//! `RefTape`: the standard Spectrum ROM-loader waveform of a TAP image as a pulse list, and a
//! tolerant ROM-like decoder of an observed edge stream. Written from the format / ROM timing
//! documentation; shares no code with the implementation under test.

pub const PILOT: u64 = 2168;
pub const SYNC1: u64 = 667;
pub const SYNC2: u64 = 735;
pub const BIT0: u64 = 855;
pub const BIT1: u64 = 1710;
pub const PILOT_HEADER: u64 = 8063;
pub const PILOT_DATA: u64 = 3223;
/// every pulse may be lengthened by strictly less than this many T-states
pub const TOL: u64 = 32;

/// Splits a TAP image into its blocks (each `len:u16` + `len` bytes). A truncated tail is
/// returned separately as `(declared_len, bytes_present)`.
pub fn tap_blocks(img: &[u8]) -> (Vec<Vec<u8>>, Option<(usize, Vec<u8>)>) {
    let mut out = vec![];
    let mut p = 0usize;
    while p + 2 <= img.len() {
        let len = u16::from_le_bytes([img[p], img[p + 1]]) as usize;
        p += 2;
        if p + len > img.len() {
            return (out, Some((len, img[p..].to_vec())));
        }
        out.push(img[p..p + len].to_vec());
        p += len;
    }
    (out, None)
}

pub fn make_tap(blocks: &[Vec<u8>]) -> Vec<u8> {
    let mut v = vec![];
    for b in blocks {
        v.extend_from_slice(&(b.len() as u16).to_le_bytes());
        v.extend_from_slice(b);
    }
    v
}

/// Builds a standard block: flag, payload, XOR checksum.
pub fn std_block(flag: u8, payload: &[u8]) -> Vec<u8> {
    let mut b = Vec::with_capacity(payload.len() + 2);
    b.push(flag);
    b.extend_from_slice(payload);
    let x = b.iter().fold(0u8, |a, &v| a ^ v);
    b.push(x);
    b
}

/// Nominal pilot pulse count for a block (by its flag byte).
pub fn pilot_count(block: &[u8]) -> u64 {
    if block.first() == Some(&0) {
        PILOT_HEADER
    } else {
        PILOT_DATA
    }
}

/// Nominal duration in T-states of one block's waveform without the pause.
pub fn block_duration(block: &[u8]) -> u64 {
    let mut t = pilot_count(block) * PILOT + SYNC1 + SYNC2;
    for &b in block {
        let ones = b.count_ones() as u64;
        t += 2 * (ones * BIT1 + (8 - ones) * BIT0);
    }
    t
}

#[derive(Clone, Copy, Debug, PartialEq, Eq)]
pub enum PulseClass {
    Pilot,
    Sync1,
    Sync2,
    Bit0,
    Bit1,
    /// longer than any waveform pulse + tolerance: silence / pause
    Long,
    /// anything else (shorter than nominal, or between classes)
    Bad,
}

pub fn classify(len: u64) -> PulseClass {
    classify_tol(len, 0, TOL)
}

/// classification with an observation tolerance: a pulse of nominal length `nom` may be observed
/// as `nom - early ..= nom + late - 1` (used when the level is sampled only every few T-states)
pub fn classify_tol(len: u64, early: u64, late: u64) -> PulseClass {
    let within = |nom: u64| len + early >= nom && len < nom + late;
    if within(PILOT) {
        PulseClass::Pilot
    } else if within(SYNC1) {
        PulseClass::Sync1
    } else if within(SYNC2) {
        PulseClass::Sync2
    } else if within(BIT0) {
        PulseClass::Bit0
    } else if within(BIT1) {
        PulseClass::Bit1
    } else if len >= 100_000 {
        PulseClass::Long
    } else {
        PulseClass::Bad
    }
}

#[derive(Clone, Debug, PartialEq, Eq)]
pub enum BlockEnd {
    /// ended at a byte boundary by a long pulse (pause / silence)
    Pause,
    /// edge stream ended while the block was still going on (at any point)
    StreamEnd,
    /// ended by an out-of-family pulse or in the middle of a byte
    Cut,
}

#[derive(Clone, Debug)]
pub struct Decoded {
    pub bytes: Vec<u8>,
    /// number of pilot-class pulses seen before the sync
    pub pilot: u64,
    /// index (into the pulse list) of the first pilot pulse
    pub first_pulse: usize,
    /// index of the pulse that ended the block (or pulses.len())
    pub end_pulse: usize,
    pub end: BlockEnd,
    /// offending pulse length for `Cut`
    pub bad_len: u64,
    /// length of the long pulse that ended the block (`Pause`)
    pub pause_len: u64,
}

/// Decodes a pulse list (lengths between consecutive level changes) the way the ROM loader
/// would: a leader of at least 256 pilot pulses, sync, then bit pairs. Pulses that do not form a
/// valid leader are skipped as noise (the ROM would keep searching).
pub fn decode(pulses: &[u64]) -> Vec<Decoded> {
    decode_tol(pulses, 0, TOL)
}

pub fn decode_tol(pulses: &[u64], early: u64, late: u64) -> Vec<Decoded> {
    let classify = |l: u64| classify_tol(l, early, late);
    let mut out = vec![];
    let mut i = 0usize;
    let n = pulses.len();
    while i < n {
        // search for a leader
        if classify(pulses[i]) != PulseClass::Pilot {
            i += 1;
            continue;
        }
        let first = i;
        let mut pilot = 0u64;
        while i < n && classify(pulses[i]) == PulseClass::Pilot {
            pilot += 1;
            i += 1;
        }
        if i >= n {
            // stream ends in the leader
            if pilot >= 256 {
                out.push(Decoded { bytes: vec![], pilot, first_pulse: first, end_pulse: n, end: BlockEnd::StreamEnd, bad_len: 0, pause_len: 0 });
            }
            break;
        }
        if pilot < 256 {
            continue; // noise
        }
        if classify(pulses[i]) != PulseClass::Sync1 {
            out.push(Decoded { bytes: vec![], pilot, first_pulse: first, end_pulse: i, end: BlockEnd::Cut, bad_len: pulses[i], pause_len: 0 });
            continue;
        }
        i += 1;
        if i >= n {
            out.push(Decoded { bytes: vec![], pilot, first_pulse: first, end_pulse: n, end: BlockEnd::StreamEnd, bad_len: 0, pause_len: 0 });
            break;
        }
        if classify(pulses[i]) != PulseClass::Sync2 {
            out.push(Decoded { bytes: vec![], pilot, first_pulse: first, end_pulse: i, end: BlockEnd::Cut, bad_len: pulses[i], pause_len: 0 });
            continue;
        }
        i += 1;
        // data
        let mut bytes = vec![];
        let mut cur = 0u8;
        let mut nbits = 0u8;
        let end;
        let mut bad_len = 0;
        let mut pause_len = 0;
        loop {
            if i >= n {
                end = BlockEnd::StreamEnd;
                break;
            }
            let c1 = classify(pulses[i]);
            if c1 != PulseClass::Bit0 && c1 != PulseClass::Bit1 {
                if nbits == 0 && c1 == PulseClass::Long {
                    end = BlockEnd::Pause;
                    pause_len = pulses[i];
                } else {
                    end = BlockEnd::Cut;
                    bad_len = pulses[i];
                }
                break;
            }
            if i + 1 >= n {
                i = n;
                end = BlockEnd::StreamEnd;
                break;
            }
            let c2 = classify(pulses[i + 1]);
            if c2 != c1 {
                end = BlockEnd::Cut;
                bad_len = pulses[i + 1];
                i += 1;
                break;
            }
            i += 2;
            cur = (cur << 1) | (c1 == PulseClass::Bit1) as u8;
            nbits += 1;
            if nbits == 8 {
                bytes.push(cur);
                cur = 0;
                nbits = 0;
            }
        }
        out.push(Decoded { bytes, pilot, first_pulse: first, end_pulse: i.min(n), end, bad_len, pause_len });
        // the ending pulse is not consumed when it is a pilot pulse (next leader may start there)
        if i < n && classify(pulses[i]) != PulseClass::Pilot {
            i += 1;
        }
    }
    out
}
