//! `RefLdBytes`: byte-level model of the 48K ROM tape block routine LD-BYTES (0x0556), written
//! from the ROM disassembly (DESIGN.md appendix B). It says what the ROM leaves behind after
//! reading one block from tape: memory, IX, DE and the carry (success) flag.

#[derive(Clone, Copy, Debug, PartialEq, Eq)]
pub struct LdResult {
    pub carry: bool,
    pub ix: u16,
    pub de: u16,
    /// bytes of the block that were consumed by the loader
    pub consumed: usize,
}

/// `mem_read` / `mem_write` see the CPU's address space (writes to ROM are ignored by the callee).
/// `block` = the bytes the tape delivers for this request (flag, data..., checksum), after which
/// the tape is silent. Returns `None` when there is no block at all (the ROM waits forever).
pub fn ld_bytes(
    a: u8,
    load: bool,
    mut ix: u16,
    mut de: u16,
    block: Option<&[u8]>,
    mem_read: &mut dyn FnMut(u16) -> u8,
    mem_write: &mut dyn FnMut(u16, u8),
) -> Option<LdResult> {
    let block = block?;
    // Z' after INC D at entry: set when D was 0xFF -> the "flag byte already seen" state
    let mut flag_seen = (de >> 8) as u8 == 0xFF;
    let mut h: u8 = 0;
    let mut consumed = 0usize;
    for &b in block {
        consumed += 1;
        h ^= b;
        if de == 0 {
            return Some(LdResult { carry: h == 0, ix, de, consumed });
        }
        if !flag_seen {
            if b != a {
                return Some(LdResult { carry: false, ix, de, consumed });
            }
            flag_seen = true;
            continue;
        }
        if load {
            mem_write(ix, b);
        } else if mem_read(ix) != b {
            return Some(LdResult { carry: false, ix, de, consumed });
        }
        ix = ix.wrapping_add(1);
        de = de.wrapping_sub(1);
    }
    // tape ran dry in the middle of the request (an empty block included)
    Some(LdResult { carry: false, ix, de, consumed })
}
