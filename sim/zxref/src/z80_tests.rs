//! Self-checks of `RefZ80`: (a) the cycle scripts add up to the documented totals for every
//! opcode of every page, (b) the scripts of Appendix A cycle by cycle, (c) a few of the
//! Appendix D rules that ZEXALL cannot see (MEMPTR, Q, interrupt entry, prefix chains).

use crate::z80::*;
use Cyc::*;

#[derive(Clone, Copy, Debug, PartialEq, Eq)]
enum Cyc {
    M1(u16),
    R(u16),
    W(u16, u8),
    D(u16, u8),
    I(u8),
    IoR(u16),
    IoW(u16, u8),
}

struct TB {
    mem: Vec<u8>,
    log: Vec<Cyc>,
    nmi: bool,
    int: bool,
    int_byte: u8,
    samples: u32,
}

impl TB {
    fn new() -> Self {
        TB { mem: vec![0; 0x10000], log: Vec::new(), nmi: false, int: false, int_byte: 0xFF, samples: 0 }
    }
    fn load(&mut self, at: u16, bytes: &[u8]) {
        for (i, b) in bytes.iter().enumerate() {
            self.mem[at.wrapping_add(i as u16) as usize] = *b;
        }
    }
    fn t(&self) -> u32 {
        self.log
            .iter()
            .map(|c| match *c {
                M1(_) => 4,
                R(_) | W(..) => 3,
                D(_, n) | I(n) => n as u32,
                IoR(_) | IoW(..) => 4,
            })
            .sum()
    }
}

impl RefBus for TB {
    fn m1(&mut self, addr: u16) -> u8 {
        self.log.push(M1(addr));
        self.mem[addr as usize]
    }
    fn rd(&mut self, addr: u16) -> u8 {
        self.log.push(R(addr));
        self.mem[addr as usize]
    }
    fn wr(&mut self, addr: u16, v: u8) {
        self.log.push(W(addr, v));
        self.mem[addr as usize] = v;
    }
    fn dly(&mut self, addr: u16, n: u8) {
        self.log.push(D(addr, n));
    }
    fn internal(&mut self, n: u8) {
        self.log.push(I(n));
    }
    fn io_r(&mut self, port: u16) -> u8 {
        self.log.push(IoR(port));
        0xFF
    }
    fn io_w(&mut self, port: u16, v: u8) {
        self.log.push(IoW(port, v));
    }
    fn sample_lines(&mut self) -> (bool, bool) {
        self.samples += 1;
        let r = (self.nmi, self.int);
        self.nmi = false;
        r
    }
    fn int_bus_byte(&mut self) -> u8 {
        self.int_byte
    }
}

const PC: u16 = 0x8000;
const SP: u16 = 0x9000;
const IX: u16 = 0xA000;
const IY: u16 = 0xA100;
const HL: u16 = 0xB000;
const DE: u16 = 0xC000;

/// CPU in the standard test state: PC=8000 SP=9000 IX=A000 IY=A100 HL=B000 DE=C000
/// BC=1234 A=01 I=3F R=00, so `ir` is 3F01 after one M1 and 3F02 after two.
fn cpu() -> RefZ80 {
    let mut c = RefZ80::new();
    c.pc = PC;
    c.sp = SP;
    c.ix = IX;
    c.iy = IY;
    c.h = (HL >> 8) as u8;
    c.l = HL as u8;
    c.d = (DE >> 8) as u8;
    c.e = DE as u8;
    c.b = 0x12;
    c.c = 0x34;
    c.a = 0x01;
    c.i = 0x3F;
    c
}

/// Runs `code` for one step from the standard state after `setup`.
fn run(code: &[u8], setup: impl FnOnce(&mut RefZ80, &mut TB)) -> (RefZ80, TB, StepInfo) {
    let mut c = cpu();
    let mut b = TB::new();
    b.load(PC, code);
    setup(&mut c, &mut b);
    let info = c.step(&mut b);
    (c, b, info)
}

fn script(code: &[u8], setup: impl FnOnce(&mut RefZ80, &mut TB)) -> Vec<Cyc> {
    run(code, setup).1.log
}

// -------------------------------------------------------------------------------------
// (a) cycle sums
// -------------------------------------------------------------------------------------

fn has_variants(page: Page, op: u8) -> bool {
    match page {
        Page::Base | Page::DD | Page::FD => {
            matches!(op, 0x10 | 0x20 | 0x28 | 0x30 | 0x38) || (op >= 0xC0 && matches!(op & 7, 0 | 2 | 4))
        }
        Page::ED => matches!(op, 0xB0..=0xB3 | 0xB8..=0xBB),
        _ => false,
    }
}

fn check_total(page: Page, op: u8, variant: u8) {
    let mut code: Vec<u8> = match page {
        Page::Base => vec![],
        Page::CB => vec![0xCB],
        Page::ED => vec![0xED],
        Page::DD => vec![0xDD],
        Page::FD => vec![0xFD],
        Page::DDCB => vec![0xDD, 0xCB, 0x05],
        Page::FDCB => vec![0xFD, 0xCB, 0x05],
    };
    code.extend_from_slice(&[op, 0x10, 0x70]);
    let want = variant == 1;
    let (_, bus, info) = run(&code, |c, _| match page {
        Page::ED => {
            // block instructions: BC = 2 / B = 2 repeats, 1 terminates; A=1 != (HL)=0
            let n = if want { 2 } else { 1 };
            if op & 3 < 2 {
                c.b = 0;
                c.c = n;
            } else {
                c.b = n;
            }
        }
        _ => {
            if op == 0x10 {
                c.b = if want { 2 } else { 1 };
            } else {
                let y = (op >> 3) & 7;
                let cond = if op < 0x40 { y.wrapping_sub(4) & 3 } else { y };
                let bit = [0x40u8, 0x01, 0x04, 0x80][(cond >> 1) as usize];
                c.f = if (cond & 1 == 1) == want { bit } else { 0 };
            }
        }
    });
    let ctx = format!("{:?} {:02X} variant {}", page, op, variant);
    assert_eq!(info.page, page, "page of {}", ctx);
    assert_eq!(info.opcode, op, "opcode of {}", ctx);
    assert_eq!(info.variant, variant, "variant of {}", ctx);
    assert_eq!(info.ignored_prefixes, 0, "{}", ctx);
    assert_eq!(info.accepted, Accepted::None, "{}", ctx);
    assert_eq!(bus.samples, 1, "{}", ctx);
    assert_eq!(bus.t(), RefZ80::t_total(page, op, variant), "T-states of {}: {:?}", ctx, bus.log);
}

#[test]
fn cycle_sums_match_documented_totals() {
    let pages = [Page::Base, Page::CB, Page::ED, Page::DD, Page::FD, Page::DDCB, Page::FDCB];
    let mut n = 0;
    for page in pages {
        for op in 0..=255u8 {
            let is_prefix = matches!(op, 0xCB | 0xDD | 0xED | 0xFD);
            if is_prefix && matches!(page, Page::Base | Page::DD | Page::FD) {
                continue;
            }
            check_total(page, op, 0);
            n += 1;
            if has_variants(page, op) {
                check_total(page, op, 1);
                n += 1;
            }
        }
    }
    assert_eq!(n, 7 * 256 - 12 + 3 * 29 + 8);
}

#[test]
fn documented_totals_spot_values() {
    // a few values straight from the Zilog tables, guarding the table itself
    let t = RefZ80::t_total;
    assert_eq!(t(Page::Base, 0x00, 0), 4);
    assert_eq!(t(Page::Base, 0xE3, 0), 19);
    assert_eq!(t(Page::Base, 0xCD, 0), 17);
    assert_eq!((t(Page::Base, 0x10, 0), t(Page::Base, 0x10, 1)), (8, 13));
    assert_eq!((t(Page::Base, 0xC0, 0), t(Page::Base, 0xC0, 1)), (5, 11));
    assert_eq!((t(Page::Base, 0xC4, 0), t(Page::Base, 0xC4, 1)), (10, 17));
    assert_eq!((t(Page::Base, 0xC2, 0), t(Page::Base, 0xC2, 1)), (10, 10));
    assert_eq!(t(Page::CB, 0x46, 0), 12);
    assert_eq!(t(Page::CB, 0x06, 0), 15);
    assert_eq!((t(Page::ED, 0xB0, 0), t(Page::ED, 0xB0, 1)), (16, 21));
    assert_eq!(t(Page::ED, 0x4A, 0), 15);
    assert_eq!(t(Page::ED, 0x43, 0), 20);
    assert_eq!(t(Page::ED, 0x6F, 0), 18);
    assert_eq!(t(Page::ED, 0x4D, 0), 14);
    assert_eq!(t(Page::DD, 0x21, 0), 14);
    assert_eq!(t(Page::DD, 0x09, 0), 15);
    assert_eq!(t(Page::DD, 0x34, 0), 23);
    assert_eq!(t(Page::DD, 0x36, 0), 19);
    assert_eq!(t(Page::DD, 0x7E, 0), 19);
    assert_eq!(t(Page::DD, 0xE3, 0), 23);
    assert_eq!(t(Page::DD, 0xE5, 0), 15);
    assert_eq!(t(Page::FD, 0xE9, 0), 8);
    assert_eq!(t(Page::DDCB, 0x46, 0), 20);
    assert_eq!(t(Page::FDCB, 0xC6, 0), 23);
}

// -------------------------------------------------------------------------------------
// (b) Appendix A scripts, cycle by cycle
// -------------------------------------------------------------------------------------

#[test]
fn scripts_base_page() {
    let nop = |_: &mut RefZ80, _: &mut TB| {};
    assert_eq!(script(&[0x00], nop), [M1(PC)]);
    assert_eq!(script(&[0x3E, 0x77], nop), [M1(PC), R(PC + 1)]);
    assert_eq!(script(&[0x7E], nop), [M1(PC), R(HL)]);
    assert_eq!(script(&[0x70], nop), [M1(PC), W(HL, 0x12)]);
    assert_eq!(script(&[0x36, 0x77], nop), [M1(PC), R(PC + 1), W(HL, 0x77)]);
    assert_eq!(script(&[0x34], nop), [M1(PC), R(HL), D(HL, 1), W(HL, 1)]);
    assert_eq!(script(&[0x0A], nop), [M1(PC), R(0x1234)]);
    assert_eq!(script(&[0x12], nop), [M1(PC), W(DE, 0x01)]);
    assert_eq!(script(&[0x3A, 0x10, 0x70], nop), [M1(PC), R(PC + 1), R(PC + 2), R(0x7010)]);
    assert_eq!(script(&[0x32, 0x10, 0x70], nop), [M1(PC), R(PC + 1), R(PC + 2), W(0x7010, 1)]);
    assert_eq!(
        script(&[0x2A, 0x10, 0x70], nop),
        [M1(PC), R(PC + 1), R(PC + 2), R(0x7010), R(0x7011)]
    );
    assert_eq!(
        script(&[0x22, 0x10, 0x70], nop),
        [M1(PC), R(PC + 1), R(PC + 2), W(0x7010, 0x00), W(0x7011, 0xB0)]
    );
    assert_eq!(script(&[0x01, 0x10, 0x70], nop), [M1(PC), R(PC + 1), R(PC + 2)]);
    assert_eq!(script(&[0xC3, 0x10, 0x70], nop), [M1(PC), R(PC + 1), R(PC + 2)]);
    assert_eq!(script(&[0x03], nop), [M1(PC), D(0x3F01, 2)]);
    assert_eq!(script(&[0xF9], nop), [M1(PC), D(0x3F01, 2)]);
    assert_eq!(script(&[0x09], nop), [M1(PC), D(0x3F01, 7)]);
    assert_eq!(script(&[0xC5], nop), [M1(PC), D(0x3F01, 1), W(SP - 1, 0x12), W(SP - 2, 0x34)]);
    assert_eq!(script(&[0xD7], nop), [M1(PC), D(0x3F01, 1), W(SP - 1, 0x80), W(SP - 2, 0x01)]);
    assert_eq!(script(&[0xC1], nop), [M1(PC), R(SP), R(SP + 1)]);
    assert_eq!(script(&[0xC9], nop), [M1(PC), R(SP), R(SP + 1)]);
    assert_eq!(script(&[0xC0], |c, _| c.f = 0x40), [M1(PC), D(0x3F01, 1)]);
    assert_eq!(script(&[0xC0], nop), [M1(PC), D(0x3F01, 1), R(SP), R(SP + 1)]);
    assert_eq!(script(&[0x18, 0x05], nop), [M1(PC), R(PC + 1), D(PC + 1, 5)]);
    assert_eq!(script(&[0x28, 0x05], nop), [M1(PC), R(PC + 1)]);
    assert_eq!(script(&[0x20, 0x05], nop), [M1(PC), R(PC + 1), D(PC + 1, 5)]);
    assert_eq!(script(&[0x10, 0x05], nop), [M1(PC), D(0x3F01, 1), R(PC + 1), D(PC + 1, 5)]);
    assert_eq!(script(&[0x10, 0x05], |c, _| c.b = 1), [M1(PC), D(0x3F01, 1), R(PC + 1)]);
    assert_eq!(
        script(&[0xCD, 0x10, 0x70], nop),
        [M1(PC), R(PC + 1), R(PC + 2), D(PC + 2, 1), W(SP - 1, 0x80), W(SP - 2, 0x03)]
    );
    assert_eq!(script(&[0xCC, 0x10, 0x70], nop), [M1(PC), R(PC + 1), R(PC + 2)]);
    assert_eq!(
        script(&[0xC4, 0x10, 0x70], nop),
        [M1(PC), R(PC + 1), R(PC + 2), D(PC + 2, 1), W(SP - 1, 0x80), W(SP - 2, 0x03)]
    );
    assert_eq!(
        script(&[0xE3], |c, _| c.l = 0xC0),
        [M1(PC), R(SP), R(SP + 1), D(SP + 1, 1), W(SP + 1, 0xB0), W(SP, 0xC0), D(SP, 2)]
    );
    assert_eq!(script(&[0xD3, 0xFF], |c, _| c.a = 0x12), [M1(PC), R(PC + 1), IoW(0x12FF, 0x12)]);
    assert_eq!(script(&[0xDB, 0x34], |c, _| c.a = 0x12), [M1(PC), R(PC + 1), IoR(0x1234)]);
}

#[test]
fn scripts_cb_and_ed_pages() {
    let nop = |_: &mut RefZ80, _: &mut TB| {};
    assert_eq!(script(&[0xCB, 0x00], nop), [M1(PC), M1(PC + 1)]);
    assert_eq!(script(&[0xCB, 0x46], nop), [M1(PC), M1(PC + 1), R(HL), D(HL, 1)]);
    assert_eq!(script(&[0xCB, 0xC6], nop), [M1(PC), M1(PC + 1), R(HL), D(HL, 1), W(HL, 1)]);
    assert_eq!(script(&[0xED, 0x78], nop), [M1(PC), M1(PC + 1), IoR(0x1234)]);
    assert_eq!(script(&[0xED, 0x79], nop), [M1(PC), M1(PC + 1), IoW(0x1234, 1)]);
    assert_eq!(script(&[0xED, 0x71], nop), [M1(PC), M1(PC + 1), IoW(0x1234, 0)]);
    assert_eq!(script(&[0xED, 0x4A], nop), [M1(PC), M1(PC + 1), D(0x3F02, 7)]);
    assert_eq!(
        script(&[0xED, 0x4B, 0x10, 0x70], nop),
        [M1(PC), M1(PC + 1), R(PC + 2), R(PC + 3), R(0x7010), R(0x7011)]
    );
    assert_eq!(
        script(&[0xED, 0x43, 0x10, 0x70], nop),
        [M1(PC), M1(PC + 1), R(PC + 2), R(PC + 3), W(0x7010, 0x34), W(0x7011, 0x12)]
    );
    assert_eq!(script(&[0xED, 0x44], nop), [M1(PC), M1(PC + 1)]);
    assert_eq!(script(&[0xED, 0x00], nop), [M1(PC), M1(PC + 1)]);
    assert_eq!(script(&[0xED, 0x45], nop), [M1(PC), M1(PC + 1), R(SP), R(SP + 1)]);
    for op in [0x47, 0x4F, 0x57, 0x5F] {
        assert_eq!(script(&[0xED, op], nop), [M1(PC), M1(PC + 1), D(0x3F02, 1)]);
    }
    assert_eq!(
        script(&[0xED, 0x6F], |_, b| b.mem[HL as usize] = 0xAB),
        [M1(PC), M1(PC + 1), R(HL), D(HL, 4), W(HL, 0xB1)]
    );
    assert_eq!(
        script(&[0xED, 0x67], |_, b| b.mem[HL as usize] = 0xAB),
        [M1(PC), M1(PC + 1), R(HL), D(HL, 4), W(HL, 0x1A)]
    );
    // block instructions, single and repeating
    let bc2 = |c: &mut RefZ80, _: &mut TB| {
        c.b = 0;
        c.c = 2;
    };
    assert_eq!(script(&[0xED, 0xA0], nop), [M1(PC), M1(PC + 1), R(HL), W(DE, 0), D(DE, 2)]);
    assert_eq!(script(&[0xED, 0xB0], bc2), [M1(PC), M1(PC + 1), R(HL), W(DE, 0), D(DE, 2), D(DE, 5)]);
    assert_eq!(script(&[0xED, 0xB8], bc2), [M1(PC), M1(PC + 1), R(HL), W(DE, 0), D(DE, 2), D(DE, 5)]);
    assert_eq!(script(&[0xED, 0xA1], nop), [M1(PC), M1(PC + 1), R(HL), D(HL, 5)]);
    assert_eq!(script(&[0xED, 0xB1], bc2), [M1(PC), M1(PC + 1), R(HL), D(HL, 5), D(HL, 5)]);
    assert_eq!(script(&[0xED, 0xB1], |c, _| c.a = 0), [M1(PC), M1(PC + 1), R(HL), D(HL, 5)]);
    assert_eq!(
        script(&[0xED, 0xB2], nop),
        [M1(PC), M1(PC + 1), D(0x3F02, 1), IoR(0x1234), W(HL, 0xFF), D(HL, 5)]
    );
    assert_eq!(
        script(&[0xED, 0xA2], nop),
        [M1(PC), M1(PC + 1), D(0x3F02, 1), IoR(0x1234), W(HL, 0xFF)]
    );
    assert_eq!(
        script(&[0xED, 0xBB], |_, b| b.mem[HL as usize] = 0x5A),
        [M1(PC), M1(PC + 1), D(0x3F02, 1), R(HL), IoW(0x1134, 0x5A), D(0x1134, 5)]
    );
    assert_eq!(
        script(&[0xED, 0xB3], |c, _| c.b = 1),
        [M1(PC), M1(PC + 1), D(0x3F02, 1), R(HL), IoW(0x0034, 0)]
    );
}

#[test]
fn scripts_indexed_pages() {
    let nop = |_: &mut RefZ80, _: &mut TB| {};
    assert_eq!(
        script(&[0xDD, 0x7E, 0x05], nop),
        [M1(PC), M1(PC + 1), R(PC + 2), D(PC + 2, 5), R(IX + 5)]
    );
    assert_eq!(
        script(&[0xFD, 0x70, 0xFE], nop),
        [M1(PC), M1(PC + 1), R(PC + 2), D(PC + 2, 5), W(IY - 2, 0x12)]
    );
    assert_eq!(
        script(&[0xDD, 0x86, 0x05], nop),
        [M1(PC), M1(PC + 1), R(PC + 2), D(PC + 2, 5), R(IX + 5)]
    );
    assert_eq!(
        script(&[0xDD, 0x34, 0x05], nop),
        [M1(PC), M1(PC + 1), R(PC + 2), D(PC + 2, 5), R(IX + 5), D(IX + 5, 1), W(IX + 5, 1)]
    );
    assert_eq!(
        script(&[0xDD, 0x36, 0x05, 0x77], nop),
        [M1(PC), M1(PC + 1), R(PC + 2), R(PC + 3), D(PC + 3, 2), W(IX + 5, 0x77)]
    );
    assert_eq!(
        script(&[0xDD, 0xCB, 0x05, 0x46], nop),
        [M1(PC), M1(PC + 1), R(PC + 2), R(PC + 3), D(PC + 3, 2), R(IX + 5), D(IX + 5, 1)]
    );
    assert_eq!(
        script(&[0xFD, 0xCB, 0x05, 0xC6], nop),
        [M1(PC), M1(PC + 1), R(PC + 2), R(PC + 3), D(PC + 3, 2), R(IY + 5), D(IY + 5, 1), W(IY + 5, 1)]
    );
    // not using HL: prefix M1 then the plain script, `ir` one further
    assert_eq!(script(&[0xDD, 0x09], nop), [M1(PC), M1(PC + 1), D(0x3F02, 7)]);
    assert_eq!(script(&[0xDD, 0x01, 1, 2], nop), [M1(PC), M1(PC + 1), R(PC + 2), R(PC + 3)]);
    assert_eq!(
        script(&[0xDD, 0xE5], nop),
        [M1(PC), M1(PC + 1), D(0x3F02, 1), W(SP - 1, 0xA0), W(SP - 2, 0x00)]
    );
    assert_eq!(script(&[0xDD, 0x18, 0x05], nop), [M1(PC), M1(PC + 1), R(PC + 2), D(PC + 2, 5)]);
}

// -------------------------------------------------------------------------------------
// (c) behaviour ZEXALL does not cover
// -------------------------------------------------------------------------------------

#[test]
fn indexed_operand_substitution() {
    // LD H,(IX+d): H is the plain H
    let (c, _, i) = run(&[0xDD, 0x66, 0x05], |_, b| b.mem[(IX + 5) as usize] = 0x99);
    assert_eq!((c.h, c.ix, c.memptr, i.page, i.opcode), (0x99, IX, IX + 5, Page::DD, 0x66));
    // LD (IY+d),L: plain L
    let (_, b, _) = run(&[0xFD, 0x75, 0x01], |c, _| c.l = 0x77);
    assert_eq!(b.mem[(IY + 1) as usize], 0x77);
    // LD A,IXH / LD IXL,n / INC IYH
    let (c, ..) = run(&[0xDD, 0x7C], |_, _| {});
    assert_eq!(c.a, 0xA0);
    let (c, ..) = run(&[0xDD, 0x2E, 0x55], |_, _| {});
    assert_eq!((c.ix, c.l), (0xA055, 0x00));
    let (c, ..) = run(&[0xFD, 0x24], |_, _| {});
    assert_eq!(c.iy, 0xA200);
    // LD IXH,IXL
    let (c, ..) = run(&[0xDD, 0x65], |c, _| c.ix = 0x1234);
    assert_eq!(c.ix, 0x3434);
    // EX DE,HL and EXX are not affected, JP (HL) is
    let (c, ..) = run(&[0xDD, 0xEB], |_, _| {});
    assert_eq!((c.h, c.l, c.d, c.e, c.ix), (0xC0, 0x00, 0xB0, 0x00, IX));
    let (c, ..) = run(&[0xFD, 0xE9], |_, _| {});
    assert_eq!(c.pc, IY);
    let (c, ..) = run(&[0xDD, 0xF9], |_, _| {});
    assert_eq!(c.sp, IX);
    // EX (SP),IX
    let (c, b, _) = run(&[0xDD, 0xE3], |_, b| b.load(SP, &[0x11, 0x22]));
    assert_eq!((c.ix, c.memptr, b.mem[SP as usize], b.mem[SP as usize + 1]), (0x2211, 0x2211, 0x00, 0xA0));
    // DDCB with register copy: RLC (IX+5) -> B ; BIT leaves registers alone
    let (c, b, i) = run(&[0xDD, 0xCB, 0x05, 0x00], |_, b| b.mem[(IX + 5) as usize] = 0x81);
    assert_eq!((c.b, b.mem[(IX + 5) as usize], c.r, i.page, i.opcode), (0x03, 0x03, 2, Page::DDCB, 0x00));
    let (c, ..) = run(&[0xDD, 0xCB, 0x05, 0xDC], |_, _| {}); // SET 3,(IX+5) -> H (plain)
    assert_eq!((c.h, c.ix), (0x08, IX));
    let (c, ..) = run(&[0xFD, 0xCB, 0xFF, 0x78], |_, b| b.mem[(IY - 1) as usize] = 0x80);
    assert_eq!((c.b, c.memptr), (0x12, IY - 1));
    assert_eq!(c.f & 0xFC, 0x80 | 0x10 | (((IY - 1) >> 8) as u8 & 0x28));
}

#[test]
fn prefix_chains() {
    let (c, b, i) = run(&[0xDD, 0xFD, 0xDD, 0x21, 0x34, 0x12], |_, _| {});
    assert_eq!((i.ignored_prefixes, i.page, i.opcode), (2, Page::DD, 0x21));
    assert_eq!((c.ix, c.iy, c.r, c.pc, b.samples), (0x1234, IY, 4, PC + 6, 1));
    assert_eq!(b.log[..4], [M1(PC), M1(PC + 1), M1(PC + 2), M1(PC + 3)]);
    let (c, b, i) = run(&[0xDD, 0xED, 0x44], |_, _| {});
    assert_eq!((i.ignored_prefixes, i.page, i.opcode, b.t()), (1, Page::ED, 0x44, 12));
    assert_eq!((c.a, c.r), (0xFF, 3));
    // ED-prefixed instructions ignore the index prefix: LD HL,(nn) ED form loads HL
    let (c, ..) = run(&[0xFD, 0xED, 0x6B, 0x00, 0x90], |_, b| b.load(SP, &[0x11, 0x22]));
    assert_eq!((c.h, c.l, c.iy), (0x22, 0x11, IY));
}

#[test]
fn halt_and_interrupts() {
    let mut c = cpu();
    let mut b = TB::new();
    b.load(PC, &[0x76]);
    b.load(0x3FFE, &[0x34, 0x12]);
    let i = c.step(&mut b);
    assert!(i.halt && c.halted && c.pc == PC && i.ambiguous.is_none());
    let i = c.step(&mut b);
    assert!(i.halt && c.halted && c.pc == PC && c.r == 2);
    assert_eq!(b.log, [M1(PC), M1(PC)]);
    assert_eq!((i.page, i.opcode), (Page::Base, 0x76));
    // INT with IFF1 = 0 is ignored
    b.int = true;
    let i = c.step(&mut b);
    assert!(i.halt && i.accepted == Accepted::None);
    // IM 1
    c.iff1 = true;
    c.iff2 = true;
    c.q = 0xFF;
    b.log.clear();
    let i = c.step(&mut b);
    assert_eq!(i.accepted, Accepted::Int);
    assert_eq!(b.log, [I(7), W(SP - 1, 0x80), W(SP - 2, 0x01), M1(0x0038)]);
    assert_eq!(b.t(), 13 + 4);
    assert!(!c.halted && !c.iff1 && !c.iff2 && c.memptr == 0x0038 && c.r == 5 && c.q == 0);
    // IM 2
    let (c, b, i) = run(&[0x00], |c, b| {
        c.iff1 = true;
        c.im = 2;
        b.int = true;
        b.int_byte = 0xFE;
        b.load(0x3FFE, &[0x34, 0x12]);
    });
    assert_eq!(i.accepted, Accepted::Int);
    assert_eq!(b.log, [I(7), W(SP - 1, 0x80), W(SP - 2, 0x00), R(0x3FFE), R(0x3FFF), M1(0x1234)]);
    assert_eq!((b.t(), c.memptr, c.pc), (19 + 4, 0x1234, 0x1235));
    // NMI beats INT, keeps IFF2
    let (c, b, i) = run(&[0x00], |c, b| {
        c.iff1 = true;
        c.iff2 = true;
        b.int = true;
        b.nmi = true;
    });
    assert_eq!(i.accepted, Accepted::Nmi);
    assert_eq!(b.log, [I(5), W(SP - 1, 0x80), W(SP - 2, 0x00), M1(0x0066)]);
    assert!(!c.iff1 && c.iff2 && c.memptr == 0x0066 && b.t() == 11 + 4);
    // RETN restores IFF1
    let (c, ..) = run(&[0xED, 0x45], |c, _| c.iff2 = true);
    assert!(c.iff1);
    // prefixed HALT
    let (c, _, i) = run(&[0xDD, 0x76], |_, _| {});
    assert!(c.halted && c.pc == PC + 1 && i.halt && i.ambiguous.is_none());
}

#[test]
fn ei_di_suppress_one_sample() {
    let mut c = cpu();
    let mut b = TB::new();
    b.load(PC, &[0xFB, 0x00, 0x00]);
    b.int = true;
    c.step(&mut b); // EI
    assert!(c.iff1 && c.iff2 && c.no_sample && b.samples == 1);
    let i = c.step(&mut b); // NOP, not sampled
    assert!(i.accepted == Accepted::None && b.samples == 1 && !c.no_sample && c.pc == PC + 2);
    let i = c.step(&mut b); // INT taken now
    assert!(i.accepted == Accepted::Int && b.samples == 2);
    let (c, ..) = run(&[0xF3], |c, _| {
        c.iff1 = true;
        c.iff2 = true
    });
    assert!(!c.iff1 && !c.iff2 && c.no_sample);
}

#[test]
fn memptr_rules() {
    let mp = |code: &[u8], setup: fn(&mut RefZ80, &mut TB)| run(code, setup).0.memptr;
    assert_eq!(mp(&[0x02], |c, _| { c.a = 0x55; c.c = 0xFF }), 0x5500);
    assert_eq!(mp(&[0x12], |c, _| c.a = 0x55), 0x5501);
    assert_eq!(mp(&[0x32, 0xFF, 0x70], |c, _| c.a = 0x55), 0x5500);
    assert_eq!(mp(&[0x0A], |_, _| {}), 0x1235);
    assert_eq!(mp(&[0x3A, 0xFF, 0x70], |_, _| {}), 0x7100);
    assert_eq!(mp(&[0x2A, 0x10, 0x70], |_, _| {}), 0x7011);
    assert_eq!(mp(&[0xED, 0x43, 0x10, 0x70], |_, _| {}), 0x7011);
    assert_eq!(mp(&[0x09], |_, _| {}), HL + 1);
    assert_eq!(mp(&[0xED, 0x42], |_, _| {}), HL + 1);
    assert_eq!(mp(&[0xED, 0x6F], |_, _| {}), HL + 1);
    assert_eq!(mp(&[0xC3, 0x10, 0x70], |_, _| {}), 0x7010);
    assert_eq!(mp(&[0xCA, 0x10, 0x70], |_, _| {}), 0x7010); // not taken
    assert_eq!(mp(&[0xCC, 0x10, 0x70], |_, _| {}), 0x7010); // not taken
    assert_eq!(mp(&[0x18, 0xFE], |_, _| {}), PC);
    assert_eq!(mp(&[0x28, 0x10], |c, _| c.memptr = 0x4242), 0x4242); // JR Z not taken
    assert_eq!(mp(&[0xC9], |_, b| b.load(SP, &[0x11, 0x22])), 0x2211);
    assert_eq!(mp(&[0xDF], |_, _| {}), 0x0018);
    assert_eq!(mp(&[0xDB, 0x34], |c, _| c.a = 0x12), 0x1235);
    assert_eq!(mp(&[0xD3, 0xFF], |c, _| c.a = 0x12), 0x1200);
    assert_eq!(mp(&[0xED, 0x78], |_, _| {}), 0x1235);
    assert_eq!(mp(&[0xED, 0x79], |_, _| {}), 0x1235);
    assert_eq!(mp(&[0xED, 0xA2], |_, _| {}), 0x1235); // INI: BC before the decrement
    assert_eq!(mp(&[0xED, 0xAA], |_, _| {}), 0x1233); // IND
    assert_eq!(mp(&[0xED, 0xA3], |_, _| {}), 0x1135); // OUTI: after
    assert_eq!(mp(&[0xED, 0xAB], |_, _| {}), 0x1133); // OUTD
    assert_eq!(mp(&[0xED, 0xA1], |c, _| c.memptr = 0x1000), 0x1001);
    assert_eq!(mp(&[0xED, 0xA9], |c, _| c.memptr = 0x1000), 0x0FFF);
    assert_eq!(mp(&[0xED, 0xB0], |_, _| {}), PC + 1); // repeating (BC = 0x1234)
    assert_eq!(mp(&[0xED, 0xB1], |_, _| {}), PC + 1);
    assert_eq!(mp(&[0xED, 0xA0], |c, _| c.memptr = 0x4242), 0x4242);
    // BIT n,(HL) takes bits 5,3 from MEMPTR high
    let (c, ..) = run(&[0xCB, 0x46], |c, _| c.memptr = 0x2800);
    assert_eq!(c.f & 0x28, 0x28);
    let (c, ..) = run(&[0xCB, 0x46], |c, _| c.memptr = 0x00FF);
    assert_eq!(c.f & 0x28, 0x00);
}

#[test]
fn q_latch_and_scf_ccf() {
    // previous instruction wrote flags (Q == F): bits 5,3 come from A alone
    let (c, ..) = run(&[0x37], |c, _| { c.f = 0x28; c.q = 0x28; c.a = 0 });
    assert_eq!((c.f, c.q), (0x01, 0x01));
    // previous instruction did not (Q == 0): F | A
    let (c, ..) = run(&[0x37], |c, _| { c.f = 0x28; c.q = 0; c.a = 0 });
    assert_eq!(c.f, 0x29);
    let (c, ..) = run(&[0x3F], |c, _| { c.f = 0x09; c.q = 0; c.a = 0x20 });
    assert_eq!(c.f, 0x38); // H = old C, C toggled, 5 from A, 3 from F
    let (c, ..) = run(&[0x3F], |c, _| { c.f = 0x09; c.q = 0x09; c.a = 0x20 });
    assert_eq!(c.f, 0x30);
    // Q after non-flag instructions is 0, after flag instructions F
    let (c, ..) = run(&[0x00], |c, _| { c.f = 0xFF; c.q = 0xFF });
    assert_eq!(c.q, 0);
    let (c, ..) = run(&[0xF1], |c, b| { c.q = 0xFF; b.load(SP, &[0xD7, 0x99]) });
    assert_eq!((c.a, c.f, c.q), (0x99, 0xD7, 0));
    let (c, ..) = run(&[0x08], |c, _| { c.f_alt = 0xD7; c.q = 0xFF });
    assert_eq!((c.f, c.q), (0xD7, 0));
    let (c, ..) = run(&[0x3C], |c, _| c.a = 0x27);
    assert_eq!((c.f, c.q), (0x28, 0x28));
    let (c, ..) = run(&[0xED, 0x57], |c, _| { c.iff2 = true; c.f = 0xFF });
    assert_eq!((c.a, c.f, c.q), (0x3F, 0x28 | 0x04 | 0x01, 0x28 | 0x04 | 0x01));
    let (c, ..) = run(&[0xED, 0x5F], |_, _| {});
    assert_eq!((c.a, c.f), (0x02, 0x00));
}

#[test]
fn block_repeat_flags() {
    // LDIR repeating: bits 5,3 from the high byte of the (rewound) PC
    let at = |pc: u16, op: u8, setup: fn(&mut RefZ80)| {
        let mut c = cpu();
        let mut b = TB::new();
        c.pc = pc;
        b.load(pc, &[0xED, op]);
        setup(&mut c);
        let i = c.step(&mut b);
        (c, i)
    };
    let (c, i) = at(0x2800, 0xB0, |_| {});
    assert_eq!((c.pc, c.f & 0x28, i.variant, i.ambiguous), (0x2800, 0x28, 1, None));
    let (c, i) = at(0x1000, 0xB0, |_| {});
    assert_eq!((c.f & 0x28, i.ambiguous), (0x00, None));
    let (_, i) = at(0x27FF, 0xB0, |_| {});
    assert_eq!(i.ambiguous, Some("block repeat F53 at page-crossing PC"));
    let (_, i) = at(0x27FF, 0xB0, |c| { c.b = 0; c.c = 1 });
    assert_eq!((i.variant, i.ambiguous), (0, None));
    // last iteration keeps the LDI rule: n = A + byte
    let (c, _) = at(0x2800, 0xB0, |c| { c.b = 0; c.c = 1; c.a = 0x0A });
    assert_eq!(c.f & 0x2C, 0x28); // n = 0x0A: bit 3 and bit 1 set, BC == 0
    // INIR repeating, data = FF: k = (C+1) + FF carries unless C = FF
    // B after = 0x11, C = 0x34: k = 0x35 + 0xFF = 0x134 -> H=C=1, N=1
    let (c, _) = at(0x2800, 0xB2, |_| {});
    let b = 0x11u8;
    let base_p = ((0x34u8 & 7) ^ b).count_ones() & 1 == 0;
    let adj_p = base_p ^ !(((b - 1) & 7).count_ones() & 1 == 0);
    let expect = (b & 0x80) | 0x28 | 0x02 | 0x01 | if b & 0x0F == 0 { 0x10 } else { 0 } | if adj_p { 0x04 } else { 0 };
    assert_eq!(c.f, expect);
    // OTIR repeating without carry: only P/V toggled by parity(B & 7) ^ 1, 53 from PC
    let (c, _) = at(0x0800, 0xB3, |_| {}); // byte 0, L after = 1: k = 1
    let base_p = ((1u8 & 7) ^ b).count_ones() & 1 == 0;
    let adj_p = base_p ^ !((b & 7).count_ones() & 1 == 0);
    assert_eq!(c.f, (b & 0x80) | 0x08 | if adj_p { 0x04 } else { 0 });
}
