//! `RefULA`: 48K / 128K frame geometry, memory and I/O contention, INT pulse.
//! Constants are those of the property text (C04, C05, C09).

#[derive(Clone, Copy, Debug)]
pub struct RefUla {
    pub m128: bool,
    /// first contended T-state of the first picture line
    pub t0: u64,
    pub line: u64,
    pub frame: u64,
}

pub const PATTERN: [u64; 8] = [6, 5, 4, 3, 2, 1, 0, 0];

impl RefUla {
    pub fn new(m128: bool) -> RefUla {
        if m128 {
            RefUla { m128, t0: 14361, line: 228, frame: 70908 }
        } else {
            RefUla { m128, t0: 14335, line: 224, frame: 69888 }
        }
    }
    /// delay suffered by a contended cycle starting at T (any T, reduced mod frame)
    pub fn delay(&self, t: u64) -> u64 {
        let t = t % self.frame;
        if t < self.t0 {
            return 0;
        }
        let d = t - self.t0;
        if d / self.line >= 192 {
            return 0;
        }
        let x = d % self.line;
        if x >= 128 {
            return 0;
        }
        PATTERN[(x % 8) as usize]
    }
    pub fn in_window(&self, t: u64) -> bool {
        let t = t % self.frame;
        if t < self.t0 {
            return false;
        }
        let d = t - self.t0;
        d / self.line < 192 && d % self.line < 128
    }
    /// T after a memory-style cycle of `len` T-states carrying an address
    pub fn mem_cycle(&self, t: u64, contended: bool, len: u64) -> u64 {
        let t = if contended { t + self.delay(t) } else { t };
        t + len
    }
    /// T after one port cycle (the four ULA patterns)
    pub fn io_cycle(&self, t: u64, port: u16, high_contended: bool) -> u64 {
        let even = port & 1 == 0;
        let mut t = t;
        match (high_contended, even) {
            (false, false) => t += 4,
            (false, true) => {
                t += 1;
                t += self.delay(t);
                t += 3;
            }
            (true, true) => {
                t += self.delay(t);
                t += 1;
                t += self.delay(t);
                t += 3;
            }
            (true, false) => {
                for _ in 0..4 {
                    t += self.delay(t);
                    t += 1;
                }
            }
        }
        t
    }
    /// INT line level at in-frame T
    pub fn int_active(&self, t: u64) -> bool {
        t % self.frame < 32
    }
}
