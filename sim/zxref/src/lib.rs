//! Reference models used as oracles by the deterministic-simulation harness.
//! Nothing in this crate depends on (or is derived from) the code under test.
pub mod ldbytes;
pub mod mem;
pub mod screen;
pub mod tape;
pub mod ula;
pub mod z80;
mod z80_tables;

#[cfg(test)]
mod z80_tests;
