//! Documented instruction lengths in T-states (Zilog Z80 CPU User Manual instruction
//! tables, plus the well known timings of the undocumented encodings). This is a *static*
//! table written independently of the cycle scripts in `z80.rs`; the test-suite checks
//! that the scripts add up to these totals.

use crate::z80::Page;

/// Unprefixed opcodes, condition false / single iteration. 0 = prefix byte (no entry).
#[rustfmt::skip]
const BASE: [u8; 256] = [
    // 0   1   2   3   4   5   6   7   8   9   A   B   C   D   E   F
       4, 10,  7,  6,  4,  4,  7,  4,  4, 11,  7,  6,  4,  4,  7,  4, // 00
       8, 10,  7,  6,  4,  4,  7,  4, 12, 11,  7,  6,  4,  4,  7,  4, // 10
       7, 10, 16,  6,  4,  4,  7,  4,  7, 11, 16,  6,  4,  4,  7,  4, // 20
       7, 10, 13,  6, 11, 11, 10,  4,  7, 11, 13,  6,  4,  4,  7,  4, // 30
       4,  4,  4,  4,  4,  4,  7,  4,  4,  4,  4,  4,  4,  4,  7,  4, // 40
       4,  4,  4,  4,  4,  4,  7,  4,  4,  4,  4,  4,  4,  4,  7,  4, // 50
       4,  4,  4,  4,  4,  4,  7,  4,  4,  4,  4,  4,  4,  4,  7,  4, // 60
       7,  7,  7,  7,  7,  7,  4,  7,  4,  4,  4,  4,  4,  4,  7,  4, // 70
       4,  4,  4,  4,  4,  4,  7,  4,  4,  4,  4,  4,  4,  4,  7,  4, // 80
       4,  4,  4,  4,  4,  4,  7,  4,  4,  4,  4,  4,  4,  4,  7,  4, // 90
       4,  4,  4,  4,  4,  4,  7,  4,  4,  4,  4,  4,  4,  4,  7,  4, // A0
       4,  4,  4,  4,  4,  4,  7,  4,  4,  4,  4,  4,  4,  4,  7,  4, // B0
       5, 10, 10, 10, 10, 11,  7, 11,  5, 10, 10,  0, 10, 17,  7, 11, // C0
       5, 10, 10, 11, 10, 11,  7, 11,  5,  4, 10, 11, 10,  0,  7, 11, // D0
       5, 10, 10, 19, 10, 11,  7, 11,  5,  4, 10,  4, 10,  0,  7, 11, // E0
       5, 10, 10,  4, 10, 11,  7, 11,  5,  6, 10,  4, 10,  0,  7, 11, // F0
];

/// Extra T-states of the "taken" variant of an unprefixed opcode.
fn base_taken_extra(op: u8) -> u32 {
    match op {
        0x10 => 5,                                                 // DJNZ 8 -> 13
        0x20 | 0x28 | 0x30 | 0x38 => 5,                            // JR cc 7 -> 12
        0xC0 | 0xC8 | 0xD0 | 0xD8 | 0xE0 | 0xE8 | 0xF0 | 0xF8 => 6, // RET cc 5 -> 11
        0xC4 | 0xCC | 0xD4 | 0xDC | 0xE4 | 0xEC | 0xF4 | 0xFC => 7, // CALL cc 10 -> 17
        _ => 0,                                                    // JP cc: 10 either way
    }
}

fn base(op: u8, variant: u8) -> u32 {
    BASE[op as usize] as u32 + if variant != 0 { base_taken_extra(op) } else { 0 }
}

fn cb(op: u8) -> u32 {
    if op & 7 != 6 {
        8
    } else if op & 0xC0 == 0x40 {
        12 // BIT n,(HL)
    } else {
        15
    }
}

fn ed(op: u8, variant: u8) -> u32 {
    match op {
        0x40..=0x7F => match op & 7 {
            0 | 1 => 12, // IN r,(C) / OUT (C),r
            2 => 15,     // SBC/ADC HL,rr
            3 => 20,     // LD (nn),rr / LD rr,(nn)
            4 => 8,      // NEG
            5 => 14,     // RETN / RETI
            6 => 8,      // IM n
            _ => match op {
                0x47 | 0x4F | 0x57 | 0x5F => 9, // LD I,A  LD R,A  LD A,I  LD A,R
                0x67 | 0x6F => 18,              // RRD RLD
                _ => 8,                         // ED 77 / ED 7F
            },
        },
        0xA0..=0xA3 | 0xA8..=0xAB => 16,
        0xB0..=0xB3 | 0xB8..=0xBB => {
            if variant != 0 {
                21
            } else {
                16
            }
        }
        _ => 8,
    }
}

/// DD / FD page: the 4 T of the prefix are included.
fn indexed(op: u8, variant: u8) -> u32 {
    match op {
        0x34 | 0x35 => 23, // INC/DEC (IX+d)
        0x36 => 19,        // LD (IX+d),n
        0x76 => 8,         // prefixed HALT
        0x46 | 0x4E | 0x56 | 0x5E | 0x66 | 0x6E | 0x7E => 19, // LD r,(IX+d)
        0x70..=0x77 => 19,                                    // LD (IX+d),r
        0x86 | 0x8E | 0x96 | 0x9E | 0xA6 | 0xAE | 0xB6 | 0xBE => 19, // ALU (IX+d)
        0xCB | 0xDD | 0xED | 0xFD => 0,
        _ => 4 + base(op, variant),
    }
}

pub fn t_total(page: Page, opcode: u8, variant: u8) -> u32 {
    match page {
        Page::Base => base(opcode, variant),
        Page::CB => cb(opcode),
        Page::ED => ed(opcode, variant),
        Page::DD | Page::FD => indexed(opcode, variant),
        Page::DDCB | Page::FDCB => {
            if opcode & 0xC0 == 0x40 {
                20
            } else {
                23
            }
        }
    }
}
