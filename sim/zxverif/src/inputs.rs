//! Tables of the host-side input enums (shared by C16, C17).
use rustzx_core::zx::joy::kempston::KempstonKey;
use rustzx_core::zx::joy::sinclair::{SinclairJoyNum, SinclairKey};
use rustzx_core::zx::keys::{CompoundKey, ZXKey};
use rustzx_core::zx::mouse::kempston::{KempstonMouseButton, KempstonMouseWheelDirection};

/// 40 keys in matrix order: index = row*5 + bit, row 0 = 0xFEFE (CAPS..V) ... row 7 = 0x7FFE (SPACE..B)
pub const KEYS: [ZXKey; 40] = [
    ZXKey::Shift, ZXKey::Z, ZXKey::X, ZXKey::C, ZXKey::V,
    ZXKey::A, ZXKey::S, ZXKey::D, ZXKey::F, ZXKey::G,
    ZXKey::Q, ZXKey::W, ZXKey::E, ZXKey::R, ZXKey::T,
    ZXKey::N1, ZXKey::N2, ZXKey::N3, ZXKey::N4, ZXKey::N5,
    ZXKey::N0, ZXKey::N9, ZXKey::N8, ZXKey::N7, ZXKey::N6,
    ZXKey::P, ZXKey::O, ZXKey::I, ZXKey::U, ZXKey::Y,
    ZXKey::Enter, ZXKey::L, ZXKey::K, ZXKey::J, ZXKey::H,
    ZXKey::Space, ZXKey::SymShift, ZXKey::M, ZXKey::N, ZXKey::B,
];

pub const COMPOUND: [CompoundKey; 7] = [
    CompoundKey::ArrowLeft,
    CompoundKey::ArrowRight,
    CompoundKey::ArrowUp,
    CompoundKey::ArrowDown,
    CompoundKey::CapsLock,
    CompoundKey::Delete,
    CompoundKey::Break,
];
/// matrix position (row*5+bit) of each compound key's primary key: 5, 8, 7, 6, 2, 0, SPACE
pub const COMPOUND_POS: [usize; 7] = [19, 22, 23, 24, 16, 20, 35];
pub const CAPS_POS: usize = 0;

pub const SINCLAIR_KEYS: [SinclairKey; 5] = [SinclairKey::Left, SinclairKey::Right, SinclairKey::Down, SinclairKey::Up, SinclairKey::Fire];
pub const SINCLAIR_NUM: [SinclairJoyNum; 2] = [SinclairJoyNum::Fist, SinclairJoyNum::Second];
/// matrix positions for joystick 1: left,right,down,up,fire = 6,7,8,9,0 ; joystick 2 = 1,2,3,4,5
pub const SINCLAIR_POS: [[usize; 5]; 2] = [[24, 23, 22, 21, 20], [15, 16, 17, 18, 19]];

pub const KEMPSTON: [KempstonKey; 8] = [
    KempstonKey::Right,
    KempstonKey::Left,
    KempstonKey::Down,
    KempstonKey::Up,
    KempstonKey::Fire,
    KempstonKey::Ext1,
    KempstonKey::Ext2,
    KempstonKey::Ext3,
];

pub const MOUSE_BUTTONS: [KempstonMouseButton; 4] = [KempstonMouseButton::Left, KempstonMouseButton::Right, KempstonMouseButton::Middle, KempstonMouseButton::Additional];
pub const WHEEL: [KempstonMouseWheelDirection; 2] = [KempstonMouseWheelDirection::Up, KempstonMouseWheelDirection::Down];
