//! Counting global allocator: records the largest single allocation request and the peak of
//! live bytes of the *current thread* inside a guarded region (used by C15). It never fails an
//! allocation (allocation failure aborts the process rather than unwinding, so that fault kind
//! cannot be injected in-process).

use std::alloc::{GlobalAlloc, Layout, System};
use std::cell::Cell;

pub struct Counting;

thread_local! {
    static ON: Cell<bool> = const { Cell::new(false) };
    static MAX_REQ: Cell<usize> = const { Cell::new(0) };
    static LIVE: Cell<isize> = const { Cell::new(0) };
    static PEAK: Cell<isize> = const { Cell::new(0) };
}

#[inline]
fn note_alloc(size: usize) {
    let _ = ON.try_with(|on| {
        if on.get() {
            let _ = MAX_REQ.try_with(|m| {
                if size > m.get() {
                    m.set(size)
                }
            });
            let _ = LIVE.try_with(|l| {
                l.set(l.get() + size as isize);
                let _ = PEAK.try_with(|p| {
                    if l.get() > p.get() {
                        p.set(l.get())
                    }
                });
            });
        }
    });
}

#[inline]
fn note_free(size: usize) {
    let _ = ON.try_with(|on| {
        if on.get() {
            let _ = LIVE.try_with(|l| l.set(l.get() - size as isize));
        }
    });
}

unsafe impl GlobalAlloc for Counting {
    unsafe fn alloc(&self, layout: Layout) -> *mut u8 {
        note_alloc(layout.size());
        System.alloc(layout)
    }
    unsafe fn dealloc(&self, ptr: *mut u8, layout: Layout) {
        note_free(layout.size());
        System.dealloc(ptr, layout)
    }
    unsafe fn alloc_zeroed(&self, layout: Layout) -> *mut u8 {
        note_alloc(layout.size());
        System.alloc_zeroed(layout)
    }
    unsafe fn realloc(&self, ptr: *mut u8, layout: Layout, new_size: usize) -> *mut u8 {
        if new_size > layout.size() {
            note_alloc(new_size - layout.size());
            // a realloc request of new_size is one request of that size
            let _ = ON.try_with(|on| {
                if on.get() {
                    let _ = MAX_REQ.try_with(|m| {
                        if new_size > m.get() {
                            m.set(new_size)
                        }
                    });
                }
            });
        } else {
            note_free(layout.size() - new_size);
        }
        System.realloc(ptr, layout, new_size)
    }
}

/// start a guarded region on this thread
pub fn start() {
    MAX_REQ.with(|m| m.set(0));
    LIVE.with(|m| m.set(0));
    PEAK.with(|m| m.set(0));
    ON.with(|m| m.set(true));
}

/// stop the region; returns (largest single request, peak live bytes above the start level)
pub fn stop() -> (usize, usize) {
    ON.with(|m| m.set(false));
    (MAX_REQ.with(|m| m.get()), PEAK.with(|m| m.get()).max(0) as usize)
}
