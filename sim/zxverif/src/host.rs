//! World B: the simulator's implementation of every `rustzx_core::host` seam.
//! Each run is single-threaded, so scripts and logs live in thread-locals / `Rc<RefCell<..>>`.

use crate::runner::BUDGET_PANIC;
use rustzx_core::error::IoError;
use rustzx_core::host::{
    DataRecorder, DebugInterface, FrameBuffer, FrameBufferSource, Host, HostContext, IoExtender, LoadableAsset,
    RomFormat, RomSet, SeekFrom, SeekableAsset, Stopwatch,
};
use rustzx_core::zx::video::colors::{ZXBrightness, ZXColor};
use std::cell::RefCell;
use std::rc::Rc;
use std::time::Duration;

// ------------------------------------------------------------------------------------------
// frame buffer

pub struct RecFb {
    pub w: usize,
    pub h: usize,
    /// colour (0..7) | bright << 3 ; 0xFF = never written
    pub px: Vec<u8>,
    pub is_border: bool,
}

impl FrameBuffer for RecFb {
    type Context = ();
    fn new(width: usize, height: usize, source: FrameBufferSource, _: ()) -> Self {
        RecFb { w: width, h: height, px: vec![0xFF; width * height], is_border: matches!(source, FrameBufferSource::Border) }
    }
    fn set_color(&mut self, x: usize, y: usize, color: ZXColor, brightness: ZXBrightness) {
        if x >= self.w || y >= self.h {
            panic!("{}: pixel ({}, {}) of a {}x{} {} buffer", crate::runner::FB_RANGE_PANIC, x, y, self.w, self.h, if self.is_border { "border" } else { "canvas" });
        }
        self.px[y * self.w + x] = (color as u8) | ((brightness as u8) << 3);
    }
}

// ------------------------------------------------------------------------------------------
// stopwatch: readings scripted per run through a thread-local (Stopwatch::new takes no context)

#[derive(Clone, Debug)]
pub enum ClockScript {
    /// always zero (emulate_frames in Max mode would never time out)
    Zero,
    /// reading k (0-based, counted over the life of one stopwatch) = base + k*step micros
    Linear { base_us: u64, step_us: u64 },
    /// explicit readings in micros, last one repeats
    List(Vec<u64>),
}

pub struct ClockState {
    pub script: ClockScript,
    pub created: u64,
    pub measured: u64,
}

thread_local! {
    pub static CLOCK: RefCell<ClockState> = const { RefCell::new(ClockState { script: ClockScript::Zero, created: 0, measured: 0 }) };
}

pub fn set_clock_script(s: ClockScript) {
    CLOCK.with(|c| {
        let mut c = c.borrow_mut();
        c.script = s;
    });
}

pub struct SimStopwatch {
    reads: std::cell::Cell<u64>,
}

impl Stopwatch for SimStopwatch {
    fn new() -> Self {
        CLOCK.with(|c| c.borrow_mut().created += 1);
        SimStopwatch { reads: std::cell::Cell::new(0) }
    }
    fn measure(&self) -> Duration {
        let k = self.reads.get();
        self.reads.set(k + 1);
        CLOCK.with(|c| {
            let mut c = c.borrow_mut();
            c.measured += 1;
            let us = match &c.script {
                ClockScript::Zero => 0,
                ClockScript::Linear { base_us, step_us } => base_us + k * step_us,
                ClockScript::List(v) => {
                    if v.is_empty() {
                        0
                    } else {
                        v[(k as usize).min(v.len() - 1)]
                    }
                }
            };
            Duration::from_micros(us)
        })
    }
}

// ------------------------------------------------------------------------------------------
// debug interface

pub enum BreakMode {
    Never,
    Always,
    /// break when PC is in the set
    Set(Vec<u16>),
    /// break on every n-th check (n >= 1)
    EveryNth(u64),
}

pub struct SimDebug {
    pub mode: BreakMode,
    pub checks: u64,
    pub hits: u64,
}

impl SimDebug {
    pub fn new(mode: BreakMode) -> Self {
        SimDebug { mode, checks: 0, hits: 0 }
    }
}

impl DebugInterface for SimDebug {
    fn check_pc_breakpoint(&mut self, addr: u16) -> bool {
        self.checks += 1;
        let hit = match &self.mode {
            BreakMode::Never => false,
            BreakMode::Always => true,
            BreakMode::Set(v) => v.contains(&addr),
            BreakMode::EveryNth(n) => self.checks % n == 0,
        };
        if hit {
            self.hits += 1;
        }
        hit
    }
}

// ------------------------------------------------------------------------------------------
// IO extender

#[derive(Clone, Debug, PartialEq, Eq)]
pub struct ExtAccess {
    pub write: bool,
    pub port: u16,
    pub data: u8,
}

pub struct SimExtender {
    /// claimed ports
    pub claimed: Vec<u16>,
    pub log: Vec<ExtAccess>,
    /// value returned for reads: f(port)
    pub read_xor: u8,
}

impl SimExtender {
    pub fn read_value(&self, port: u16) -> u8 {
        (port as u8) ^ ((port >> 8) as u8) ^ self.read_xor
    }
}

impl IoExtender for SimExtender {
    fn write(&mut self, port: u16, data: u8) {
        self.log.push(ExtAccess { write: true, port, data });
    }
    fn read(&mut self, port: u16) -> u8 {
        let v = self.read_value(port);
        self.log.push(ExtAccess { write: false, port, data: v });
        v
    }
    fn extends_port(&self, port: u16) -> bool {
        self.claimed.contains(&port)
    }
}

// ------------------------------------------------------------------------------------------
// assets with fault injection

/// What the asset does when the read position is at (or beyond) the end of data.
#[derive(Clone, Copy, Debug, PartialEq, Eq)]
pub enum EofStyle {
    /// `Ok(0)` as the trait documentation says
    Ok0,
    /// `Err(UnexpectedEof)` as `BufferCursor` does
    Err,
}

#[derive(Clone, Debug)]
pub struct AssetPlan {
    /// maximum bytes returned per read call (0 = unlimited); the actual chunk is drawn from chunk_seq
    pub max_chunk: usize,
    /// deterministic chunk sizes (cycled); empty = max_chunk only
    pub chunk_seq: Vec<usize>,
    pub eof: EofStyle,
    /// fail the k-th read call (0-based over the life of the asset) with HostAssetImplFailed
    pub read_err_at: Option<u64>,
    /// fail the k-th seek call
    pub seek_err_at: Option<u64>,
    /// total call budget (reads + seeks); exceeding it is reported as a hang
    pub budget: u64,
    /// label reported on budget exhaustion
    pub label: &'static str,
}

impl Default for AssetPlan {
    fn default() -> Self {
        AssetPlan {
            max_chunk: 0,
            chunk_seq: vec![],
            eof: EofStyle::Ok0,
            read_err_at: None,
            seek_err_at: None,
            budget: u64::MAX,
            label: "asset",
        }
    }
}

#[derive(Default, Debug, Clone)]
pub struct AssetStats {
    pub reads: u64,
    pub seeks: u64,
    pub bytes: u64,
    pub short_reads: u64,
    pub read_errs: u64,
    pub seek_errs: u64,
    pub eofs: u64,
}

pub struct SimAsset {
    pub data: Rc<Vec<u8>>,
    pub pos: usize,
    pub plan: AssetPlan,
    pub stats: Rc<RefCell<AssetStats>>,
}

impl SimAsset {
    pub fn new(data: Vec<u8>, plan: AssetPlan) -> (SimAsset, Rc<RefCell<AssetStats>>) {
        let stats = Rc::new(RefCell::new(AssetStats::default()));
        (SimAsset { data: Rc::new(data), pos: 0, plan, stats: stats.clone() }, stats)
    }
    pub fn plain(data: Vec<u8>) -> SimAsset {
        SimAsset::new(data, AssetPlan::default()).0
    }
    fn charge(&self) {
        let st = self.stats.borrow();
        if st.reads + st.seeks > self.plan.budget {
            drop(st);
            panic!("{}|{}|calls>{}", BUDGET_PANIC, self.plan.label, self.plan.budget);
        }
    }
}

impl LoadableAsset for SimAsset {
    fn read(&mut self, buf: &mut [u8]) -> Result<usize, IoError> {
        let call = {
            let mut st = self.stats.borrow_mut();
            st.reads += 1;
            st.reads - 1
        };
        self.charge();
        if self.plan.read_err_at == Some(call) {
            self.stats.borrow_mut().read_errs += 1;
            return Err(IoError::HostAssetImplFailed);
        }
        if buf.is_empty() {
            return Ok(0);
        }
        if self.pos >= self.data.len() {
            self.stats.borrow_mut().eofs += 1;
            return match self.plan.eof {
                EofStyle::Ok0 => Ok(0),
                EofStyle::Err => Err(IoError::UnexpectedEof),
            };
        }
        let mut n = buf.len().min(self.data.len() - self.pos);
        let limit = if !self.plan.chunk_seq.is_empty() {
            self.plan.chunk_seq[(call as usize) % self.plan.chunk_seq.len()].max(1)
        } else if self.plan.max_chunk > 0 {
            self.plan.max_chunk
        } else {
            usize::MAX
        };
        if n > limit {
            n = limit;
            self.stats.borrow_mut().short_reads += 1;
        }
        buf[..n].copy_from_slice(&self.data[self.pos..self.pos + n]);
        self.pos += n;
        self.stats.borrow_mut().bytes += n as u64;
        Ok(n)
    }
}

impl SeekableAsset for SimAsset {
    fn seek(&mut self, pos: SeekFrom) -> Result<usize, IoError> {
        let call = {
            let mut st = self.stats.borrow_mut();
            st.seeks += 1;
            st.seeks - 1
        };
        self.charge();
        if self.plan.seek_err_at == Some(call) {
            self.stats.borrow_mut().seek_errs += 1;
            return Err(IoError::HostAssetImplFailed);
        }
        let new_pos = match pos {
            SeekFrom::Start(p) => p as i64,
            SeekFrom::End(p) => self.data.len() as i64 + p as i64,
            SeekFrom::Current(p) => self.pos as i64 + p as i64,
        };
        if new_pos < 0 {
            return Err(IoError::SeekBeforeStart);
        }
        self.pos = new_pos as usize;
        Ok(self.pos)
    }
}

/// ROM set delivering pages through `SimAsset`s.
pub struct SimRomSet {
    pub pages: Vec<SimAsset>,
}
impl RomSet for SimRomSet {
    type Asset = SimAsset;
    fn format(&self) -> RomFormat {
        RomFormat::Binary16KPages
    }
    fn next_asset(&mut self) -> Option<SimAsset> {
        if self.pages.is_empty() {
            None
        } else {
            Some(self.pages.remove(0))
        }
    }
}

// ------------------------------------------------------------------------------------------
// recorder with fault injection

#[derive(Clone, Debug, Default)]
pub struct RecorderPlan {
    /// max bytes accepted per write call (0 = unlimited)
    pub max_chunk: usize,
    pub chunk_seq: Vec<usize>,
    /// k-th write call returns Err
    pub write_err_at: Option<u64>,
    /// k-th write call returns Ok(0)
    pub write_zero_at: Option<u64>,
}

pub struct SimRecorder {
    pub data: Rc<RefCell<Vec<u8>>>,
    pub plan: RecorderPlan,
    pub calls: u64,
    pub short_writes: Rc<RefCell<u64>>,
}

impl SimRecorder {
    pub fn new(plan: RecorderPlan) -> (SimRecorder, Rc<RefCell<Vec<u8>>>) {
        let data = Rc::new(RefCell::new(Vec::new()));
        (SimRecorder { data: data.clone(), plan, calls: 0, short_writes: Rc::new(RefCell::new(0)) }, data)
    }
}

impl DataRecorder for SimRecorder {
    fn write(&mut self, buf: &[u8]) -> Result<usize, IoError> {
        let call = self.calls;
        self.calls += 1;
        if self.plan.write_err_at == Some(call) {
            return Err(IoError::HostAssetImplFailed);
        }
        if self.plan.write_zero_at == Some(call) {
            return Ok(0);
        }
        let limit = if !self.plan.chunk_seq.is_empty() {
            self.plan.chunk_seq[(call as usize) % self.plan.chunk_seq.len()].max(1)
        } else if self.plan.max_chunk > 0 {
            self.plan.max_chunk
        } else {
            usize::MAX
        };
        let n = buf.len().min(limit);
        if n < buf.len() {
            *self.short_writes.borrow_mut() += 1;
        }
        self.data.borrow_mut().extend_from_slice(&buf[..n]);
        Ok(n)
    }
}

// ------------------------------------------------------------------------------------------

pub struct SimCtx;

pub struct SimHost;

impl HostContext<SimHost> for SimCtx {
    fn frame_buffer_context(&self) {}
}

impl Host for SimHost {
    type Context = SimCtx;
    type TapeAsset = AnyAsset;
    type FrameBuffer = RecFb;
    type EmulationStopwatch = SimStopwatch;
    type IoExtender = SimExtender;
    type DebugInterface = SimDebug;
}

// ------------------------------------------------------------------------------------------
// one tape-asset type for the host, wrapping every asset implementation under test

pub enum AnyAsset {
    Sim(SimAsset),
    Buf(rustzx_core::host::BufferCursor<Vec<u8>>),
    Gz(rustzx_utils::io::GzipAsset),
    File(rustzx_utils::io::FileAsset),
}

impl LoadableAsset for AnyAsset {
    fn read(&mut self, buf: &mut [u8]) -> Result<usize, IoError> {
        match self {
            AnyAsset::Sim(a) => a.read(buf),
            AnyAsset::Buf(a) => a.read(buf),
            AnyAsset::Gz(a) => a.read(buf),
            AnyAsset::File(a) => a.read(buf),
        }
    }
}

impl SeekableAsset for AnyAsset {
    fn seek(&mut self, pos: SeekFrom) -> Result<usize, IoError> {
        match self {
            AnyAsset::Sim(a) => a.seek(pos),
            AnyAsset::Buf(a) => a.seek(pos),
            AnyAsset::Gz(a) => a.seek(pos),
            AnyAsset::File(a) => a.seek(pos),
        }
    }
}

thread_local! {
    static TMP_COUNTER: std::cell::Cell<u64> = const { std::cell::Cell::new(0) };
}

/// Delivers `data` through the asset implementation selected by `kind`:
/// 0 = BufferCursor, 1 = SimAsset (chunked, Ok(0) EOF), 2 = GzipAsset (data gzip-compressed here and
/// inflated by the real adapter), 3 = FileAsset on a real temporary file, 4 = SimAsset 1-byte reads.
pub fn make_asset(kind: i64, data: &[u8], chunk: usize) -> AnyAsset {
    match kind {
        1 => AnyAsset::Sim(SimAsset::new(data.to_vec(), AssetPlan { max_chunk: chunk.max(1), eof: EofStyle::Ok0, ..Default::default() }).0),
        4 => AnyAsset::Sim(SimAsset::new(data.to_vec(), AssetPlan { max_chunk: 1, eof: EofStyle::Err, ..Default::default() }).0),
        2 => {
            use std::io::Write;
            let mut enc = flate2::write::GzEncoder::new(Vec::new(), flate2::Compression::fast());
            enc.write_all(data).expect("gzip encode");
            let gz = enc.finish().expect("gzip finish");
            AnyAsset::Gz(rustzx_utils::io::GzipAsset::new(std::io::Cursor::new(gz)).expect("gzip asset"))
        }
        3 => {
            let root = std::env::var("VERIF_ROOT").unwrap_or_else(|_| "/verif".into());
            let dir = format!("{}/sim/target/tmp", root);
            let _ = std::fs::create_dir_all(&dir);
            let n = TMP_COUNTER.with(|c| {
                c.set(c.get() + 1);
                c.get()
            });
            let path = format!("{}/asset-{}-{:?}-{}.bin", dir, std::process::id(), std::thread::current().id(), n);
            std::fs::write(&path, data).expect("write temp asset");
            let f = std::fs::File::open(&path).expect("open temp asset");
            // unlink right away: the open handle keeps the data alive, nothing is left behind
            let _ = std::fs::remove_file(&path);
            AnyAsset::File(rustzx_utils::io::FileAsset::from(f))
        }
        _ => AnyAsset::Buf(rustzx_core::host::BufferCursor::new(data.to_vec())),
    }
}
