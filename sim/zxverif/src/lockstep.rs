//! Whole-machine lock-step without re-synchronisation: the real `Emulator` (Z80 + ZXController)
//! executes seeded random code next to `RefZ80` running on the reference machine
//! (`RefMem` + `RefUla`: memory map, paging, contention, frame length, INT pulse). After every
//! instruction the registers and the *cumulative* emulated time (frames x frame length + in-frame
//! clock) are compared. Unlike the per-instruction clauses of C04/C06 nothing is copied from the
//! implementation between instructions, so state that only goes wrong over a history (a stale cache,
//! a lost overrun, a latch that follows an ignored write) shows up as a drift.
//!
//! Attribution: a clock difference in a step that stays inside the frame and accepts no interrupt is
//! C04's matter (contention); one in a step that crosses the frame end or enters an interrupt is
//! C05's; a register difference is neither's (C01/C06) and only re-synchronises the pair.

use crate::cpustate::CpuState;
use crate::machine::*;
use crate::prng::{Fnv, Rng};
use crate::runner::{Fail, RunCtx};
use rustzx_z80::Z80Bus;
use zxref::mem::RefMem;
use zxref::ula::RefUla;
use zxref::z80::{Accepted, RefBus, RefZ80};

struct MachineBus<'a> {
    m: &'a mut RefMem,
    ula: RefUla,
    /// absolute T since the start of frame 0
    t: u64,
    undo: Vec<(u16, u8)>,
    io_read: bool,
    ambiguous: bool,
    delayed: u32,
    /// (T at the start of the port cycle, port, value) of every port write
    outs: Vec<(u64, u16, u8)>,
    /// overrides the INT line level (alternative-history runs of the sequencing judge)
    force_int: Option<bool>,
}

impl<'a> MachineBus<'a> {
    fn cyc(&mut self, addr: u16, len: u64) {
        let c = self.m.contended_addr(addr);
        if c && self.ula.delay(self.t) > 0 {
            self.delayed += 1;
        }
        self.t = self.ula.mem_cycle(self.t, c, len);
    }
}

impl<'a> RefBus for MachineBus<'a> {
    fn m1(&mut self, addr: u16) -> u8 {
        self.cyc(addr, 4);
        self.m.read(addr)
    }
    fn rd(&mut self, addr: u16) -> u8 {
        self.cyc(addr, 3);
        self.m.read(addr)
    }
    fn wr(&mut self, addr: u16, v: u8) {
        self.cyc(addr, 3);
        self.undo.push((addr, self.m.read(addr)));
        self.m.write(addr, v);
    }
    fn dly(&mut self, addr: u16, n: u8) {
        for _ in 0..n {
            self.cyc(addr, 1);
        }
    }
    fn internal(&mut self, n: u8) {
        self.t += n as u64;
    }
    fn io_r(&mut self, port: u16) -> u8 {
        self.t = self.ula.io_cycle(self.t, port, self.m.contended_addr(port));
        self.io_read = true;
        0xFF
    }
    fn io_w(&mut self, port: u16, v: u8) {
        self.outs.push((self.t, port, v));
        self.t = self.ula.io_cycle(self.t, port, self.m.contended_addr(port));
        if self.m.m128 && port & 0x8002 == 0 {
            if port & 1 == 1 {
                self.m.out_7ffd(v);
            } else {
                self.ambiguous = true;
            }
        }
    }
    fn sample_lines(&mut self) -> (bool, bool) {
        (false, self.force_int.unwrap_or(self.ula.int_active(self.t)))
    }
    fn int_bus_byte(&mut self) -> u8 {
        0xFF
    }
}

#[derive(Clone, Copy, PartialEq, Eq, Debug)]
pub enum Judge {
    /// clock differences inside a frame, no interrupt entry (C04)
    Contention,
    /// clock differences at frame crossings / interrupt entries, frame count (C05)
    FrameAccounting,
    /// register differences that are exactly "an interrupt was accepted where the rules forbid it, or
    /// not accepted where they demand it" (C02 at machine level, with host actions in between)
    Sequencing,
}

fn sync_model_from_machine(e: &mut Emu, m: &mut RefMem, m128: bool) {
    for b in 0..8u8 {
        if let Some(pg) = phys_page(m128, b) {
            m.banks[b as usize].copy_from_slice(e.verif_ram_page(pg));
        }
    }
    if m128 {
        let (latch, unlocked, _) = e.verif_paging();
        m.locked = false;
        m.out_7ffd(latch & !0x20);
        m.last_7ffd = latch;
        m.locked = !unlocked;
    }
}

/// One lock-step run. `cfg`: m128, seed, steps. Returns the first discrepancy the caller's property
/// judges, as a `Fail` with site `<prefix>.lockstep_clock` / `.lockstep_frames`.
pub fn run(m128: bool, seed: u64, steps: usize, judge: Judge, prefix: &str, ctx: &mut RunCtx) -> Result<(), Fail> {
    // sound / device settings are irrelevant to time keeping: derived from the seed
    let dev = (seed >> 40) & 0xFF;
    let cfg = if dev & 0x80 != 0 {
        MCfg { m128, ..Default::default() }
    } else {
        MCfg { m128, sound: dev & 1 != 0, beeper: dev & 2 != 0, ay: dev & 4 != 0, kempston: dev & 8 != 0, mouse: dev & 16 != 0, rate: [44100usize, 8000, 384000, 22050][(dev as usize >> 5) & 3], ..Default::default() }
    };
    let ula = RefUla::new(m128);
    let frame = ula.frame;
    let machine = if m128 { "128k" } else { "48k" };
    let mut rng = Rng::new(seed);
    let mut e = new_emu(&cfg);
    let mut m = RefMem::new(m128);
    for p in 0..ram_pages(m128) {
        rng.fill(e.verif_ram_page(p));
    }
    // sprinkle interrupt-related opcodes so that histories with EI / HALT / IM 2 occur often enough
    for p in 0..ram_pages(m128) {
        let page = e.verif_ram_page(p);
        for k in 0..200 {
            let off = (k * 83 + (seed as usize % 79)) % (16384 - 4);
            page[off] = [0xFBu8, 0xFB, 0x76, 0x00, 0xF3][k % 5];
        }
    }
    // 16-bit direct accesses on the borders between the 16 KiB windows
    for p in 0..ram_pages(m128) {
        let page = e.verif_ram_page(p);
        for k in 0..60 {
            let off = (k * 263 + (seed as usize % 251)) % (16384 - 8);
            let b = [0x3FFFu16, 0x7FFF, 0xBFFF, 0xFFFF][k % 4];
            let t: [u8; 4] = match k % 3 {
                0 => [0x2A, b as u8, (b >> 8) as u8, 0x00],
                1 => [0x22, b as u8, (b >> 8) as u8, 0x00],
                _ => [0xED, [0x4Bu8, 0x43, 0x5B, 0x53][k % 4], b as u8, (b >> 8) as u8],
            };
            page[off..off + 4].copy_from_slice(&t);
        }
    }
    e.verif_refresh_screen();
    // host-side devices that must not change time keeping: an I/O extender claiming a few ports, a tape
    // playing in the background
    let mut ext_claimed: Vec<u16> = vec![];
    if (seed >> 48) & 1 == 1 {
        ctx.probe("lockstep_extender");
        let mut r2 = Rng::new(seed ^ 0xE77);
        let claimed: Vec<u16> = (0..8).map(|_| r2.u16() | 0x0002).collect();
        ext_claimed = claimed.clone();
        e.set_io_extender(crate::host::SimExtender { claimed, log: vec![], read_xor: r2.u8() });
    }
    if (seed >> 49) & 1 == 1 {
        ctx.probe("lockstep_tape_playing");
        let blk = zxref::tape::std_block(0x00, &[0x55u8; 200]);
        let img = zxref::tape::make_tap(&[blk.clone(), blk]);
        if e.load_tape(rustzx_core::host::Tape::Tap(crate::host::AnyAsset::Sim(crate::host::SimAsset::plain(img)))).is_ok() {
            e.play_tape();
        }
    }
    for r in 0..m.roms.len() {
        m.roms[r].copy_from_slice(e.verif_rom_page(r as u8));
    }
    if m128 {
        let v = if rng.chance(1, 8) { rng.u8() & 0x3F } else { rng.u8() & 0x1F };
        e.verif_bus().write_io(0x7FFD, v);
        e.verif_set_frame_clocks(0);
    }
    sync_model_from_machine(&mut e, &mut m, m128);
    let new_state = |rng: &mut Rng| -> CpuState {
        let mut st = CpuState::random(rng);
        st.pc = 0x4000 + (rng.u16() % 0xBF00);
        if rng.bool() {
            st.sp = 0x4100 + (rng.u16() % 0xBE00);
        }
        st.im = if rng.chance(2, 3) { 2 } else { st.im };
        st
    };
    let st = new_state(&mut rng);
    st.to_impl(e.verif_cpu());
    let t0 = match (judge, rng.below(4)) {
        (Judge::FrameAccounting, 0..=2) | (_, 2) => frame - 1 - rng.below(3000),
        (_, 0) => rng.below(frame),
        (_, 1) => ula.t0 + rng.below(192 * ula.line),
        _ => ula.t0.saturating_sub(rng.below(400)),
    };
    goto_frame_t(&mut e, t0 as usize, frame as usize);
    let mut r: RefZ80 = cpu_state(&mut e).to_ref();
    let mut t_ref: u64 = t0;
    let mut frames_impl: u64 = 0;
    let mut stuck = 0u32;
    let mut since_sync = 0u64;
    // (instructions still to execute before it happens, selector)
    let mut pending_action: Option<(u8, u64)> = None;
    let mut last_action: &'static str = "none";
    for step in 0..steps {
        let pre = CpuState::from_ref(&r);
        let latch_before = (m.top, m.shadow_screen, m.rom, m.locked, m.last_7ffd);
        let (info, t_after, undo, io_read, amb, delayed) = {
            let mut bus = MachineBus { m: &mut m, ula, t: t_ref, undo: vec![], io_read: false, ambiguous: false, delayed: 0, outs: vec![], force_int: None };
            let info = r.step(&mut bus);
            (info, bus.t, bus.undo, bus.io_read, bus.ambiguous || info.ambiguous.is_some(), bus.delayed)
        };
        // a host action scheduled by the previous (crafted) instruction happens here, between two
        // instructions - or, for a prefix chain, in the middle of it
        if step > 0 {
            last_action = "none";
        }
        match pending_action.take() {
            Some((0, a)) => last_action = host_action(&mut e, m128, a, ctx),
            Some((n, a)) => pending_action = Some((n - 1, a)),
            None => {}
        }
        let mut passed = step_public(&mut e).map_err(|x| Fail::new(&format!("{}.step", prefix), "", x))?;
        let mut guard = 0;
        if e.verif_cpu().verif_prefix_pending() && (seed >> 52) & 1 == 1 && step % 7 == 3 {
            ctx.probe("lockstep_host_action_mid_prefix_chain");
            let _ = host_action(&mut e, m128, seed ^ step as u64, ctx);
        }
        while e.verif_cpu().verif_prefix_pending() && guard < 600 {
            passed += step_public(&mut e).map_err(|x| Fail::new(&format!("{}.step", prefix), "", x))?;
            guard += 1;
        }
        frames_impl += passed as u64;
        let t_impl = frames_impl * frame + e.verif_frame_clocks() as u64;
        let crossed = t_after / frame != t_ref / frame;
        let int = info.accepted != Accepted::None;
        ctx.units += 1;
        ctx.sim_t += t_after - t_ref;
        if delayed > 0 {
            ctx.probe("lockstep_contended_cycle");
        }
        if crossed {
            ctx.probe("lockstep_frame_crossed");
        }
        if int {
            ctx.probe("lockstep_interrupt");
        }
        let resync = |e: &mut Emu, m: &mut RefMem, r: &mut RefZ80, t_ref: &mut u64, frames_impl: u64| {
            sync_model_from_machine(e, m, m128);
            *r = cpu_state(e).to_ref();
            *t_ref = frames_impl * frame + e.verif_frame_clocks() as u64;
        };
        if amb {
            // two devices were selected: adopt the machine's state
            ctx.ambiguous += 1;
            let _ = undo;
            resync(&mut e, &mut m, &mut r, &mut t_ref, frames_impl);
            since_sync = 0;
        } else {
            let mut post_i = cpu_state(&mut e);
            let post_r = CpuState::from_ref(&r);
            post_i.memptr = post_r.memptr;
            post_i.q = post_r.q;
            post_i.no_sample = post_r.no_sample;
            // a port read gets its value from a device: the time it takes is judged, the registers and the
            // bytes it stored are adopted from the machine afterwards
            let value_diff = if io_read { None } else { post_i.diff(&post_r, 0x28) };
            if let Some((f, a, b)) = value_diff {
                // not a timing matter (C01 / C06 judge values) - unless the difference is exactly an interrupt
                // taken / not taken against the sequencing rules, which the C02 judge reports
                if judge == Judge::Sequencing && latch_before == (m.top, m.shadow_screen, m.rom, m.locked, m.last_7ffd) {
                    let mut m_alt = m.clone();
                    for (addr, old) in undo.iter().rev() {
                        m_alt.write(*addr, *old);
                    }
                    let mut alt_pre = pre.clone();
                    let force = if int {
                        Some(false)
                    } else if pre.iff1 {
                        alt_pre.no_sample = false;
                        Some(true)
                    } else {
                        None
                    };
                    if let Some(force) = force {
                        let mut r_alt: RefZ80 = alt_pre.to_ref();
                        {
                            let mut bus = MachineBus { m: &mut m_alt, ula, t: t_ref, undo: vec![], io_read: false, ambiguous: false, delayed: 0, outs: vec![], force_int: Some(force) };
                            let _ = r_alt.step(&mut bus);
                        }
                        let alt_post = CpuState::from_ref(&r_alt);
                        let mut pi = cpu_state(&mut e);
                        pi.memptr = alt_post.memptr;
                        pi.q = alt_post.q;
                        pi.no_sample = alt_post.no_sample;
                        if pi.diff(&alt_post, 0x28).is_none() {
                            let page = crate::worlda::page_name(info.page);
                            return Err(Fail::new(
                                &format!("{}.machine_sequencing", prefix),
                                &format!("machine={},accepted_by_machine={},after_host_action={}", machine, (!int) as u8, last_action),
                                format!(
                                    "at the instruction boundary before {} {:02X} (PC={:04X}, frame T {}, INT line {}, IFF1={}, boundary {}sampled; host action just before: {}) the machine {} the interrupt, the sequencing rules {}",
                                    page,
                                    info.opcode,
                                    pre.pc,
                                    t_ref % frame,
                                    if ula.int_active(t_ref) { "active" } else { "inactive" },
                                    pre.iff1,
                                    if pre.no_sample { "not " } else { "" },
                                    last_action,
                                    if int { "did not accept" } else { "accepted" },
                                    if int { "demand it" } else { "forbid it" }
                                ),
                            ));
                        }
                    }
                }
                ctx.probe("lockstep_value_divergence_skipped");
                let _ = (f, a, b);
                resync(&mut e, &mut m, &mut r, &mut t_ref, frames_impl);
                since_sync = 0;
            } else if t_impl == t_after && frames_impl != t_after / frame {
                if judge == Judge::FrameAccounting {
                    return Err(Fail::new(
                        &format!("{}.lockstep_frames", prefix),
                        &format!("machine={}", machine),
                        format!(
                            "after {} T-states of random code the machine has completed {} frame(s) and stands at in-frame T {}; {} T-states are {} frame(s) of {} T plus {}",
                            t_after - t0,
                            frames_impl,
                            e.verif_frame_clocks(),
                            t_after,
                            t_after / frame,
                            frame,
                            t_after % frame
                        ),
                    ));
                }
                resync(&mut e, &mut m, &mut r, &mut t_ref, frames_impl);
                since_sync = 0;
            } else if t_impl != t_after {
                let mine = match judge {
                    Judge::Contention => !crossed && !int,
                    Judge::FrameAccounting => crossed || int,
                    Judge::Sequencing => false,
                };
                if mine {
                    let page = crate::worlda::page_name(info.page);
                    return Err(Fail::new(
                        &format!("{}.lockstep_clock", prefix),
                        &format!("machine={},crossed={},int={},contended={}", machine, crossed as u8, int as u8, (delayed > 0) as u8),
                        format!(
                            "{} {:02X} at PC={:04X} (step {} of a run of random code, {} instructions after the last synchronisation): emulated time after it is frame {} T {} but the reference machine is at frame {} T {} (before: frame {} T {}; {} delayed cycles; {}{})",
                            page,
                            info.opcode,
                            pre.pc,
                            step,
                            since_sync,
                            t_impl / frame,
                            t_impl % frame,
                            t_after / frame,
                            t_after % frame,
                            t_ref / frame,
                            t_ref % frame,
                            delayed,
                            if crossed { "crosses the frame end" } else { "inside the frame" },
                            if int { ", interrupt accepted" } else { "" }
                        ),
                    ));
                }
                ctx.probe("lockstep_clock_difference_left_to_other_property");
                resync(&mut e, &mut m, &mut r, &mut t_ref, frames_impl);
                since_sync = 0;
            } else {
                t_ref = t_after;
                since_sync += 1;
                if io_read {
                    ctx.probe("lockstep_port_read_timed");
                    sync_model_from_machine(&mut e, &mut m, m128);
                    r = cpu_state(&mut e).to_ref();
                }
                let mut h = Fnv::new();
                h.u8(m128 as u8);
                h.u8(info.page as u8);
                h.u8(info.opcode);
                h.u8(crossed as u8 | (int as u8) << 1 | ((delayed > 0) as u8) << 2);
                ctx.cover(h.get());
                let mut hs = Fnv::new();
                hs.u8(m128 as u8);
                hs.u64((t_ref % frame) / 64);
                ctx.state(hs.get());
            }
        }
        // the host loads an SZX snapshot of the very state the machine is in, but positioned at another
        // point of the frame (earlier or later): from there on time keeping continues from that position
        if step % 300 == 100 && (seed >> 51) & 1 == 1 && !r.halted {
            let now = e.verif_frame_clocks() as u64;
            let tprime = if rng.bool() { rng.below(now.max(1)) } else { rng.below(frame) };
            let mut sn = crate::snapfmt::SnapState::new(m128);
            for b in 0..8 {
                sn.banks[b].copy_from_slice(&m.banks[b]);
            }
            sn.port_7ffd = if m128 { m.last_7ffd } else { 0 };
            sn.cpu = CpuState::from_ref(&r);
            sn.ei_last = sn.cpu.no_sample;
            sn.border = e.border_color() as u8;
            sn.frame_t = tprime as u32;
            // (the header's flag byte describes the writer, e.g. its "alternate timings" variant; this machine's timing
            // is the one the property fixes, whatever the file says)
            let opt = crate::snapfmt::SzxOptions { compress: vec![step % 2 == 0; 8], hdr_flags: if (seed >> 45) & 1 == 1 { 1 | rng.u8() } else { 0 }, hold_int: if (seed >> 44) & 1 == 1 { rng.u8() } else { 0 }, ..Default::default() };
            if e.load_snapshot(rustzx_core::host::Snapshot::Szx(crate::host::SimAsset::plain(crate::snapfmt::write_szx(&sn, &opt)))).is_ok() && e.verif_frame_clocks() as u64 == tprime {
                ctx.probe(if tprime < now { "lockstep_szx_reload_clock_backwards" } else { "lockstep_szx_reload_clock_forwards" });
                sync_model_from_machine(&mut e, &mut m, m128);
                r = cpu_state(&mut e).to_ref();
                t_ref = frames_impl * frame + tprime;
                since_sync = 0;
            } else {
                // (what a load must restore is C14's matter) carry on from whatever the machine is in
                resync(&mut e, &mut m, &mut r, &mut t_ref, frames_impl);
            }
        }
        // the host takes a snapshot now and then: it costs no emulated time (and changes nothing)
        if step % 500 == 250 && (seed >> 50) & 1 == 1 {
            ctx.probe("lockstep_snapshot_saved");
            let (rec, _out) = crate::host::SimRecorder::new(crate::host::RecorderPlan::default());
            let _ = e.save_snapshot(rustzx_core::host::SnapshotRecorder::Sna(rec));
        }
        // a CPU halted with interrupts disabled would idle for the rest of the run: new random state
        if r.halted && !r.iff1 {
            stuck += 1;
        } else {
            stuck = 0;
        }
        if stuck > 8 || (step % 400 == 399) {
            let mut st = new_state(&mut rng);
            let crafted = judge == Judge::Sequencing || rng.chance(1, 3);
            if crafted {
                // a sequencing-critical instruction that ends inside the INT pulse, then (half of the time)
                // a host action right behind it
                ctx.probe("lockstep_crafted_boundary");
                st.pc = 0x8000 + (rng.u16() % 0x3F00);
                let variant = if !ext_claimed.is_empty() && rng.chance(1, 4) { 6 } else { rng.below(6) };
                if variant == 6 {
                    // a port cycle on an address the host extender claims, crossing the frame end
                    ctx.probe("lockstep_crafted_extender_port");
                    st.bc = *rng.pick(&ext_claimed);
                }
                if variant == 5 {
                    // IM 2 with a handler that re-enables interrupts at once: the 32-T pulse is long enough for a
                    // second acceptance (EI; NOP -> INT -> handler EI; NOP -> INT again)
                    ctx.probe("lockstep_crafted_short_im2_handler");
                    st.im = 2;
                    st.i = 0xA0;
                    st.sp = 0xBF00;
                    let handler: u16 = 0xA400 + (rng.u16() & 0xFF);
                    for (a, b) in [(0xA0FFu16, handler as u8), (0xA100, (handler >> 8) as u8), (handler, 0xFB), (handler.wrapping_add(1), 0x00), (handler.wrapping_add(2), 0x00), (handler.wrapping_add(3), 0xFB), (handler.wrapping_add(4), 0xC9)] {
                        m.write(a, b);
                        write_mem(&mut e, a, &[b]);
                    }
                }
                let code: Vec<u8> = match variant.min(4) {
                    _ if variant == 5 => vec![0xFB, 0x00, 0x00, 0x00],
                    _ if variant == 6 => vec![0xED, *rng.pick(&[0x78u8, 0x79, 0x40, 0x41, 0xA2, 0xA3]), 0x00, 0x00],
                    0 | 1 => vec![0xFB, rng.u8(), rng.u8(), rng.u8()],
                    2 => vec![*rng.pick(&[0xDDu8, 0xFD]), *rng.pick(&[0xDDu8, 0xFD]), rng.u8(), rng.u8(), rng.u8()],
                    3 => vec![0x76],
                    _ => vec![0xF3, rng.u8(), rng.u8()],
                };
                for (i, b) in code.iter().enumerate() {
                    m.write(st.pc.wrapping_add(i as u16), *b);
                }
                write_mem(&mut e, st.pc, &code);
                st.iff1 = rng.chance(2, 3);
                st.iff2 = st.iff1;
                if rng.bool() {
                    // right behind the crafted instruction
                    pending_action = Some((1, rng.next()));
                }
            }
            st.to_impl(e.verif_cpu());
            r = cpu_state(&mut e).to_ref();
            stuck = 0;
            if crafted {
                let target = frame - 1 - rng.below(6);
                let now = e.verif_frame_clocks() as u64;
                if now < target {
                    goto_frame_t(&mut e, target as usize, frame as usize);
                    t_ref = frames_impl * frame + target;
                }
            } else if judge == Judge::FrameAccounting {
                // forward to shortly before the next frame end (both clocks)
                let target = frame - 1 - rng.below(2500);
                let now = e.verif_frame_clocks() as u64;
                if now < target {
                    goto_frame_t(&mut e, target as usize, frame as usize);
                    t_ref = frames_impl * frame + target;
                }
            }
        }
    }
    Ok(())
}

struct OnePoke([rustzx_core::poke::PokeAction; 1]);
impl rustzx_core::poke::Poke for OnePoke {
    fn actions(&self) -> &[rustzx_core::poke::PokeAction] {
        &self.0
    }
}

/// A host action that must leave the running machine untouched: snapshot / tape files the loaders reject,
/// a snapshot save, an idempotent poke. Returns its name.
fn host_action(e: &mut Emu, m128: bool, sel: u64, ctx: &mut RunCtx) -> &'static str {
    use rustzx_core::host::{Snapshot, SnapshotRecorder};
    ctx.probe("lockstep_host_action");
    match sel % 6 {
        0 => {
            let _ = e.load_snapshot(Snapshot::Sna(crate::host::SimAsset::plain(vec![0u8; 100])));
            "truncated SNA rejected"
        }
        1 => {
            let _ = e.load_snapshot(Snapshot::Szx(crate::host::SimAsset::plain(b"ZXSX\x01\x04\x00\x00garbage".to_vec())));
            "SZX with a wrong signature rejected"
        }
        2 => {
            // a snapshot for the other machine model
            let len = if m128 { 49179 } else { 131103 };
            let mut v = vec![0u8; len];
            v[25] = 1;
            let _ = e.load_snapshot(Snapshot::Sna(crate::host::SimAsset::plain(v)));
            "SNA of the other model rejected"
        }
        3 => {
            let (rec, _out) = crate::host::SimRecorder::new(crate::host::RecorderPlan::default());
            let _ = e.save_snapshot(SnapshotRecorder::Sna(rec));
            "snapshot saved"
        }
        4 => {
            let (rec, _out) = crate::host::SimRecorder::new(crate::host::RecorderPlan { write_err_at: Some(sel >> 8 & 3), ..Default::default() });
            let _ = e.save_snapshot(SnapshotRecorder::Sna(rec));
            "snapshot save failed in the recorder"
        }
        _ => {
            let addr = 0x4000 + ((sel >> 8) as u16 % 0xC000);
            let v = e.peek(addr);
            e.execute_poke(OnePoke([rustzx_core::poke::PokeAction::mem(addr, v)]));
            "poke of the value already there"
        }
    }
}

/// One port write of a reference run: T (absolute, from the start of the frame in which the run
/// began) at the start of its port cycle and at the end of the instruction, port and value.
#[derive(Clone, Copy, Debug)]
pub struct OutEvent {
    pub t_io: u64,
    pub t_end: u64,
    pub port: u16,
    pub value: u8,
}

/// Runs `RefZ80` on the reference machine (`m`: memory incl. the program, paging; RefULA timing) from
/// `start` at in-frame clock `t0` until `t_limit` T-states have passed, and returns every port write
/// with its instants: the oracle time line for programs whose writes cannot be observed by
/// single-stepping (host calls spanning several frames).
pub fn ref_out_events(m: &mut RefMem, start: &CpuState, t0: u64, t_limit: u64) -> Vec<OutEvent> {
    let ula = RefUla::new(m.m128);
    let mut r: RefZ80 = start.to_ref();
    let mut t = t0;
    let mut out = vec![];
    let mut guard = 0u64;
    while t < t_limit && guard < 50_000_000 {
        guard += 1;
        let mut bus = MachineBus { m: &mut *m, ula, t, undo: vec![], io_read: false, ambiguous: false, delayed: 0, outs: vec![], force_int: None };
        let _ = r.step(&mut bus);
        let t_after = bus.t;
        for (t_io, port, value) in bus.outs.drain(..) {
            out.push(OutEvent { t_io, t_end: t_after, port, value });
        }
        t = t_after;
    }
    out
}
