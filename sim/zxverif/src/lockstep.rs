//! Whole-machine lock-step without re-synchronisation: the real `Emulator` (Z80 + ZXController)
//! executes seeded random code next to `RefZ80` running on the reference machine
//! (`RefMem` + `RefUla`: memory map, paging, contention, frame length, INT pulse). After every
//! instruction the registers and the *cumulative* emulated time (frames x frame length + in-frame
//! clock) are compared. Unlike the per-instruction clauses of C04/C06 nothing is copied from the
//! implementation between instructions, so state that only goes wrong over a history (a stale cache,
//! a lost overrun, a latch that follows an ignored write) shows up as a drift.
//!
//! Attribution: a clock difference in a step that stays inside the frame and accepts no interrupt is
//! C04's matter (contention); one in a step that crosses the frame end or enters an interrupt is
//! C05's; a register difference is neither's (C01/C06) and only re-synchronises the pair.

use crate::cpustate::CpuState;
use crate::machine::*;
use crate::prng::{Fnv, Rng};
use crate::runner::{Fail, RunCtx};
use rustzx_z80::Z80Bus;
use zxref::mem::RefMem;
use zxref::ula::RefUla;
use zxref::z80::{Accepted, RefBus, RefZ80};

struct MachineBus<'a> {
    m: &'a mut RefMem,
    ula: RefUla,
    /// absolute T since the start of frame 0
    t: u64,
    undo: Vec<(u16, u8)>,
    io_read: bool,
    ambiguous: bool,
    delayed: u32,
    /// (T at the start of the port cycle, port, value) of every port write
    outs: Vec<(u64, u16, u8)>,
}

impl<'a> MachineBus<'a> {
    fn cyc(&mut self, addr: u16, len: u64) {
        let c = self.m.contended_addr(addr);
        if c && self.ula.delay(self.t) > 0 {
            self.delayed += 1;
        }
        self.t = self.ula.mem_cycle(self.t, c, len);
    }
}

impl<'a> RefBus for MachineBus<'a> {
    fn m1(&mut self, addr: u16) -> u8 {
        self.cyc(addr, 4);
        self.m.read(addr)
    }
    fn rd(&mut self, addr: u16) -> u8 {
        self.cyc(addr, 3);
        self.m.read(addr)
    }
    fn wr(&mut self, addr: u16, v: u8) {
        self.cyc(addr, 3);
        self.undo.push((addr, self.m.read(addr)));
        self.m.write(addr, v);
    }
    fn dly(&mut self, addr: u16, n: u8) {
        for _ in 0..n {
            self.cyc(addr, 1);
        }
    }
    fn internal(&mut self, n: u8) {
        self.t += n as u64;
    }
    fn io_r(&mut self, port: u16) -> u8 {
        self.t = self.ula.io_cycle(self.t, port, self.m.contended_addr(port));
        self.io_read = true;
        0xFF
    }
    fn io_w(&mut self, port: u16, v: u8) {
        self.outs.push((self.t, port, v));
        self.t = self.ula.io_cycle(self.t, port, self.m.contended_addr(port));
        if self.m.m128 && port & 0x8002 == 0 {
            if port & 1 == 1 {
                self.m.out_7ffd(v);
            } else {
                self.ambiguous = true;
            }
        }
    }
    fn sample_lines(&mut self) -> (bool, bool) {
        (false, self.ula.int_active(self.t))
    }
    fn int_bus_byte(&mut self) -> u8 {
        0xFF
    }
}

#[derive(Clone, Copy, PartialEq, Eq, Debug)]
pub enum Judge {
    /// clock differences inside a frame, no interrupt entry (C04)
    Contention,
    /// clock differences at frame crossings / interrupt entries, frame count (C05)
    FrameAccounting,
}

fn sync_model_from_machine(e: &mut Emu, m: &mut RefMem, m128: bool) {
    for b in 0..8u8 {
        if let Some(pg) = phys_page(m128, b) {
            m.banks[b as usize].copy_from_slice(e.verif_ram_page(pg));
        }
    }
    if m128 {
        let (latch, unlocked, _) = e.verif_paging();
        m.locked = false;
        m.out_7ffd(latch & !0x20);
        m.last_7ffd = latch;
        m.locked = !unlocked;
    }
}

/// One lock-step run. `cfg`: m128, seed, steps. Returns the first discrepancy the caller's property
/// judges, as a `Fail` with site `<prefix>.lockstep_clock` / `.lockstep_frames`.
pub fn run(m128: bool, seed: u64, steps: usize, judge: Judge, prefix: &str, ctx: &mut RunCtx) -> Result<(), Fail> {
    // sound / device settings are irrelevant to time keeping: derived from the seed
    let dev = (seed >> 40) & 0xFF;
    let cfg = if dev & 0x80 != 0 {
        MCfg { m128, ..Default::default() }
    } else {
        MCfg { m128, sound: dev & 1 != 0, beeper: dev & 2 != 0, ay: dev & 4 != 0, kempston: dev & 8 != 0, mouse: dev & 16 != 0, rate: [44100usize, 8000, 384000, 22050][(dev as usize >> 5) & 3], ..Default::default() }
    };
    let ula = RefUla::new(m128);
    let frame = ula.frame;
    let machine = if m128 { "128k" } else { "48k" };
    let mut rng = Rng::new(seed);
    let mut e = new_emu(&cfg);
    let mut m = RefMem::new(m128);
    for p in 0..ram_pages(m128) {
        rng.fill(e.verif_ram_page(p));
    }
    // sprinkle interrupt-related opcodes so that histories with EI / HALT / IM 2 occur often enough
    for p in 0..ram_pages(m128) {
        let page = e.verif_ram_page(p);
        for k in 0..200 {
            let off = (k * 83 + (seed as usize % 79)) % (16384 - 4);
            page[off] = [0xFBu8, 0xFB, 0x76, 0x00, 0xF3][k % 5];
        }
    }
    // 16-bit direct accesses on the borders between the 16 KiB windows
    for p in 0..ram_pages(m128) {
        let page = e.verif_ram_page(p);
        for k in 0..60 {
            let off = (k * 263 + (seed as usize % 251)) % (16384 - 8);
            let b = [0x3FFFu16, 0x7FFF, 0xBFFF, 0xFFFF][k % 4];
            let t: [u8; 4] = match k % 3 {
                0 => [0x2A, b as u8, (b >> 8) as u8, 0x00],
                1 => [0x22, b as u8, (b >> 8) as u8, 0x00],
                _ => [0xED, [0x4Bu8, 0x43, 0x5B, 0x53][k % 4], b as u8, (b >> 8) as u8],
            };
            page[off..off + 4].copy_from_slice(&t);
        }
    }
    e.verif_refresh_screen();
    // host-side devices that must not change time keeping: an I/O extender claiming a few ports, a tape
    // playing in the background
    if (seed >> 48) & 1 == 1 {
        ctx.probe("lockstep_extender");
        let mut r2 = Rng::new(seed ^ 0xE77);
        let claimed: Vec<u16> = (0..8).map(|_| r2.u16() | 0x0002).collect();
        e.set_io_extender(crate::host::SimExtender { claimed, log: vec![], read_xor: r2.u8() });
    }
    if (seed >> 49) & 1 == 1 {
        ctx.probe("lockstep_tape_playing");
        let blk = zxref::tape::std_block(0x00, &[0x55u8; 200]);
        let img = zxref::tape::make_tap(&[blk.clone(), blk]);
        if e.load_tape(rustzx_core::host::Tape::Tap(crate::host::AnyAsset::Sim(crate::host::SimAsset::plain(img)))).is_ok() {
            e.play_tape();
        }
    }
    for r in 0..m.roms.len() {
        m.roms[r].copy_from_slice(e.verif_rom_page(r as u8));
    }
    if m128 {
        let v = if rng.chance(1, 8) { rng.u8() & 0x3F } else { rng.u8() & 0x1F };
        e.verif_bus().write_io(0x7FFD, v);
        e.verif_set_frame_clocks(0);
    }
    sync_model_from_machine(&mut e, &mut m, m128);
    let new_state = |rng: &mut Rng| -> CpuState {
        let mut st = CpuState::random(rng);
        st.pc = 0x4000 + (rng.u16() % 0xBF00);
        if rng.bool() {
            st.sp = 0x4100 + (rng.u16() % 0xBE00);
        }
        st.im = if rng.chance(2, 3) { 2 } else { st.im };
        st
    };
    let st = new_state(&mut rng);
    st.to_impl(e.verif_cpu());
    let t0 = match (judge, rng.below(4)) {
        (Judge::FrameAccounting, 0..=2) | (_, 2) => frame - 1 - rng.below(3000),
        (_, 0) => rng.below(frame),
        (_, 1) => ula.t0 + rng.below(192 * ula.line),
        _ => ula.t0.saturating_sub(rng.below(400)),
    };
    goto_frame_t(&mut e, t0 as usize, frame as usize);
    let mut r: RefZ80 = cpu_state(&mut e).to_ref();
    let mut t_ref: u64 = t0;
    let mut frames_impl: u64 = 0;
    let mut stuck = 0u32;
    let mut since_sync = 0u64;
    for step in 0..steps {
        let pre = CpuState::from_ref(&r);
        let (info, t_after, undo, io_read, amb, delayed) = {
            let mut bus = MachineBus { m: &mut m, ula, t: t_ref, undo: vec![], io_read: false, ambiguous: false, delayed: 0, outs: vec![] };
            let info = r.step(&mut bus);
            (info, bus.t, bus.undo, bus.io_read, bus.ambiguous || info.ambiguous.is_some(), bus.delayed)
        };
        let mut passed = step_public(&mut e).map_err(|x| Fail::new(&format!("{}.step", prefix), "", x))?;
        let mut guard = 0;
        while e.verif_cpu().verif_prefix_pending() && guard < 600 {
            passed += step_public(&mut e).map_err(|x| Fail::new(&format!("{}.step", prefix), "", x))?;
            guard += 1;
        }
        frames_impl += passed as u64;
        let t_impl = frames_impl * frame + e.verif_frame_clocks() as u64;
        let crossed = t_after / frame != t_ref / frame;
        let int = info.accepted != Accepted::None;
        ctx.units += 1;
        ctx.sim_t += t_after - t_ref;
        if delayed > 0 {
            ctx.probe("lockstep_contended_cycle");
        }
        if crossed {
            ctx.probe("lockstep_frame_crossed");
        }
        if int {
            ctx.probe("lockstep_interrupt");
        }
        let resync = |e: &mut Emu, m: &mut RefMem, r: &mut RefZ80, t_ref: &mut u64, frames_impl: u64| {
            sync_model_from_machine(e, m, m128);
            *r = cpu_state(e).to_ref();
            *t_ref = frames_impl * frame + e.verif_frame_clocks() as u64;
        };
        if amb {
            // two devices were selected: adopt the machine's state
            ctx.ambiguous += 1;
            let _ = undo;
            resync(&mut e, &mut m, &mut r, &mut t_ref, frames_impl);
            since_sync = 0;
        } else {
            let mut post_i = cpu_state(&mut e);
            let post_r = CpuState::from_ref(&r);
            post_i.memptr = post_r.memptr;
            post_i.q = post_r.q;
            post_i.no_sample = post_r.no_sample;
            // a port read gets its value from a device: the time it takes is judged, the registers and the
            // bytes it stored are adopted from the machine afterwards
            let value_diff = if io_read { None } else { post_i.diff(&post_r, 0x28) };
            if let Some((f, a, b)) = value_diff {
                // not a timing matter (C01 / C06 judge values)
                ctx.probe("lockstep_value_divergence_skipped");
                let _ = (f, a, b);
                resync(&mut e, &mut m, &mut r, &mut t_ref, frames_impl);
                since_sync = 0;
            } else if t_impl == t_after && frames_impl != t_after / frame {
                if judge == Judge::FrameAccounting {
                    return Err(Fail::new(
                        &format!("{}.lockstep_frames", prefix),
                        &format!("machine={}", machine),
                        format!(
                            "after {} T-states of random code the machine has completed {} frame(s) and stands at in-frame T {}; {} T-states are {} frame(s) of {} T plus {}",
                            t_after - t0,
                            frames_impl,
                            e.verif_frame_clocks(),
                            t_after,
                            t_after / frame,
                            frame,
                            t_after % frame
                        ),
                    ));
                }
                resync(&mut e, &mut m, &mut r, &mut t_ref, frames_impl);
                since_sync = 0;
            } else if t_impl != t_after {
                let mine = match judge {
                    Judge::Contention => !crossed && !int,
                    Judge::FrameAccounting => crossed || int,
                };
                if mine {
                    let page = crate::worlda::page_name(info.page);
                    return Err(Fail::new(
                        &format!("{}.lockstep_clock", prefix),
                        &format!("machine={},crossed={},int={},contended={}", machine, crossed as u8, int as u8, (delayed > 0) as u8),
                        format!(
                            "{} {:02X} at PC={:04X} (step {} of a run of random code, {} instructions after the last synchronisation): emulated time after it is frame {} T {} but the reference machine is at frame {} T {} (before: frame {} T {}; {} delayed cycles; {}{})",
                            page,
                            info.opcode,
                            pre.pc,
                            step,
                            since_sync,
                            t_impl / frame,
                            t_impl % frame,
                            t_after / frame,
                            t_after % frame,
                            t_ref / frame,
                            t_ref % frame,
                            delayed,
                            if crossed { "crosses the frame end" } else { "inside the frame" },
                            if int { ", interrupt accepted" } else { "" }
                        ),
                    ));
                }
                ctx.probe("lockstep_clock_difference_left_to_other_property");
                resync(&mut e, &mut m, &mut r, &mut t_ref, frames_impl);
                since_sync = 0;
            } else {
                t_ref = t_after;
                since_sync += 1;
                if io_read {
                    ctx.probe("lockstep_port_read_timed");
                    sync_model_from_machine(&mut e, &mut m, m128);
                    r = cpu_state(&mut e).to_ref();
                }
                let mut h = Fnv::new();
                h.u8(m128 as u8);
                h.u8(info.page as u8);
                h.u8(info.opcode);
                h.u8(crossed as u8 | (int as u8) << 1 | ((delayed > 0) as u8) << 2);
                ctx.cover(h.get());
                let mut hs = Fnv::new();
                hs.u8(m128 as u8);
                hs.u64((t_ref % frame) / 64);
                ctx.state(hs.get());
            }
        }
        // the host takes a snapshot now and then: it costs no emulated time (and changes nothing)
        if step % 500 == 250 && (seed >> 50) & 1 == 1 {
            ctx.probe("lockstep_snapshot_saved");
            let (rec, _out) = crate::host::SimRecorder::new(crate::host::RecorderPlan::default());
            let _ = e.save_snapshot(rustzx_core::host::SnapshotRecorder::Sna(rec));
        }
        // a CPU halted with interrupts disabled would idle for the rest of the run: new random state
        if r.halted && !r.iff1 {
            stuck += 1;
        } else {
            stuck = 0;
        }
        if stuck > 8 || (step % 400 == 399) {
            let st = new_state(&mut rng);
            st.to_impl(e.verif_cpu());
            r = cpu_state(&mut e).to_ref();
            stuck = 0;
            if judge == Judge::FrameAccounting {
                // forward to shortly before the next frame end (both clocks)
                let target = frame - 1 - rng.below(2500);
                let now = e.verif_frame_clocks() as u64;
                if now < target {
                    goto_frame_t(&mut e, target as usize, frame as usize);
                    t_ref = frames_impl * frame + target;
                }
            }
        }
    }
    Ok(())
}

/// One port write of a reference run: T (absolute, from the start of the frame in which the run
/// began) at the start of its port cycle and at the end of the instruction, port and value.
#[derive(Clone, Copy, Debug)]
pub struct OutEvent {
    pub t_io: u64,
    pub t_end: u64,
    pub port: u16,
    pub value: u8,
}

/// Runs `RefZ80` on the reference machine (`m`: memory incl. the program, paging; RefULA timing) from
/// `start` at in-frame clock `t0` until `t_limit` T-states have passed, and returns every port write
/// with its instants: the oracle time line for programs whose writes cannot be observed by
/// single-stepping (host calls spanning several frames).
pub fn ref_out_events(m: &mut RefMem, start: &CpuState, t0: u64, t_limit: u64) -> Vec<OutEvent> {
    let ula = RefUla::new(m.m128);
    let mut r: RefZ80 = start.to_ref();
    let mut t = t0;
    let mut out = vec![];
    let mut guard = 0u64;
    while t < t_limit && guard < 50_000_000 {
        guard += 1;
        let mut bus = MachineBus { m: &mut *m, ula, t, undo: vec![], io_read: false, ambiguous: false, delayed: 0, outs: vec![] };
        let _ = r.step(&mut bus);
        let t_after = bus.t;
        for (t_io, port, value) in bus.outs.drain(..) {
            out.push(OutEvent { t_io, t_end: t_after, port, value });
        }
        t = t_after;
    }
    out
}
