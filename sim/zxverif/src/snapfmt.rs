//! Independent writers for the snapshot / screen file formats (SNA 48K/128K, SZX, SCR), written
//! from the public format documents (DESIGN.md appendix E). They share no code with the loaders
//! under test.

use crate::cpustate::CpuState;

#[derive(Clone, Debug)]
pub struct SnapState {
    pub m128: bool,
    pub cpu: CpuState,
    pub border: u8,
    /// 8 banks of 16 KiB (48K uses banks 5, 2, 0)
    pub banks: Vec<Vec<u8>>,
    pub port_7ffd: u8,
    pub ay_regs: [u8; 16],
    pub ay_sel: u8,
    /// SZX only
    pub halted: bool,
    pub ei_last: bool,
    pub mouse: bool,
    pub kempston: bool,
    pub frame_t: u32,
    /// 128K SNA only: the "TR-DOS ROM paged" byte behind the 0x7FFD value (no TR-DOS is emulated; the
    /// loader has to ignore it)
    pub sna_trdos: u8,
}

impl SnapState {
    pub fn new(m128: bool) -> SnapState {
        SnapState {
            m128,
            cpu: CpuState::default(),
            border: 0,
            banks: vec![vec![0u8; 16384]; 8],
            port_7ffd: 0,
            ay_regs: [0; 16],
            ay_sel: 0,
            halted: false,
            ei_last: false,
            mouse: false,
            kempston: false,
            frame_t: 0,
            sna_trdos: 0,
        }
    }
    /// bank mapped at 0xC000
    pub fn top_bank(&self) -> usize {
        if self.m128 {
            (self.port_7ffd & 7) as usize
        } else {
            0
        }
    }
    pub fn bank_for_addr(&self, addr: u16) -> Option<usize> {
        match addr >> 14 {
            0 => None,
            1 => Some(5),
            2 => Some(2),
            _ => Some(self.top_bank()),
        }
    }
    pub fn peek(&self, addr: u16) -> u8 {
        match self.bank_for_addr(addr) {
            Some(b) => self.banks[b][addr as usize & 0x3FFF],
            None => 0,
        }
    }
    pub fn poke(&mut self, addr: u16, v: u8) {
        if let Some(b) = self.bank_for_addr(addr) {
            self.banks[b][addr as usize & 0x3FFF] = v;
        }
    }
}

fn sna_header(s: &SnapState, sp: u16) -> Vec<u8> {
    let c = &s.cpu;
    let mut h = vec![];
    h.push(c.i);
    for w in [c.hl_, c.de_, c.bc_, c.af_, c.hl, c.de, c.bc, c.iy, c.ix] {
        h.extend_from_slice(&w.to_le_bytes());
    }
    h.push(if c.iff2 { 0x04 } else { 0x00 });
    h.push(c.r);
    h.extend_from_slice(&c.af.to_le_bytes());
    h.extend_from_slice(&sp.to_le_bytes());
    h.push(c.im);
    h.push(s.border & 7);
    assert_eq!(h.len(), 27);
    h
}

/// 48K SNA: PC is pushed on the stack inside the RAM image (SP-2 must be RAM).
pub fn write_sna48(s: &SnapState) -> Vec<u8> {
    let mut img = s.clone();
    let sp = s.cpu.sp.wrapping_sub(2);
    img.poke(sp, s.cpu.pc as u8);
    img.poke(sp.wrapping_add(1), (s.cpu.pc >> 8) as u8);
    let mut out = sna_header(s, sp);
    for b in [5usize, 2, 0] {
        out.extend_from_slice(&img.banks[b]);
    }
    out
}

/// 128K SNA: banks 5, 2, n; PC, 7FFD, TR-DOS flag; remaining banks ascending (if n is 5 or 2 the
/// head repeats it and the file is 16 KiB longer).
pub fn write_sna128(s: &SnapState) -> Vec<u8> {
    let n = (s.port_7ffd & 7) as usize;
    let mut out = sna_header(s, s.cpu.sp);
    for b in [5usize, 2, n] {
        out.extend_from_slice(&s.banks[b]);
    }
    out.extend_from_slice(&s.cpu.pc.to_le_bytes());
    out.push(s.port_7ffd);
    out.push(s.sna_trdos);
    for b in 0..8usize {
        if b == 5 || b == 2 || b == n {
            continue;
        }
        out.extend_from_slice(&s.banks[b]);
    }
    out
}

pub fn write_scr(screen: &[u8]) -> Vec<u8> {
    screen[..6912].to_vec()
}

#[derive(Clone, Debug, Default)]
pub struct SzxOptions {
    /// per RAMP chunk: compress with zlib?
    pub compress: Vec<bool>,
    /// order in which chunks are emitted (indices into the canonical list), empty = canonical
    pub order_seed: u64,
    pub unknown_chunks: usize,
    pub with_creator: bool,
    pub with_ay: bool,
    pub with_keyb: bool,
    pub with_mouse: bool,
    /// low three bits of SPCR.chFe (the format guarantees only its MIC/EAR bits 3 and 4, so a
    /// writer may leave anything here); `None` = same as the border
    pub fe_low: Option<u8>,
    /// bits 3 (MIC) and 4 (EAR/speaker) of SPCR.chFe: the output levels at the time of the snapshot
    pub fe_hi: u8,
    /// one more chunk of this many bytes with the id of a standard chunk rustzx does not implement (an
    /// embedded tape or disk image); 0 = none
    pub big_unknown: usize,
    /// `(index of the RAMP chunk, wanted length of its zlib stream)`: that page is written as a hand-made zlib
    /// stream (one stored block followed by a deflated rest) of exactly that many bytes, when the page content
    /// allows it (see `zlib_exact`)
    pub zlib_exact: Option<(usize, usize)>,
    /// header byte 7 (chFlags; bit 0 = "alternate timings" of the writing emulator's model)
    pub hdr_flags: u8,
    /// Z80R.chHoldIntReqCycles as the writer left it (how long its INT line had been held; a reader has its own
    /// interrupt timing and the frame position to go by)
    pub hold_int: u8,
}

fn adler32(data: &[u8]) -> u32 {
    let (mut a, mut b) = (1u32, 0u32);
    for &x in data {
        a = (a + x as u32) % 65521;
        b = (b + a) % 65521;
    }
    (b << 16) | a
}

/// A valid zlib stream for `data` that is exactly `target` bytes long: a non-final stored block holding the
/// first L bytes, then the raw deflate stream of the rest. L is searched; `None` when no L gives the length
/// (the tail of `data` has to be compressible, e.g. zeros from about `target - 64` on).
pub fn zlib_exact(data: &[u8], target: usize) -> Option<Vec<u8>> {
    let lo = target.saturating_sub(96).min(data.len());
    for l in lo..=data.len().min(65535) {
        let rest = miniz_oxide::deflate::compress_to_vec(&data[l..], 6);
        let total = 2 + 5 + l + rest.len() + 4;
        if total == target {
            let mut v = vec![0x78, 0x9C, 0x00];
            v.extend_from_slice(&(l as u16).to_le_bytes());
            v.extend_from_slice(&(!(l as u16)).to_le_bytes());
            v.extend_from_slice(&data[..l]);
            v.extend_from_slice(&rest);
            v.extend_from_slice(&adler32(data).to_be_bytes());
            return Some(v);
        }
        if total > target + 8 {
            break;
        }
    }
    None
}

fn chunk(id: &[u8; 4], data: &[u8]) -> Vec<u8> {
    let mut v = id.to_vec();
    v.extend_from_slice(&(data.len() as u32).to_le_bytes());
    v.extend_from_slice(data);
    v
}

pub fn write_szx(s: &SnapState, opt: &SzxOptions) -> Vec<u8> {
    let c = &s.cpu;
    let mut chunks: Vec<Vec<u8>> = vec![];
    if opt.with_creator {
        let mut d = vec![0u8; 32];
        d[..8].copy_from_slice(b"zxverif ");
        d.extend_from_slice(&1u16.to_le_bytes());
        d.extend_from_slice(&0u16.to_le_bytes());
        d.extend_from_slice(b"custom data");
        chunks.push(chunk(b"CRTR", &d));
    }
    // Z80R
    let mut z = vec![];
    for w in [c.af, c.bc, c.de, c.hl, c.af_, c.bc_, c.de_, c.hl_, c.ix, c.iy, c.sp, c.pc] {
        z.extend_from_slice(&w.to_le_bytes());
    }
    z.push(c.i);
    z.push(c.r);
    z.push(c.iff1 as u8);
    z.push(c.iff2 as u8);
    z.push(c.im);
    z.extend_from_slice(&s.frame_t.to_le_bytes());
    z.push(opt.hold_int); // chHoldIntReqCycles
    let mut flags = 0u8;
    if s.ei_last {
        flags |= 1;
    }
    if s.halted {
        flags |= 2;
    }
    if c.q != 0 {
        flags |= 4;
    }
    z.push(flags);
    z.extend_from_slice(&c.memptr.to_le_bytes());
    assert_eq!(z.len(), 37);
    chunks.push(chunk(b"Z80R", &z));
    // SPCR
    let spcr = [s.border & 7, if s.m128 { s.port_7ffd } else { 0 }, 0, opt.fe_low.map(|x| x & 7).unwrap_or(s.border & 7) | (opt.fe_hi & 0x18), 0, 0, 0, 0];
    chunks.push(chunk(b"SPCR", &spcr));
    // RAMP
    let pages: Vec<usize> = if s.m128 { (0..8).collect() } else { vec![5, 2, 0] };
    for (i, &p) in pages.iter().enumerate() {
        let comp = opt.compress.get(i).copied().unwrap_or(false);
        let mut d = vec![];
        d.extend_from_slice(&(comp as u16).to_le_bytes());
        d.push(p as u8);
        let exact = match opt.zlib_exact {
            Some((idx, target)) if idx == i => zlib_exact(&s.banks[p], target),
            _ => None,
        };
        if let Some(z) = exact {
            d[0] = 1;
            d.extend_from_slice(&z);
        } else if comp {
            d.extend_from_slice(&miniz_oxide::deflate::compress_to_vec_zlib(&s.banks[p], 6));
        } else {
            d.extend_from_slice(&s.banks[p]);
        }
        chunks.push(chunk(b"RAMP", &d));
    }
    if opt.with_ay {
        let mut d = vec![if s.m128 { 0 } else { 2 }, s.ay_sel];
        d.extend_from_slice(&s.ay_regs);
        chunks.push(chunk(b"AY\0\0", &d));
    }
    if opt.with_keyb {
        let mut d = 0u32.to_le_bytes().to_vec();
        d.push(if s.kempston { 1 } else { 8 });
        chunks.push(chunk(b"KEYB", &d));
    }
    if opt.with_mouse {
        let mut d = vec![if s.mouse { 2 } else { 0 }];
        d.extend_from_slice(&[0; 6]);
        chunks.push(chunk(b"AMXM", &d));
    }
    // order: seeded permutation (Fisher-Yates with a small LCG), unknown chunks interleaved
    let mut x = opt.order_seed;
    let mut next = || {
        x = x.wrapping_mul(6364136223846793005).wrapping_add(1442695040888963407);
        (x >> 33) as usize
    };
    if opt.order_seed != 0 {
        for i in (1..chunks.len()).rev() {
            let j = next() % (i + 1);
            chunks.swap(i, j);
        }
    }
    for k in 0..opt.unknown_chunks {
        let id = [b'X', b'U', b'0' + (k % 10) as u8, b'Z'];
        let len = next() % 40;
        let data: Vec<u8> = (0..len).map(|i| (i * 7 + k) as u8).collect();
        let at = next() % (chunks.len() + 1);
        chunks.insert(at, chunk(&id, &data));
    }
    if opt.big_unknown > 0 {
        let id = [*b"TAPE", *b"DSK\0", *b"ROM\0", *b"XUBG"][next() % 4];
        let data: Vec<u8> = (0..opt.big_unknown).map(|i| (i * 13 + 5) as u8).collect();
        let at = next() % (chunks.len() + 1);
        chunks.insert(at, chunk(&id, &data));
    }
    let mut out = b"ZXST".to_vec();
    out.push(1);
    out.push(4);
    out.push(if s.m128 { 2 } else { 1 });
    out.push(opt.hdr_flags);
    for c in chunks {
        out.extend_from_slice(&c);
    }
    out
}
