#![allow(dead_code)]
//! zxverif — deterministic simulation harness with fault injection for rustzx.
//! usage: zxverif <ID> [--tier quick|thorough] [--runs N] [--seed N] [--replay FILE]
//! exit: 0 held, 1 violation (VIOLATION line printed), 2 harness error.

mod alloc_track;
mod cpustate;
mod host;
mod inputs;
mod json;
mod lockstep;
mod machine;
mod prng;
mod props;
mod refcheck;
mod runner;
mod scenario;
mod snapfmt;
mod worlda;

use runner::{Options, Tier, DEFAULT_SEED};

#[global_allocator]
static GLOBAL: alloc_track::Counting = alloc_track::Counting;

fn main() {
    let args: Vec<String> = std::env::args().skip(1).collect();
    if args.is_empty() {
        eprintln!("usage: zxverif <ID>|list [--tier quick|thorough] [--runs N] [--seed N] [--replay FILE]");
        std::process::exit(2);
    }
    let id = args[0].clone();
    if id == "refmodel" {
        runner::install_panic_hook();
        let name = args.get(1).cloned().unwrap_or_else(|| "z80full".to_string());
        std::process::exit(refcheck::run(&name));
    }
    let mut tier = match std::env::var("VERIF_TIER").ok().as_deref() {
        Some("thorough") => Tier::Thorough,
        _ => Tier::Quick,
    };
    let mut seed = std::env::var("VERIF_SEED").ok().and_then(|s| s.trim().parse::<u64>().ok()).unwrap_or(DEFAULT_SEED);
    let mut runs = std::env::var("VERIF_RUNS").ok().and_then(|s| s.parse::<u64>().ok());
    let mut replay: Option<String> = None;
    let mut write_evidence = std::env::var("VERIF_NO_EVIDENCE").is_err();
    let mut i = 1;
    while i < args.len() {
        match args[i].as_str() {
            "--tier" => {
                i += 1;
                tier = if args.get(i).map(|s| s.as_str()) == Some("thorough") { Tier::Thorough } else { Tier::Quick };
            }
            "--runs" => {
                i += 1;
                runs = args.get(i).and_then(|s| s.parse().ok());
            }
            "--seed" => {
                i += 1;
                seed = args.get(i).and_then(|s| s.parse().ok()).unwrap_or(seed);
            }
            "--replay" => {
                i += 1;
                replay = args.get(i).cloned();
            }
            "--no-evidence" => write_evidence = false,
            other => {
                eprintln!("unknown argument {}", other);
                std::process::exit(2);
            }
        }
        i += 1;
    }
    let root = std::env::var("VERIF_ROOT").unwrap_or_else(|_| "/verif".to_string());
    let workers = std::env::var("VERIF_WORKERS")
        .ok()
        .and_then(|s| s.parse().ok())
        .unwrap_or_else(|| std::thread::available_parallelism().map(|n| n.get()).unwrap_or(4).min(16));
    runner::install_panic_hook();
    if id == "list" {
        for p in props::all() {
            println!("{}", p.id());
        }
        return;
    }
    let all = props::all();
    let Some(p) = all.iter().find(|p| p.id() == id) else {
        eprintln!("unknown property {}", id);
        std::process::exit(2);
    };
    let code = if let Some(path) = replay {
        runner::replay(p.as_ref(), &root, &path)
    } else {
        runner::run_property(p.as_ref(), &Options { root, seed, tier, workers, runs_override: runs, write_evidence })
    };
    std::process::exit(code);
}
