//! A scenario is an explicit, self-contained operation list: configuration (name → integer)
//! plus ordered ops (name, integer arguments, optional byte blob). Execution of a scenario is a
//! pure function of the list and the code under test; replay files store the list itself.

use crate::json::{hex, unhex, J};

#[derive(Clone, Debug, PartialEq, Eq)]
pub struct Op {
    pub k: String,
    pub a: Vec<i64>,
    pub b: Vec<u8>,
}

impl Op {
    pub fn new(k: &str, a: &[i64]) -> Op {
        Op { k: k.to_string(), a: a.to_vec(), b: Vec::new() }
    }
    pub fn blob(k: &str, a: &[i64], b: Vec<u8>) -> Op {
        Op { k: k.to_string(), a: a.to_vec(), b }
    }
    pub fn arg(&self, i: usize) -> i64 {
        self.a.get(i).copied().unwrap_or(0)
    }
    pub fn to_json(&self) -> J {
        let mut o = J::obj().set("op", J::s(&self.k)).set("a", J::Arr(self.a.iter().map(|&x| J::i(x)).collect()));
        if !self.b.is_empty() {
            o.put("blob", J::s(&hex(&self.b)));
        }
        o
    }
    pub fn from_json(j: &J) -> Result<Op, String> {
        let k = j.get("op").and_then(|x| x.as_str()).ok_or("op missing")?.to_string();
        let a = j
            .get("a")
            .and_then(|x| x.as_arr())
            .map(|v| v.iter().filter_map(|x| x.as_i64()).collect())
            .unwrap_or_default();
        let b = match j.get("blob").and_then(|x| x.as_str()) {
            Some(h) => unhex(h)?,
            None => Vec::new(),
        };
        Ok(Op { k, a, b })
    }
    /// short human-readable form for evidence samples
    pub fn brief(&self) -> String {
        let args: Vec<String> = self.a.iter().map(|x| x.to_string()).collect();
        if self.b.is_empty() {
            format!("{}({})", self.k, args.join(","))
        } else {
            format!("{}({};blob[{}])", self.k, args.join(","), self.b.len())
        }
    }
}

#[derive(Clone, Debug, PartialEq, Eq, Default)]
pub struct Scenario {
    pub cfg: Vec<(String, i64)>,
    pub ops: Vec<Op>,
}

impl Scenario {
    pub fn new() -> Scenario {
        Scenario::default()
    }
    pub fn set(&mut self, k: &str, v: i64) -> &mut Self {
        if let Some(e) = self.cfg.iter_mut().find(|e| e.0 == k) {
            e.1 = v;
        } else {
            self.cfg.push((k.to_string(), v));
        }
        self
    }
    pub fn get(&self, k: &str) -> i64 {
        self.cfg.iter().find(|e| e.0 == k).map(|e| e.1).unwrap_or(0)
    }
    pub fn get_or(&self, k: &str, d: i64) -> i64 {
        self.cfg.iter().find(|e| e.0 == k).map(|e| e.1).unwrap_or(d)
    }
    pub fn push(&mut self, op: Op) {
        self.ops.push(op);
    }
    pub fn op(&mut self, k: &str, a: &[i64]) {
        self.ops.push(Op::new(k, a));
    }
    pub fn to_json(&self) -> J {
        J::obj()
            .set("config", J::Obj(self.cfg.iter().map(|(k, v)| (k.clone(), J::i(*v))).collect()))
            .set("ops", J::Arr(self.ops.iter().map(|o| o.to_json()).collect()))
    }
    pub fn from_json(j: &J) -> Result<Scenario, String> {
        let mut s = Scenario::new();
        if let Some(J::Obj(o)) = j.get("config") {
            for (k, v) in o {
                s.cfg.push((k.clone(), v.as_i64().ok_or("config value not integer")?));
            }
        }
        for o in j.get("ops").and_then(|x| x.as_arr()).ok_or("ops missing")? {
            s.ops.push(Op::from_json(o)?);
        }
        Ok(s)
    }
    /// compact rendering (bounded) for evidence samples
    pub fn brief(&self, max_ops: usize) -> J {
        let cfg: Vec<String> = self.cfg.iter().map(|(k, v)| format!("{}={}", k, v)).collect();
        let mut ops: Vec<J> = self.ops.iter().take(max_ops).map(|o| J::s(&o.brief())).collect();
        if self.ops.len() > max_ops {
            ops.push(J::s(&format!("... {} more ops", self.ops.len() - max_ops)));
        }
        J::obj().set("config", J::s(&cfg.join(" "))).set("ops", J::Arr(ops))
    }
}

/// Generic delta-debugging style minimiser over a scenario. `fails` re-executes a candidate and
/// says whether it still fails *at the same site*. Bounded by `budget` re-executions.
pub fn minimise(sc: &Scenario, budget: usize, fails: &mut dyn FnMut(&Scenario) -> bool) -> (Scenario, usize) {
    let mut best = sc.clone();
    let mut used = 0usize;
    let mut try_cand = |cand: &Scenario, used: &mut usize| -> bool {
        if *used >= budget {
            return false;
        }
        *used += 1;
        fails(cand)
    };
    // 1. drop chunks of ops (ddmin), from large to single
    let mut chunk = (best.ops.len() + 1) / 2;
    while chunk >= 1 && used < budget {
        let mut i = 0;
        let mut progress = false;
        while i < best.ops.len() && used < budget {
            let end = (i + chunk).min(best.ops.len());
            let mut cand = best.clone();
            cand.ops.drain(i..end);
            if try_cand(&cand, &mut used) {
                best = cand;
                progress = true;
            } else {
                i += chunk;
            }
        }
        if chunk == 1 && !progress {
            break;
        }
        if chunk > 1 {
            chunk /= 2;
        } else if !progress {
            break;
        }
    }
    // 2. shrink blobs (halve length, then zero bytes)
    for idx in 0..best.ops.len() {
        loop {
            if used >= budget || best.ops[idx].b.len() <= 1 {
                break;
            }
            let mut cand = best.clone();
            let n = cand.ops[idx].b.len() / 2;
            cand.ops[idx].b.truncate(n);
            if try_cand(&cand, &mut used) {
                best = cand;
            } else {
                break;
            }
        }
    }
    // 3. shrink integer arguments towards 0 (binary steps)
    for idx in 0..best.ops.len() {
        for ai in 0..best.ops[idx].a.len() {
            let mut guard = 0;
            while used < budget && best.ops[idx].a[ai] != 0 && guard < 8 {
                guard += 1;
                let v = best.ops[idx].a[ai];
                let mut cand = best.clone();
                cand.ops[idx].a[ai] = if guard == 1 { 0 } else { v / 2 };
                if try_cand(&cand, &mut used) {
                    best = cand;
                } else if guard > 1 {
                    break;
                }
            }
        }
    }
    (best, used)
}
