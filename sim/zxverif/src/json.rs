//! Minimal JSON value, writer and parser (replay files, evidence files, known findings).
//! Hand written so that the harness adds nothing to the lock file.

#[derive(Clone, Debug, PartialEq)]
pub enum J {
    Null,
    Bool(bool),
    Int(i64),
    Num(f64),
    Str(String),
    Arr(Vec<J>),
    Obj(Vec<(String, J)>),
}

impl J {
    pub fn obj() -> J {
        J::Obj(Vec::new())
    }
    pub fn set(mut self, k: &str, v: J) -> J {
        if let J::Obj(ref mut o) = self {
            if let Some(e) = o.iter_mut().find(|e| e.0 == k) {
                e.1 = v;
            } else {
                o.push((k.to_string(), v));
            }
        }
        self
    }
    pub fn put(&mut self, k: &str, v: J) {
        if let J::Obj(ref mut o) = self {
            if let Some(e) = o.iter_mut().find(|e| e.0 == k) {
                e.1 = v;
            } else {
                o.push((k.to_string(), v));
            }
        }
    }
    pub fn get(&self, k: &str) -> Option<&J> {
        match self {
            J::Obj(o) => o.iter().find(|e| e.0 == k).map(|e| &e.1),
            _ => None,
        }
    }
    pub fn as_i64(&self) -> Option<i64> {
        match self {
            J::Int(i) => Some(*i),
            J::Num(f) => Some(*f as i64),
            _ => None,
        }
    }
    pub fn as_str(&self) -> Option<&str> {
        match self {
            J::Str(s) => Some(s),
            _ => None,
        }
    }
    pub fn as_arr(&self) -> Option<&[J]> {
        match self {
            J::Arr(a) => Some(a),
            _ => None,
        }
    }
    pub fn s(v: &str) -> J {
        J::Str(v.to_string())
    }
    pub fn i(v: i64) -> J {
        J::Int(v)
    }
    pub fn u(v: u64) -> J {
        J::Int(v as i64)
    }

    pub fn to_string_pretty(&self) -> String {
        let mut s = String::new();
        self.write(&mut s, 0, true);
        s.push('\n');
        s
    }
    pub fn to_string_compact(&self) -> String {
        let mut s = String::new();
        self.write(&mut s, 0, false);
        s
    }

    fn write(&self, out: &mut String, ind: usize, pretty: bool) {
        match self {
            J::Null => out.push_str("null"),
            J::Bool(b) => out.push_str(if *b { "true" } else { "false" }),
            J::Int(i) => out.push_str(&i.to_string()),
            J::Num(f) => {
                if f.is_finite() {
                    let s = format!("{}", f);
                    out.push_str(&s);
                    if !s.contains('.') && !s.contains('e') && !s.contains('E') {
                        out.push_str(".0");
                    }
                } else {
                    out.push_str("null");
                }
            }
            J::Str(s) => write_str(out, s),
            J::Arr(a) => {
                // arrays of scalars stay on one line
                let scalar = a.iter().all(|x| !matches!(x, J::Arr(_) | J::Obj(_)));
                out.push('[');
                for (i, x) in a.iter().enumerate() {
                    if i > 0 {
                        out.push(',');
                    }
                    if pretty && !scalar {
                        out.push('\n');
                        out.push_str(&" ".repeat(ind + 1));
                    }
                    x.write(out, ind + 1, pretty && !scalar);
                }
                if pretty && !scalar && !a.is_empty() {
                    out.push('\n');
                    out.push_str(&" ".repeat(ind));
                }
                out.push(']');
            }
            J::Obj(o) => {
                out.push('{');
                for (i, (k, v)) in o.iter().enumerate() {
                    if i > 0 {
                        out.push(',');
                    }
                    if pretty {
                        out.push('\n');
                        out.push_str(&" ".repeat(ind + 1));
                    }
                    write_str(out, k);
                    out.push(':');
                    if pretty {
                        out.push(' ');
                    }
                    v.write(out, ind + 1, pretty);
                }
                if pretty && !o.is_empty() {
                    out.push('\n');
                    out.push_str(&" ".repeat(ind));
                }
                out.push('}');
            }
        }
    }

    pub fn parse(text: &str) -> Result<J, String> {
        let b = text.as_bytes();
        let mut p = 0usize;
        let v = parse_value(b, &mut p)?;
        skip_ws(b, &mut p);
        if p != b.len() {
            return Err(format!("trailing data at {}", p));
        }
        Ok(v)
    }
}

fn write_str(out: &mut String, s: &str) {
    out.push('"');
    for c in s.chars() {
        match c {
            '"' => out.push_str("\\\""),
            '\\' => out.push_str("\\\\"),
            '\n' => out.push_str("\\n"),
            '\r' => out.push_str("\\r"),
            '\t' => out.push_str("\\t"),
            c if (c as u32) < 0x20 => out.push_str(&format!("\\u{:04x}", c as u32)),
            c => out.push(c),
        }
    }
    out.push('"');
}

fn skip_ws(b: &[u8], p: &mut usize) {
    while *p < b.len() && matches!(b[*p], b' ' | b'\n' | b'\r' | b'\t') {
        *p += 1;
    }
}

fn parse_value(b: &[u8], p: &mut usize) -> Result<J, String> {
    skip_ws(b, p);
    if *p >= b.len() {
        return Err("unexpected end".into());
    }
    match b[*p] {
        b'n' => lit(b, p, "null", J::Null),
        b't' => lit(b, p, "true", J::Bool(true)),
        b'f' => lit(b, p, "false", J::Bool(false)),
        b'"' => Ok(J::Str(parse_str(b, p)?)),
        b'[' => {
            *p += 1;
            let mut a = Vec::new();
            skip_ws(b, p);
            if *p < b.len() && b[*p] == b']' {
                *p += 1;
                return Ok(J::Arr(a));
            }
            loop {
                a.push(parse_value(b, p)?);
                skip_ws(b, p);
                match b.get(*p) {
                    Some(b',') => *p += 1,
                    Some(b']') => {
                        *p += 1;
                        return Ok(J::Arr(a));
                    }
                    _ => return Err(format!("expected , or ] at {}", p)),
                }
            }
        }
        b'{' => {
            *p += 1;
            let mut o = Vec::new();
            skip_ws(b, p);
            if *p < b.len() && b[*p] == b'}' {
                *p += 1;
                return Ok(J::Obj(o));
            }
            loop {
                skip_ws(b, p);
                let k = parse_str(b, p)?;
                skip_ws(b, p);
                if b.get(*p) != Some(&b':') {
                    return Err(format!("expected : at {}", p));
                }
                *p += 1;
                let v = parse_value(b, p)?;
                o.push((k, v));
                skip_ws(b, p);
                match b.get(*p) {
                    Some(b',') => *p += 1,
                    Some(b'}') => {
                        *p += 1;
                        return Ok(J::Obj(o));
                    }
                    _ => return Err(format!("expected , or }} at {}", p)),
                }
            }
        }
        _ => {
            let st = *p;
            while *p < b.len() && matches!(b[*p], b'-' | b'+' | b'.' | b'e' | b'E' | b'0'..=b'9') {
                *p += 1;
            }
            let t = std::str::from_utf8(&b[st..*p]).map_err(|e| e.to_string())?;
            if let Ok(i) = t.parse::<i64>() {
                Ok(J::Int(i))
            } else {
                t.parse::<f64>().map(J::Num).map_err(|_| format!("bad number '{}' at {}", t, st))
            }
        }
    }
}

fn lit(b: &[u8], p: &mut usize, w: &str, v: J) -> Result<J, String> {
    if b[*p..].starts_with(w.as_bytes()) {
        *p += w.len();
        Ok(v)
    } else {
        Err(format!("bad literal at {}", p))
    }
}

fn parse_str(b: &[u8], p: &mut usize) -> Result<String, String> {
    if b.get(*p) != Some(&b'"') {
        return Err(format!("expected string at {}", p));
    }
    *p += 1;
    let mut out: Vec<u8> = Vec::new();
    while *p < b.len() {
        match b[*p] {
            b'"' => {
                *p += 1;
                return String::from_utf8(out).map_err(|e| e.to_string());
            }
            b'\\' => {
                *p += 1;
                match b.get(*p) {
                    Some(b'n') => out.push(b'\n'),
                    Some(b'r') => out.push(b'\r'),
                    Some(b't') => out.push(b'\t'),
                    Some(b'b') => out.push(8),
                    Some(b'f') => out.push(12),
                    Some(b'u') => {
                        let h = std::str::from_utf8(&b[*p + 1..*p + 5]).map_err(|e| e.to_string())?;
                        let c = u32::from_str_radix(h, 16).map_err(|e| e.to_string())?;
                        let ch = char::from_u32(c).unwrap_or('?');
                        let mut tmp = [0u8; 4];
                        out.extend_from_slice(ch.encode_utf8(&mut tmp).as_bytes());
                        *p += 4;
                    }
                    Some(&c) => out.push(c),
                    None => return Err("bad escape".into()),
                }
                *p += 1;
            }
            c => {
                out.push(c);
                *p += 1;
            }
        }
    }
    Err("unterminated string".into())
}

pub fn hex(b: &[u8]) -> String {
    let mut s = String::with_capacity(b.len() * 2);
    for x in b {
        s.push_str(&format!("{:02x}", x));
    }
    s
}

pub fn unhex(s: &str) -> Result<Vec<u8>, String> {
    if s.len() % 2 != 0 {
        return Err("odd hex length".into());
    }
    (0..s.len() / 2)
        .map(|i| u8::from_str_radix(&s[2 * i..2 * i + 2], 16).map_err(|e| e.to_string()))
        .collect()
}
