//! Seed derivation (SplitMix64) and the per-run generator (xoshiro256**).
//! Every random choice of a run is drawn from one `Rng` seeded from
//! mix(VERIF_SEED, fnv(property), run index). Logging never draws from it.

#[derive(Clone, Debug)]
pub struct Rng {
    s: [u64; 4],
}

pub fn splitmix(x: &mut u64) -> u64 {
    *x = x.wrapping_add(0x9E37_79B9_7F4A_7C15);
    let mut z = *x;
    z = (z ^ (z >> 30)).wrapping_mul(0xBF58_476D_1CE4_E5B9);
    z = (z ^ (z >> 27)).wrapping_mul(0x94D0_49BB_1331_11EB);
    z ^ (z >> 31)
}

pub fn fnv(s: &str) -> u64 {
    fnv_bytes(s.as_bytes())
}

pub fn fnv_bytes(b: &[u8]) -> u64 {
    let mut h: u64 = 0xcbf2_9ce4_8422_2325;
    for &c in b {
        h ^= c as u64;
        h = h.wrapping_mul(0x0000_0100_0000_01B3);
    }
    h
}

/// Incremental FNV-1a hasher for state / history hashing (order sensitive).
#[derive(Clone, Copy)]
pub struct Fnv(pub u64);
impl Default for Fnv {
    fn default() -> Self {
        Fnv(0xcbf2_9ce4_8422_2325)
    }
}
impl Fnv {
    pub fn new() -> Self {
        Self::default()
    }
    #[inline]
    pub fn u8(&mut self, v: u8) {
        self.0 ^= v as u64;
        self.0 = self.0.wrapping_mul(0x0000_0100_0000_01B3);
    }
    pub fn bytes(&mut self, b: &[u8]) {
        for &c in b {
            self.u8(c);
        }
    }
    pub fn u16(&mut self, v: u16) {
        self.bytes(&v.to_le_bytes());
    }
    pub fn u32(&mut self, v: u32) {
        self.bytes(&v.to_le_bytes());
    }
    pub fn u64(&mut self, v: u64) {
        self.bytes(&v.to_le_bytes());
    }
    pub fn str(&mut self, s: &str) {
        self.bytes(s.as_bytes());
        self.u8(0xFF);
    }
    pub fn get(&self) -> u64 {
        self.0
    }
}

pub fn run_seed(verif_seed: u64, prop: &str, run: u64) -> u64 {
    let mut x = verif_seed ^ fnv(prop).rotate_left(17) ^ run.wrapping_mul(0xD6E8_FEB8_6659_FD93);
    let a = splitmix(&mut x);
    let b = splitmix(&mut x);
    a ^ b.rotate_left(31)
}

impl Rng {
    pub fn new(seed: u64) -> Self {
        let mut x = seed;
        let s = [splitmix(&mut x), splitmix(&mut x), splitmix(&mut x), splitmix(&mut x)];
        Rng { s }
    }
    #[inline]
    pub fn next(&mut self) -> u64 {
        let r = self.s[1].wrapping_mul(5).rotate_left(7).wrapping_mul(9);
        let t = self.s[1] << 17;
        self.s[2] ^= self.s[0];
        self.s[3] ^= self.s[1];
        self.s[1] ^= self.s[2];
        self.s[0] ^= self.s[3];
        self.s[2] ^= t;
        self.s[3] = self.s[3].rotate_left(45);
        r
    }
    /// uniform in [0, n)
    #[inline]
    pub fn below(&mut self, n: u64) -> u64 {
        if n <= 1 {
            return 0;
        }
        ((self.next() >> 11) as u128 * n as u128 >> 53) as u64
    }
    /// uniform in [lo, hi] inclusive
    pub fn range(&mut self, lo: i64, hi: i64) -> i64 {
        debug_assert!(lo <= hi);
        lo + self.below((hi - lo) as u64 + 1) as i64
    }
    pub fn u8(&mut self) -> u8 {
        (self.next() >> 32) as u8
    }
    pub fn u16(&mut self) -> u16 {
        (self.next() >> 32) as u16
    }
    pub fn bool(&mut self) -> bool {
        self.next() >> 63 == 1
    }
    /// true with probability num/den
    pub fn chance(&mut self, num: u64, den: u64) -> bool {
        self.below(den) < num
    }
    pub fn pick<'a, T>(&mut self, xs: &'a [T]) -> &'a T {
        &xs[self.below(xs.len() as u64) as usize]
    }
    /// index drawn according to integer weights
    pub fn weighted(&mut self, w: &[u32]) -> usize {
        let total: u64 = w.iter().map(|&x| x as u64).sum();
        let mut r = self.below(total.max(1));
        for (i, &x) in w.iter().enumerate() {
            if r < x as u64 {
                return i;
            }
            r -= x as u64;
        }
        w.len() - 1
    }
    pub fn fill(&mut self, buf: &mut [u8]) {
        let mut chunks = buf.chunks_exact_mut(8);
        for c in &mut chunks {
            c.copy_from_slice(&self.next().to_le_bytes());
        }
        let rest = chunks.into_remainder();
        if !rest.is_empty() {
            let v = self.next().to_le_bytes();
            rest.copy_from_slice(&v[..rest.len()]);
        }
    }
    pub fn bytes(&mut self, n: usize) -> Vec<u8> {
        let mut v = vec![0u8; n];
        self.fill(&mut v);
        v
    }
    /// derive an independent child generator (does not depend on how much the parent is used later)
    pub fn fork(&mut self) -> Rng {
        Rng::new(self.next())
    }
}
