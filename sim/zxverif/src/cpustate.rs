//! Architectural + hidden CPU state in a neutral form, extracted from the implementation's `Z80`
//! through its public API and from `RefZ80`; injection in both directions.

use rustzx_z80::{RegName16, RegName8, Z80};
use zxref::z80::RefZ80;

#[derive(Clone, Debug, PartialEq, Eq, Default)]
pub struct CpuState {
    pub af: u16,
    pub bc: u16,
    pub de: u16,
    pub hl: u16,
    pub af_: u16,
    pub bc_: u16,
    pub de_: u16,
    pub hl_: u16,
    pub ix: u16,
    pub iy: u16,
    pub sp: u16,
    pub pc: u16,
    pub i: u8,
    pub r: u8,
    pub iff1: bool,
    pub iff2: bool,
    pub im: u8,
    pub halted: bool,
    pub memptr: u16,
    pub q: u8,
    /// next boundary is not sampled (EI/DI just executed)
    pub no_sample: bool,
}

impl CpuState {
    /// Reads the complete state of the implementation CPU (alternate set through a swap round
    /// trip, Q through a step_q round trip). Leaves the CPU unchanged.
    pub fn from_impl(cpu: &mut Z80) -> CpuState {
        let im = u8::from(cpu.get_im());
        let halted = cpu.halted;
        let no_sample = cpu.skip_interrupt;
        let r = &mut cpu.regs;
        let af = r.get_af();
        let bc = r.get_bc();
        let de = r.get_de();
        let hl = r.get_hl();
        // Q: step_q moves q into last_q; restore afterwards
        r.step_q();
        let q = r.get_last_q();
        let f = r.get_flags();
        if q != 0 {
            r.set_flags(q);
            r.set_reg_8(RegName8::F, f);
        }
        r.swap_af_alt();
        r.exx();
        let af_ = r.get_af();
        let bc_ = r.get_bc();
        let de_ = r.get_de();
        let hl_ = r.get_hl();
        r.exx();
        r.swap_af_alt();
        CpuState {
            af,
            bc,
            de,
            hl,
            af_,
            bc_,
            de_,
            hl_,
            ix: r.get_ix(),
            iy: r.get_iy(),
            sp: r.get_sp(),
            pc: r.get_pc(),
            i: r.get_i(),
            r: r.get_r(),
            iff1: r.get_iff1(),
            iff2: r.get_iff2(),
            im,
            halted,
            memptr: r.get_mem_ptr(),
            q,
            no_sample,
        }
    }

    /// Writes the state into the implementation CPU (public API only).
    pub fn to_impl(&self, cpu: &mut Z80) {
        let r = &mut cpu.regs;
        // alternates first (through the swaps)
        r.set_reg_16(RegName16::AF, self.af_);
        r.set_bc(self.bc_);
        r.set_de(self.de_);
        r.set_hl(self.hl_);
        r.swap_af_alt();
        r.exx();
        r.set_bc(self.bc);
        r.set_de(self.de);
        r.set_hl(self.hl);
        r.set_ix(self.ix);
        r.set_iy(self.iy);
        r.set_sp(self.sp);
        r.set_pc(self.pc);
        r.set_i(self.i);
        r.set_r(self.r);
        r.set_iff1(self.iff1);
        r.set_iff2(self.iff2);
        r.set_mem_ptr(self.memptr);
        // (F, Q): set_flags latches q := f; then F is overwritten without touching q
        r.set_acc((self.af >> 8) as u8);
        if self.q != 0 {
            r.set_flags(self.q);
        } else {
            r.clear_q();
        }
        r.set_reg_8(RegName8::F, self.af as u8);
        if self.q == 0 {
            r.clear_q();
        }
        cpu.set_im(self.im.min(2));
        cpu.halted = self.halted;
        cpu.skip_interrupt = self.no_sample;
    }

    pub fn from_ref(z: &RefZ80) -> CpuState {
        let w = |h: u8, l: u8| ((h as u16) << 8) | l as u16;
        CpuState {
            af: w(z.a, z.f),
            bc: w(z.b, z.c),
            de: w(z.d, z.e),
            hl: w(z.h, z.l),
            af_: w(z.a_alt, z.f_alt),
            bc_: w(z.b_alt, z.c_alt),
            de_: w(z.d_alt, z.e_alt),
            hl_: w(z.h_alt, z.l_alt),
            ix: z.ix,
            iy: z.iy,
            sp: z.sp,
            pc: z.pc,
            i: z.i,
            r: z.r,
            iff1: z.iff1,
            iff2: z.iff2,
            im: z.im,
            halted: z.halted,
            memptr: z.memptr,
            q: z.q,
            no_sample: z.no_sample,
        }
    }

    pub fn to_ref(&self) -> RefZ80 {
        RefZ80 {
            a: (self.af >> 8) as u8,
            f: self.af as u8,
            b: (self.bc >> 8) as u8,
            c: self.bc as u8,
            d: (self.de >> 8) as u8,
            e: self.de as u8,
            h: (self.hl >> 8) as u8,
            l: self.hl as u8,
            a_alt: (self.af_ >> 8) as u8,
            f_alt: self.af_ as u8,
            b_alt: (self.bc_ >> 8) as u8,
            c_alt: self.bc_ as u8,
            d_alt: (self.de_ >> 8) as u8,
            e_alt: self.de_ as u8,
            h_alt: (self.hl_ >> 8) as u8,
            l_alt: self.hl_ as u8,
            ix: self.ix,
            iy: self.iy,
            sp: self.sp,
            pc: self.pc,
            i: self.i,
            r: self.r,
            iff1: self.iff1,
            iff2: self.iff2,
            im: self.im,
            halted: self.halted,
            memptr: self.memptr,
            q: self.q,
            no_sample: self.no_sample,
        }
    }

    /// First differing field as `(name, impl value, ref value)`; `mask_f` masks F bits that are
    /// don't-care for this comparison.
    pub fn diff(&self, other: &CpuState, mask_f: u8) -> Option<(&'static str, u32, u32)> {
        macro_rules! cmp {
            ($f:ident, $n:expr) => {
                if self.$f != other.$f {
                    return Some(($n, self.$f as u32, other.$f as u32));
                }
            };
        }
        let m = !(mask_f as u16);
        if (self.af & m) != (other.af & m) {
            return Some(("af", self.af as u32, other.af as u32));
        }
        cmp!(bc, "bc");
        cmp!(de, "de");
        cmp!(hl, "hl");
        cmp!(af_, "af'");
        cmp!(bc_, "bc'");
        cmp!(de_, "de'");
        cmp!(hl_, "hl'");
        cmp!(ix, "ix");
        cmp!(iy, "iy");
        cmp!(sp, "sp");
        cmp!(pc, "pc");
        cmp!(i, "i");
        cmp!(r, "r");
        cmp!(iff1, "iff1");
        cmp!(iff2, "iff2");
        cmp!(im, "im");
        cmp!(halted, "halted");
        cmp!(memptr, "memptr");
        if (self.q & !mask_f) != (other.q & !mask_f) {
            return Some(("q", self.q as u32, other.q as u32));
        }
        cmp!(no_sample, "no_sample");
        None
    }

    pub fn hash_into(&self, h: &mut crate::prng::Fnv) {
        for v in [self.af, self.bc, self.de, self.hl, self.af_, self.bc_, self.de_, self.hl_, self.ix, self.iy, self.sp, self.pc, self.memptr] {
            h.u16(v);
        }
        for v in [self.i, self.r, self.iff1 as u8, self.iff2 as u8, self.im, self.halted as u8, self.q, self.no_sample as u8] {
            h.u8(v);
        }
    }

    pub fn random(rng: &mut crate::prng::Rng) -> CpuState {
        let mut s = CpuState {
            af: rng.u16(),
            bc: rng.u16(),
            de: rng.u16(),
            hl: rng.u16(),
            af_: rng.u16(),
            bc_: rng.u16(),
            de_: rng.u16(),
            hl_: rng.u16(),
            ix: rng.u16(),
            iy: rng.u16(),
            sp: rng.u16(),
            pc: rng.u16(),
            i: rng.u8(),
            r: rng.u8(),
            iff1: rng.bool(),
            iff2: rng.bool(),
            im: rng.below(3) as u8,
            halted: false,
            memptr: rng.u16(),
            q: 0,
            no_sample: false,
        };
        // values real programs meet far more often than uniform draws do: limits of the ranges, and
        // two registers holding the same value
        const EDGE: [u16; 12] = [0x0000, 0x0001, 0x00FF, 0x0100, 0x7FFF, 0x8000, 0xFFFE, 0xFFFF, 0xFF00, 0x0080, 0x3FFF, 0x4000];
        for k in 0..8 {
            let v = if rng.chance(1, 8) {
                Some(*rng.pick(&EDGE))
            } else if rng.chance(1, 16) {
                Some(*rng.pick(&[s.bc, s.de, s.hl, s.ix, s.iy, s.sp]))
            } else if rng.chance(1, 16) {
                // neighbours: the overlapping block copy (DE = HL + 1), a stack next to a table, ...
                let base = *rng.pick(&[s.bc, s.de, s.hl, s.sp]);
                Some(base.wrapping_add(*rng.pick(&[1u16, 0xFFFF, 2, 0xFFFE])))
            } else {
                None
            };
            if let Some(v) = v {
                match k {
                    0 => s.bc = v,
                    1 => s.de = v,
                    2 => s.hl = v,
                    3 => s.ix = v,
                    4 => s.iy = v,
                    5 => s.sp = v,
                    6 => s.af = (s.af & 0x00FF) | (v << 8),
                    _ => s.hl_ = v,
                }
            }
        }
        // Q is either 0 or equal to F (the only values it can take at a boundary)
        if rng.bool() {
            s.q = s.af as u8;
        }
        s
    }

    pub fn to_ops(&self) -> Vec<i64> {
        vec![
            self.af as i64,
            self.bc as i64,
            self.de as i64,
            self.hl as i64,
            self.af_ as i64,
            self.bc_ as i64,
            self.de_ as i64,
            self.hl_ as i64,
            self.ix as i64,
            self.iy as i64,
            self.sp as i64,
            self.pc as i64,
            self.i as i64,
            self.r as i64,
            self.iff1 as i64,
            self.iff2 as i64,
            self.im as i64,
            self.halted as i64,
            self.memptr as i64,
            self.q as i64,
            self.no_sample as i64,
        ]
    }

    pub fn from_ops(a: &[i64]) -> CpuState {
        let g = |i: usize| a.get(i).copied().unwrap_or(0);
        CpuState {
            af: g(0) as u16,
            bc: g(1) as u16,
            de: g(2) as u16,
            hl: g(3) as u16,
            af_: g(4) as u16,
            bc_: g(5) as u16,
            de_: g(6) as u16,
            hl_: g(7) as u16,
            ix: g(8) as u16,
            iy: g(9) as u16,
            sp: g(10) as u16,
            pc: g(11) as u16,
            i: g(12) as u8,
            r: g(13) as u8,
            iff1: g(14) != 0,
            iff2: g(15) != 0,
            im: (g(16) as u8).min(2),
            halted: g(17) != 0,
            memptr: g(18) as u16,
            q: g(19) as u8,
            no_sample: g(20) != 0,
        }
    }
}
