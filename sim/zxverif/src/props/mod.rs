//! One module per property.
use crate::runner::Property;

pub mod c12;

pub fn all() -> Vec<Box<dyn Property>> {
    vec![Box::new(c12::C12)]
}
