//! C10 — fast tape loading leaves the machine exactly as the ROM loader would.
//! World B: seeded TAP images and request sequences (A, carry, IX, DE) issued as direct calls of
//! the ROM routine; result compared with `RefLdBytes`; a request with no block left must behave
//! like a silent tape (twin machine with no tape inserted).

use crate::host::*;
use crate::machine::*;
use crate::prng::{Fnv, Rng};
use crate::runner::{Fail, Property, RunCtx, Tier};
use crate::scenario::{Op, Scenario};
use rustzx_core::host::Tape;
use rustzx_z80::Z80Bus;
use zxref::ldbytes::ld_bytes;
use zxref::tape;

pub struct C10;

pub const LENS: [usize; 26] = [0, 1, 2, 3, 17, 18, 19, 20, 126, 127, 128, 129, 130, 131, 254, 255, 256, 257, 258, 259, 384, 385, 512, 1000, 1024, 6912];

pub fn gen_block(rng: &mut Rng) -> Vec<u8> {
    let len = if rng.chance(1, 40) {
        // the largest blocks a TAP length field can describe
        *rng.pick(&[32767usize, 32768, 65534, 65535])
    } else if rng.chance(1, 12) {
        rng.range(0, 20000) as usize
    } else {
        *rng.pick(&LENS)
    };
    let flag = match rng.below(4) {
        0 => 0x00,
        1 => 0xFF,
        _ => rng.u8(),
    };
    if len == 0 {
        return vec![];
    }
    let mut b = vec![flag];
    let payload_len = len.saturating_sub(2);
    let payload = match rng.below(3) {
        0 => vec![rng.u8(); payload_len],
        _ => rng.bytes(payload_len),
    };
    b.extend_from_slice(&payload);
    if len >= 2 {
        let x = b.iter().fold(0u8, |a, &v| a ^ v);
        b.push(if rng.chance(1, 5) { x ^ (1 << rng.below(8)) } else { x });
    }
    b
}

/// the other CPU address (if any) that shows the same RAM byte as `addr` when `top` is paged at 0xC000
fn alias(addr: u16, top: u8) -> Option<u16> {
    let (w, off) = (addr >> 14, addr & 0x3FFF);
    match (w, top) {
        (1, 5) | (2, 2) => Some(0xC000 | off),
        (3, 5) => Some(0x4000 | off),
        (3, 2) => Some(0x8000 | off),
        _ => None,
    }
}

fn pick_sp(ix: u16, de: u16, blen: usize, top: u8) -> u16 {
    // a RAM stack that the load area [ix, ix+de+1] does not touch, neither directly nor through the
    // second window onto the same bank (128K with bank 5 or 2 paged at 0xC000)
    for cand in [0xBFF0u16, 0x9FF0, 0x7FF0, 0x5FF0, 0xFF80, 0xDFF0] {
        let span = (de as u32 + 2).min(blen as u32 + 2);
        let clash_at = |c: u16| -> bool {
            let lo = c.wrapping_sub(24);
            let hi = c.wrapping_add(4);
            if span >= 0xFF00 {
                return true;
            }
            let off_lo = lo.wrapping_sub(ix) as u32;
            let off_hi = hi.wrapping_sub(ix) as u32;
            off_lo < span || off_hi < span || off_lo > off_hi
        };
        let mut clash = clash_at(cand);
        if let Some(a) = alias(cand, top) {
            clash |= clash_at(a);
        }
        if !clash {
            return cand;
        }
    }
    0
}

impl Property for C10 {
    fn id(&self) -> &'static str {
        "C10"
    }
    fn runs(&self, tier: Tier) -> u64 {
        match tier {
            Tier::Quick => 3_000,
            Tier::Thorough => 150_000,
        }
    }
    fn rule(&self) -> &'static str {
        "per run: TAP image of 0..6 blocks (lengths from {0,1,2,17..20,126..131,254..259,1000,6912,random<=20000}, flag 0x00/0xFF/random, checksum right or wrong), delivered by a chunking asset (short reads only), then 1..8 LD-BYTES requests (A matching or not, LOAD/VERIFY, IX anywhere incl. ROM, screen and 0xFFF0 wrap, DE from the same length set incl. 0 and D=0xFF, VERIFY against pre-stored or foreign bytes), continuing past the end of the tape, the host rewinding the deck between requests (also after the end was hit); both machines (128K with the 48K BASIC ROM paged in by a seeded paging history: any bank at 0xC000, via ROM 0, locked, locked followed by ignored writes, paging writes between requests); distinct = (block-length class, DE vs block length relation, LOAD/VERIFY, flag match, outcome)"
    }
    fn state_measure(&self) -> &'static str {
        "distinct (blocks left on tape, outcome: success / flag mismatch / parity error / short block / verify mismatch / no block) pairs"
    }
    fn real_components(&self) -> Vec<&'static str> {
        vec!["Emulator fast-load trap (pc_callback at 0x056B, process_fast_load_event, fastload::tap::fast_load_tap)", "Tap::next_block / next_block_byte (128-byte buffer refill)", "48K ROM code from 0x0556 to the trap and SA/LD-RET", "Z80"]
    }
    fn stub_components(&self) -> Vec<&'static str> {
        vec!["tape asset (chunking SimAsset)", "RefLdBytes (zxref::ldbytes)", "twin emulator with no tape inserted"]
    }
    fn assumptions(&self) -> Vec<&'static str> {
        vec![
            "RefLdBytes models the ROM routine from its disassembly (DESIGN appendix B); it is cross-validated against the real ROM code running in real time by C11's system-level twin check",
            "the 24 bytes below the caller's SP and IFF1 are masked (the ROM's own stack traffic / EI on exit)",
            "a request that would hit a block whose bytes are missing from the file (truncated tail) may also fail with a host-visible error",
        ]
    }
    fn expected_probes(&self) -> Vec<&'static str> {
        vec!["success", "flag_mismatch", "parity_error", "short_block", "long_block", "verify_ok", "verify_mismatch", "past_end", "de_zero", "d_is_ff", "ix_wraps", "ix_in_rom", "block_crosses_128", "empty_block", "paging_locked_then_ignored_write", "rewind_between_requests", "rewind_after_end_of_tape", "play_stop_between_requests", "second_tape_inserted", "breakpoints_inside_the_rom_routine", "other_instance_without_rom_ran_before", "scenario_in_a_process_of_its_own"]
    }

    fn gen(&self, rng: &mut Rng, _tier: Tier, _idx: u64) -> Scenario {
        let mut sc = Scenario::new();
        sc.set("m128", rng.bool() as i64);
        sc.set("chunk", *rng.pick(&[0i64, 1, 2, 7, 127, 128, 129, 1000]));
        sc.set("eof_err", rng.bool() as i64);
        sc.set("mem_seed", (rng.next() >> 2) as i64);
        // 128K: how the 48K BASIC ROM got paged in (plain, with another bank at 0xC000, locked followed by
        // an ignored write, via ROM 0 and back, locked), and paging writes between the requests
        sc.set("pg_hist", rng.range(0, 4));
        sc.set("pg_bank", rng.range(0, 7));
        sc.set("pg_ignored", rng.range(0, 255));
        let pg_between = rng.chance(1, 3);
        sc.set("debug_bp", rng.chance(1, 6) as i64);
        sc.set("primer", rng.chance(1, 10) as i64);
        sc.set("fresh", (_idx % 500 == 77) as i64);
        let rewinds = rng.chance(1, 3);
        let nb = rng.range(0, 6) as usize;
        let mut blocks: Vec<Vec<u8>> = vec![];
        for i in 0..nb {
            // now and then the same block twice in a row
            if i > 0 && rng.chance(1, 6) {
                let b = blocks[i - 1].clone();
                blocks.push(b);
            } else {
                blocks.push(gen_block(rng));
            }
        }
        sc.push(Op::blob("tape", &[], tape::make_tap(&blocks)));
        let nreq = rng.range(1, 8) as usize;
        let mut cursor = 0usize;
        for _ in 0..nreq {
            if rewinds && rng.chance(1, 3) {
                sc.op("rw", &[]);
                cursor = 0;
            }
            if rewinds && rng.chance(1, 4) {
                sc.op("ps", &[]);
            }
            if rewinds && rng.chance(1, 8) {
                // a second tape: the following requests are tuned to nothing in particular
                sc.op("nt", &[(rng.next() >> 8) as i64]);
                cursor = 99;
            }
            let blk = blocks.get(cursor);
            cursor += 1;
            let blen = blk.map(|b| b.len()).unwrap_or(0);
            let flag = blk.and_then(|b| b.first().copied()).unwrap_or(0xFF);
            let a = if rng.chance(4, 5) { flag } else { rng.u8() };
            let load = rng.chance(2, 3);
            let de: i64 = match rng.below(8) {
                0 => 0,
                1 => (blen as i64 - 2).max(0) + 1,
                2 => (blen as i64 - 2).max(1) - 1,
                3 => *rng.pick(&LENS) as i64,
                4 => 0xFF00 + rng.range(0, 40),
                _ => (blen as i64 - 2).max(0),
            };
            let ix: i64 = match rng.below(8) {
                0 => rng.range(0, 0x3FFF),
                1 => 0x4000,
                2 => 0x10000 - rng.range(1, 300),
                3 => 0x3F00 + rng.range(0, 255),
                _ => rng.range(0x5B00, 0xFFFF),
            };
            // for VERIFY: pre-store the block's data at IX in half of the cases
            let prestore = (!load && rng.bool()) as i64;
            if pg_between && rng.chance(1, 2) {
                sc.op("pg", &[rng.range(0, 255)]);
            }
            sc.op("req", &[a as i64, load as i64, ix & 0xFFFF, de & 0xFFFF, prestore]);
        }
        sc
    }

    fn exec(&self, sc: &Scenario, ctx: &mut RunCtx) -> Result<(), Fail> {
        let m128 = sc.get("m128") != 0;
        let img = sc.ops.iter().find(|o| o.k == "tape").map(|o| o.b.clone()).unwrap_or_default();
        let (mut blocks, mut tail) = tape::tap_blocks(&img);
        // fast loading enabled in the settings or switched on afterwards through the setter
        // process-wide state (a lazily built static, say) cannot be seen from inside a process that has run thousands
        // of machines already: a few scenarios per batch are executed in a process of their own, where the machine
        // without ROM is the very first one
        if sc.get("fresh") != 0 {
            ctx.probe("scenario_in_a_process_of_its_own");
            let mut child = sc.clone();
            child.set("fresh", 0);
            child.set("primer", 1);
            let r = crate::runner::run_in_fresh_process("C10", &child).map_err(|x| Fail::new("C10.harness_fresh_process", "", x))?;
            if let Some((site, witness, detail)) = r.fails.into_iter().next() {
                return Err(Fail::new(&site, &format!("{},own_process=1", witness), format!("in a process of its own, after a machine without ROM ran first: {}", detail)));
            }
            return Ok(());
        }
        let late = sc.get("mem_seed") & 1 == 1;
        // another machine of the same model lived in this process before: built without the embedded ROM, its CPU
        // ran through the loader's addresses over whatever its empty ROM holds. Nothing of it may reach this one.
        if sc.get("primer") != 0 {
            ctx.probe("other_instance_without_rom_ran_before");
            let mut p = new_emu(&MCfg { m128, fastload: true, rom: false, ..Default::default() });
            let mut st = cpu_state(&mut p);
            st.pc = 0x0556;
            st.sp = 0x9000;
            st.to_impl(p.verif_cpu());
            let _ = run_frames(&mut p, 1);
        }
        let cfg = MCfg { m128, fastload: !late, ..Default::default() };
        let mut e = new_emu(&cfg);
        if late {
            e.set_fast_load(true);
        }
        let cfg = MCfg { m128, fastload: true, ..Default::default() };
        let machine = if m128 { "128k" } else { "48k" };
        let mut rng = Rng::new(sc.get("mem_seed") as u64);
        for p in 0..ram_pages(m128) {
            rng.fill(e.verif_ram_page(p));
        }
        e.verif_refresh_screen();
        if m128 {
            let bank = (sc.get("pg_bank") & 7) as u8;
            match sc.get("pg_hist") {
                1 => e.verif_bus().write_io(0x7FFD, 0x10 | bank),
                2 => {
                    ctx.probe("paging_locked_then_ignored_write");
                    e.verif_bus().write_io(0x7FFD, 0x30 | bank);
                    e.verif_bus().write_io(0x7FFD, sc.get("pg_ignored") as u8);
                }
                3 => {
                    e.verif_bus().write_io(0x7FFD, bank);
                    e.verif_bus().write_io(0x7FFD, 0x10 | bank);
                }
                4 => e.verif_bus().write_io(0x7FFD, 0x30 | bank),
                _ => e.verif_bus().write_io(0x7FFD, 0x10),
            }
        }
        let plan = AssetPlan { max_chunk: sc.get("chunk").max(0) as usize, eof: if sc.get("eof_err") != 0 { EofStyle::Err } else { EofStyle::Ok0 }, ..Default::default() };
        let (asset, stats) = SimAsset::new(img.clone(), plan);
        e.load_tape(Tape::Tap(AnyAsset::Sim(asset))).map_err(|x| Fail::new("C10.load_tape", "", format!("{:?}", x)))?;
        let mut next_block = 0usize;
        // a debugging host may keep breakpoints inside the ROM routine (also on the very address the
        // fast-load trap watches); stops there are resumed at once and change nothing
        let debug_bp = sc.get("debug_bp") != 0;
        EXTRA_BREAKPOINTS.with(|x| *x.borrow_mut() = if debug_bp { vec![0x056B, 0x0556, 0x053F] } else { vec![] });
        if debug_bp {
            ctx.probe("breakpoints_inside_the_rom_routine");
        }
        for op in sc.ops.iter() {
            if op.k == "pg" {
                if m128 {
                    // an unlocked machine keeps the 48K BASIC ROM selected; a locked one ignores the write
                    let unlocked = e.verif_paging().1;
                    let v = op.arg(0) as u8;
                    if !unlocked {
                        ctx.probe("paging_locked_then_ignored_write");
                    }
                    e.verif_bus().write_io(0x7FFD, if unlocked { v | 0x10 } else { v });
                }
                continue;
            }
            if op.k == "nt" {
                // the host inserts another tape: requests are served from its first block on
                ctx.probe("second_tape_inserted");
                let mut r2 = Rng::new(op.arg(0) as u64);
                let nb = 1 + r2.below(3) as usize;
                let bl: Vec<Vec<u8>> = (0..nb).map(|_| gen_block(&mut r2)).collect();
                let img2 = tape::make_tap(&bl);
                let plan2 = AssetPlan { max_chunk: sc.get("chunk").max(0) as usize, eof: if sc.get("eof_err") != 0 { EofStyle::Err } else { EofStyle::Ok0 }, ..Default::default() };
                let (asset2, _st2) = SimAsset::new(img2.clone(), plan2);
                e.load_tape(Tape::Tap(AnyAsset::Sim(asset2))).map_err(|x| Fail::new("C10.load_tape", "", format!("{:?}", x)))?;
                let (b2, t2) = tape::tap_blocks(&img2);
                blocks = b2;
                tail = t2;
                next_block = 0;
                continue;
            }
            if op.k == "ps" {
                // the host presses PLAY and STOP again without any emulated time in between: the deck stands
                // where it stood, the next request is served by the fast loader as before
                ctx.probe("play_stop_between_requests");
                e.play_tape();
                e.stop_tape();
                continue;
            }
            if op.k == "rw" {
                // the host rewinds the (stopped) deck: the next request gets the first block again, also when
                // an earlier request had run off the end of the tape
                ctx.probe("rewind_between_requests");
                if next_block >= blocks.len() {
                    ctx.probe("rewind_after_end_of_tape");
                }
                e.rewind_tape().map_err(|x| Fail::new("C10.rewind", "", format!("{:?}", x)))?;
                next_block = 0;
                continue;
            }
            if op.k != "req" {
                continue;
            }
            let a = op.arg(0) as u8;
            let load = op.arg(1) != 0;
            let ix = op.arg(2) as u16;
            let de = op.arg(3) as u16;
            let prestore = op.arg(4) != 0;
            let block = blocks.get(next_block);
            let top = if m128 { e.verif_paging().0 & 7 } else { 0 };
            let sp = pick_sp(ix, de, block.map(|b| b.len()).unwrap_or(0), top);
            if sp == 0 {
                continue;
            }
            let ret: u16 = sp.wrapping_add(0x10); // any address; execution stops there by breakpoint
            let truncated_here = block.is_none() && tail.is_some() && next_block == blocks.len();
            if prestore {
                if let Some(b) = block {
                    if b.len() >= 2 {
                        let n = (b.len() - 2).min(de as usize);
                        write_mem(&mut e, ix, &b[1..1 + n]);
                    }
                }
            }
            // banks the CPU cannot see during the call must not change at all
            let hidden: Vec<(u8, Vec<u8>)> = if m128 { (0..8u8).filter(|b| *b != 5 && *b != 2 && *b != top).map(|b| (b, e.verif_ram_page(b).to_vec())).collect() } else { vec![] };
            // model memory = CPU view before the call
            let mut model: Vec<u8> = (0..=0xFFFFu16).map(|x| e.peek(x)).collect();
            let exp = {
                let snapshot = model.clone();
                let mut rd = |x: u16| snapshot[x as usize];
                let mut writes: Vec<(u16, u8)> = vec![];
                let mut wr = |x: u16, v: u8| {
                    if x >= 0x4000 {
                        writes.push((x, v));
                    }
                };
                let r = if load {
                    ld_bytes(a, load, ix, de, block.map(|b| &b[..]), &mut rd, &mut wr)
                } else {
                    ld_bytes(a, load, ix, de, block.map(|b| &b[..]), &mut rd, &mut wr)
                };
                for (x, v) in writes {
                    model[x as usize] = v;
                    if let Some(xa) = alias(x, top) {
                        model[xa as usize] = v;
                    }
                }
                r
            };
            // probes
            if de == 0 {
                ctx.probe("de_zero");
            }
            if de >> 8 == 0xFF {
                ctx.probe("d_is_ff");
            }
            if ix as u32 + de as u32 > 0x10000 {
                ctx.probe("ix_wraps");
            }
            if ix < 0x4000 {
                ctx.probe("ix_in_rom");
            }
            if let Some(b) = block {
                if b.len() > 128 {
                    ctx.probe("block_crosses_128");
                }
                if b.is_empty() {
                    ctx.probe("empty_block");
                }
            }
            // a twin with no tape inserted, in the same state, for requests past the end of the tape
            let mut twin: Option<Emu> = None;
            if exp.is_none() && !truncated_here {
                let mut t = new_emu(&cfg);
                for p in 0..ram_pages(m128) {
                    let src: Vec<u8> = e.verif_ram_page(p).to_vec();
                    t.verif_ram_page(p).copy_from_slice(&src);
                }
                t.verif_refresh_screen();
                if m128 {
                    let latch = e.verif_paging().0;
                    t.verif_bus().write_io(0x7FFD, latch);
                }
                t.verif_bus().write_io(0x00FE, e.border_color() as u8);
                t.verif_set_frame_clocks(e.verif_frame_clocks());
                let st = cpu_state(&mut e);
                st.to_impl(t.verif_cpu());
                twin = Some(t);
            }
            let returned = call_ld_bytes(&mut e, a, load, ix, de, sp, ret, 3);
            let returned = match returned {
                Ok(r) => r,
                Err(x) => {
                    if truncated_here {
                        ctx.ambiguous += 1;
                        return Ok(());
                    }
                    return Err(Fail::new("C10.emulate_err", "", format!("request {} failed with a host error: {}", next_block, x)));
                }
            };
            ctx.units += 1;
            ctx.sim_t += 2000;
            let outcome: &str;
            match exp {
                None => {
                    ctx.probe("past_end");
                    outcome = "no_block";
                    if truncated_here {
                        ctx.ambiguous += 1;
                        return Ok(());
                    }
                    if returned {
                        let st = cpu_state(&mut e);
                        return Err(Fail::new(
                            "C10.end_of_tape_returns",
                            &format!("machine={},carry={}", machine, st.af & 1),
                            format!("with no block left on the tape LD-BYTES (A={:02X} {} IX={:04X} DE={:04X}) returned to its caller with carry={} - a silent tape never completes", a, if load { "LOAD" } else { "VERIFY" }, ix, de, st.af & 1),
                        ));
                    }
                    // identical to a machine with no tape inserted
                    let mut twin = twin.take().unwrap();
                    let tr = call_ld_bytes(&mut twin, a, load, ix, de, sp, ret, 3).map_err(|x| Fail::new("C10.twin", "", x))?;
                    if tr {
                        return Err(Fail::new("C10.harness_twin", "", "twin without tape returned".into()));
                    }
                    let h1 = state_hash(&mut e, m128, false);
                    let h2 = state_hash(&mut twin, m128, false);
                    if h1 != h2 {
                        let (s1, s2) = (cpu_state(&mut e), cpu_state(&mut twin));
                        return Err(Fail::new(
                            "C10.end_of_tape_state",
                            &format!("machine={}", machine),
                            format!("after a request past the end of the tape the machine differs from one with no tape inserted (registers: {:?})", s1.diff(&s2, 0)),
                        ));
                    }
                    // the request is abandoned for the next one: both machines continue in step
                }
                Some(r) => {
                    // keep the twin in step: it gets no request (it has no tape); skip it from now on
                    if !returned {
                        return Err(Fail::new(
                            "C10.no_return",
                            &format!("machine={}", machine),
                            format!("LD-BYTES (A={:02X} {} IX={:04X} DE={:04X}) did not return although block {} ({} bytes) was on the tape", a, if load { "LOAD" } else { "VERIFY" }, ix, de, next_block, block.map(|b| b.len()).unwrap_or(0)),
                        ));
                    }
                    let st = cpu_state(&mut e);
                    let carry = st.af & 1 != 0;
                    let blen = block.map(|b| b.len()).unwrap_or(0);
                    outcome = if r.carry {
                        if load {
                            "success"
                        } else {
                            "verify_ok"
                        }
                    } else if block.map(|b| !b.is_empty() && b[0] != a && de >> 8 != 0xFF && de != 0) == Some(true) {
                        "flag_mismatch"
                    } else if r.consumed == blen && blen < de as usize + 2 {
                        "short_block"
                    } else if !load && r.consumed < blen && r.de != 0 {
                        "verify_mismatch"
                    } else {
                        "parity_error"
                    };
                    match outcome {
                        "success" => ctx.probe("success"),
                        "verify_ok" => ctx.probe("verify_ok"),
                        "flag_mismatch" => ctx.probe("flag_mismatch"),
                        "short_block" => ctx.probe("short_block"),
                        "verify_mismatch" => ctx.probe("verify_mismatch"),
                        _ => ctx.probe("parity_error"),
                    }
                    if blen > de as usize + 2 {
                        ctx.probe("long_block");
                    }
                    if carry != r.carry || st.ix != r.ix || st.de != r.de {
                        return Err(Fail::new(
                            "C10.result",
                            &format!("machine={},outcome={},load={}", machine, outcome, load as u8),
                            format!(
                                "LD-BYTES A={:02X} {} IX={:04X} DE={:04X} on block {} ({} bytes, flag {:02X}): got carry={} IX={:04X} DE={:04X}, the ROM loader gives carry={} IX={:04X} DE={:04X}",
                                a,
                                if load { "LOAD" } else { "VERIFY" },
                                ix,
                                de,
                                next_block,
                                blen,
                                block.and_then(|b| b.first().copied()).unwrap_or(0),
                                carry,
                                st.ix,
                                st.de,
                                r.carry,
                                r.ix,
                                r.de
                            ),
                        ));
                    }
                    // memory, except the ROM's own stack traffic below the caller's SP
                    for x in 0..=0xFFFFu16 {
                        let d = sp.wrapping_sub(x);
                        if d >= 1 && d <= 24 {
                            continue;
                        }
                        if let Some(xa) = alias(x, top) {
                            let d = sp.wrapping_sub(xa);
                            if d >= 1 && d <= 24 {
                                continue;
                            }
                        }
                        if e.peek(x) != model[x as usize] {
                            // the ROM re-enables interrupts just before it returns: when its frame interrupt
                            // handler ran (FRAMES counter moved), system-variable differences are not the loader's
                            let frames_moved = (0x5C78..=0x5C7Au16).any(|f| e.peek(f) != model[f as usize]);
                            if frames_moved && (0x5C00..0x5CC0).contains(&x) {
                                ctx.probe("rom_interrupt_ran_before_return");
                                continue;
                            }
                            return Err(Fail::new(
                                "C10.memory",
                                &format!("machine={},outcome={},load={}", machine, outcome, load as u8),
                                format!("after LD-BYTES A={:02X} {} IX={:04X} DE={:04X} on block {} ({} bytes): address {:04X} holds {:02X}, the ROM loader would leave {:02X}", a, if load { "LOAD" } else { "VERIFY" }, ix, de, next_block, blen, x, e.peek(x), model[x as usize]),
                            ));
                        }
                    }
                    for (b, data) in &hidden {
                        if e.verif_ram_page(*b)[..] != data[..] {
                            return Err(Fail::new("C10.hidden_bank", &format!("machine={},load={}", machine, load as u8), format!("LD-BYTES IX={:04X} DE={:04X} with bank {} at 0xC000 changed RAM bank {}, which is not mapped anywhere", ix, de, top, b)));
                        }
                    }
                    next_block += 1;
                }
            }
            let mut h = Fnv::new();
            h.u8(m128 as u8);
            h.str(outcome);
            h.u8(load as u8);
            let blen = block.map(|b| b.len()).unwrap_or(0);
            h.u64(match blen {
                0 => 0,
                1..=2 => 1,
                3..=127 => 2,
                128..=130 => 3,
                131..=256 => 4,
                _ => 5,
            });
            h.u8((de as usize + 2).cmp(&blen) as i8 as u8);
            ctx.cover(h.get());
            let mut hs = Fnv::new();
            hs.u64((blocks.len().saturating_sub(next_block)) as u64);
            hs.str(outcome);
            ctx.state(hs.get());
        }
        ctx.fault_n("short_read(n)", stats.borrow().short_reads);
        EXTRA_BREAKPOINTS.with(|x| x.borrow_mut().clear());
        Ok(())
    }
}
