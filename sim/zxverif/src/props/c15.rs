//! C15 — loaders are total: any file or failing asset gives Ok/Err, never crash/hang.
//! World B + vtx + rustzx-utils. (a) failure sweep = fault enumeration over every asset call of a
//! load (read error, seek error, short read, both EOF styles at exactly that call); (b) seeded
//! structure-aware mutations of valid files; (c) random byte strings. Oracle: no panic / overflow,
//! asset-call budget (hang detector), allocation-request bound, machine still runs afterwards.

use crate::alloc_track;
use crate::host::*;
use crate::machine::*;
use crate::prng::{Fnv, Rng};
use crate::runner::{self, Fail, Property, RunCtx, Tier, BUDGET_PANIC};
use crate::scenario::{Op, Scenario};
use crate::snapfmt::*;
use rustzx_core::host::{Screen, Snapshot, Tape};
use rustzx_z80::Z80Bus;
use zxref::tape;

pub struct C15;

pub const FORMATS: [&str; 7] = ["sna", "szx", "scr", "tap", "rom", "gzip", "vtx"];

/// std::io reader with a call budget (hang detector for loaders that use std::io)
struct BudgetCursor {
    data: Vec<u8>,
    pos: u64,
    calls: u64,
    budget: u64,
    fail_read_at: Option<u64>,
    max_chunk: usize,
}
impl std::io::Read for BudgetCursor {
    fn read(&mut self, buf: &mut [u8]) -> std::io::Result<usize> {
        self.calls += 1;
        if self.calls > self.budget {
            panic!("{}|vtx|calls>{}", BUDGET_PANIC, self.budget);
        }
        if self.fail_read_at == Some(self.calls - 1) {
            return Err(std::io::Error::new(std::io::ErrorKind::Other, "injected"));
        }
        let p = (self.pos as usize).min(self.data.len());
        let mut n = buf.len().min(self.data.len() - p);
        if self.max_chunk > 0 {
            n = n.min(self.max_chunk);
        }
        buf[..n].copy_from_slice(&self.data[p..p + n]);
        self.pos += n as u64;
        Ok(n)
    }
}
impl std::io::Seek for BudgetCursor {
    fn seek(&mut self, pos: std::io::SeekFrom) -> std::io::Result<u64> {
        self.calls += 1;
        if self.calls > self.budget {
            panic!("{}|vtx|calls>{}", BUDGET_PANIC, self.budget);
        }
        let np = match pos {
            std::io::SeekFrom::Start(p) => p as i64,
            std::io::SeekFrom::End(p) => self.data.len() as i64 + p,
            std::io::SeekFrom::Current(p) => self.pos as i64 + p,
        };
        if np < 0 {
            return Err(std::io::Error::new(std::io::ErrorKind::InvalidInput, "negative seek"));
        }
        self.pos = np as u64;
        Ok(self.pos)
    }
}

fn sample_state(rng: &mut Rng, m128: bool) -> SnapState {
    let mut s = SnapState::new(m128);
    for b in 0..8 {
        if rng.bool() {
            rng.fill(&mut s.banks[b]);
        }
    }
    s.cpu = crate::cpustate::CpuState::random(rng);
    s.cpu.sp = 0x8000 + (rng.u16() & 0x3FFF);
    s.border = rng.u8() & 7;
    s.port_7ffd = rng.u8() & 0x1F;
    rng.fill(&mut s.ay_regs);
    s
}

fn repo_file(rel: &str) -> Option<Vec<u8>> {
    std::fs::read(format!("/repo/{}", rel)).ok()
}

/// a valid file of the given format (corpus), from the independent writers or the repository
pub fn corpus(format: usize, rng: &mut Rng, m128: bool) -> Vec<u8> {
    match format {
        0 => {
            if rng.chance(1, 4) {
                let names: &[&str] = if m128 { &super::c16::REPO_SNAS_128K } else { &super::c16::REPO_SNAS_48K };
                let nm: &str = names[rng.below(names.len() as u64) as usize];
                if let Some(v) = super::c16::read_repo_gz(nm) {
                    return v;
                }
            }
            let s = sample_state(rng, m128);
            if m128 {
                write_sna128(&s)
            } else {
                write_sna48(&s)
            }
        }
        1 => {
            if rng.chance(1, 5) {
                if let Some(v) = repo_file("rustzx-test/test_data/nmi.szx") {
                    return v;
                }
            }
            let s = sample_state(rng, m128);
            let opt = SzxOptions {
                compress: (0..8).map(|_| rng.bool()).collect(),
                order_seed: if rng.bool() { rng.next() | 1 } else { 0 },
                unknown_chunks: rng.below(3) as usize,
                with_creator: rng.bool(),
                with_ay: rng.chance(3, 4),
                with_keyb: rng.bool(),
                with_mouse: rng.bool(),
                fe_low: if rng.bool() { Some(rng.u8() & 7) } else { None },
                fe_hi: rng.u8() & 0x18,
                big_unknown: if rng.chance(1, 16) { 66000 + rng.below(5000) as usize } else { 0 },
                zlib_exact: None,
                hdr_flags: if rng.chance(1, 4) { rng.u8() } else { 0 },
                hold_int: if rng.chance(1, 4) { rng.u8() } else { 0 },
            };
            write_szx(&s, &opt)
        }
        2 => {
            // the one valid size, or sizes other tools write (two screens one after another, a screen with an extra
            // attribute block, bitmap only, ...)
            let n = if rng.chance(1, 3) { *rng.pick(&[13824usize, 13824, 13823, 13825, 7680, 6144, 6913, 6911, 768, 20736, 27648]) } else { 6912 };
            rng.bytes(n)
        }
        3 => {
            let blocks = super::c12::gen_tape(rng, 3, 302);
            tape::make_tap(&blocks)
        }
        4 => rng.bytes(if m128 { 32768 } else { 16384 }),
        5 => {
            use std::io::Write;
            // a gzip file whose content is again a gzip file (of 160 MiB of zeros): one layer is all a loader may
            // take off, the inner file is the content
            if rng.chance(1, 10) {
                static NESTED: std::sync::OnceLock<Vec<u8>> = std::sync::OnceLock::new();
                return NESTED
                    .get_or_init(|| {
                        let gz = |d: &[u8]| {
                            let mut enc = flate2::write::GzEncoder::new(Vec::new(), flate2::Compression::fast());
                            let _ = enc.write_all(d);
                            enc.finish().unwrap_or_default()
                        };
                        let zeros = vec![0u8; 1 << 20];
                        let mut enc = flate2::write::GzEncoder::new(Vec::new(), flate2::Compression::fast());
                        for _ in 0..160 {
                            let _ = enc.write_all(&zeros);
                        }
                        let inner = enc.finish().unwrap_or_default();
                        gz(&inner)
                    })
                    .clone();
            }
            let ilen = rng.range(0, 3000) as usize;
            let inner = rng.bytes(ilen);
            let mut enc = flate2::write::GzEncoder::new(Vec::new(), flate2::Compression::fast());
            let _ = enc.write_all(&inner);
            enc.finish().unwrap_or_default()
        }
        _ => {
            if rng.chance(1, 3) {
                let name = *rng.pick(&["csoon.vtx", "secret.vtx", "sil00.vtx", "spf21_00.vtx"]);
                if let Some(v) = repo_file(&format!("vtx/src/test/{}", name)) {
                    return v;
                }
            }
            let frames = rng.range(0, 60) as usize;
            let t = rng.bytes(frames * 14);
            let (ymf, stf) = (rng.bool(), rng.below(7) as u8);
            super::c20::build_vtx_file(ymf, stf, 0, 1_773_400, 50, 2000, [b"a", b"bb", b"", b"d", b"e"], &t)
        }
    }
}

/// structure-aware + generic mutation
pub fn mutate(format: usize, data: &[u8], rng: &mut Rng) -> Vec<u8> {
    let mut d = data.to_vec();
    let interesting: [u8; 10] = [0, 1, 2, 3, 7, 8, 0x7F, 0x80, 0xFE, 0xFF];
    let n_ops = 1 + rng.below(3);
    if format == 1 && d.len() >= 8 && rng.chance(1, 5) {
        // a chunk the loader does not implement whose size field has the top bit set (as a signed step: back onto
        // its own header, or onto an earlier chunk), somewhere between the others
        let mut offs = vec![8usize];
        let mut p = 8usize;
        while p + 8 <= d.len() {
            let sz = u32::from_le_bytes([d[p + 4], d[p + 5], d[p + 6], d[p + 7]]) as usize;
            p = p.saturating_add(8).saturating_add(sz);
            if p <= d.len() {
                offs.push(p);
            }
        }
        let at = *rng.pick(&offs);
        let size: u32 = *rng.pick(&[0xFFFF_FFF8u32, 0xFFFF_FFF8, 0x8000_0000, (at as u32 + 8).wrapping_neg().wrapping_add(8), 0xFFFF_FFF0]);
        let mut c = rng.pick(&[*b"JOY\0", *b"ZXPR", *b"XUNK", *b"TAPE"]).to_vec();
        c.extend_from_slice(&size.to_le_bytes());
        let tail = d.split_off(at);
        d.extend_from_slice(&c);
        d.extend_from_slice(&tail);
        return d;
    }
    for _ in 0..n_ops {
        if d.is_empty() {
            d.push(rng.u8());
            continue;
        }
        match rng.below(12) {
            0 => {
                // truncate at a structural boundary +-1 or anywhere
                let cut = match (format, rng.below(3)) {
                    (0, 0) => *rng.pick(&[26usize, 27, 28, 49178, 49179, 49180, 49182, 49183, 49184, 131102, 131103]),
                    (1, 0) => *rng.pick(&[3usize, 7, 8, 9, 15, 16, 17, 44, 45, 46, 52, 53]),
                    (3, 0) => *rng.pick(&[1usize, 2, 3]),
                    (6, 0) => *rng.pick(&[1usize, 2, 3, 11, 15, 16, 17, 20]),
                    _ => rng.below(d.len() as u64 + 1) as usize,
                };
                d.truncate(cut.min(d.len()));
            }
            1 => {
                let i = rng.below(d.len() as u64) as usize;
                d[i] ^= 1 << rng.below(8);
            }
            2 | 3 => {
                // interesting byte in the header region
                let i = rng.below(d.len().min(64) as u64) as usize;
                d[i] = *rng.pick(&interesting);
            }
            4 | 5 if format == 1 => {
                // SZX chunk header tampering
                let mut offs = vec![];
                let mut p = 8usize;
                while p + 8 <= d.len() {
                    offs.push(p);
                    let sz = u32::from_le_bytes([d[p + 4], d[p + 5], d[p + 6], d[p + 7]]) as usize;
                    p = p.saturating_add(8).saturating_add(sz);
                }
                // prefer the small fixed-layout chunks (registers, ports, AY, keyboard, mouse): every byte of
                // theirs is a field of its own
                let small: Vec<usize> = offs.iter().copied().filter(|&o| u32::from_le_bytes([d[o + 4], d[o + 5], d[o + 6], d[o + 7]]) < 64).collect();
                let pick = if !small.is_empty() && rng.chance(2, 3) { small.get(rng.below(small.len() as u64) as usize).copied() } else { offs.get(rng.below(offs.len().max(1) as u64) as usize).copied() };
                if let Some(o) = pick {
                    match rng.below(7) {
                        0 => {
                            let sz = u32::from_le_bytes([d[o + 4], d[o + 5], d[o + 6], d[o + 7]]);
                            // (sizes with the top bit set: as a signed step they point backwards - onto this very
                            // header for -8, onto an earlier chunk for the others)
                            let nv = *rng.pick(&[0u32, 1, 2, sz.wrapping_sub(1), sz.wrapping_add(1), 0x7FFF_FFFF, 0xFFFF_FFFF, 36, 3, 0xFFFF_FFF8, 0xFFFF_FFF8, 0x8000_0000, (o as u32).wrapping_neg().wrapping_sub(8), 0xFFFF_FFF0]);
                            d[o + 4..o + 8].copy_from_slice(&nv.to_le_bytes());
                            if nv >= 0x8000_0000 && rng.bool() {
                                // ... on a chunk the loader does not implement
                                d[o..o + 4].copy_from_slice(*rng.pick(&[b"JOY\0", b"ZXPR", b"XUNK"]));
                            }
                        }
                        1 => d[o + rng.below(4) as usize] = *rng.pick(&[0xFFu8, 0x80, 0xC3, b'z', 0]),
                        2 | 5 => {
                            // body byte with an interesting or random value (IM, border, page number, flags,
                            // selected AY register, machine id ...)
                            let sz = u32::from_le_bytes([d[o + 4], d[o + 5], d[o + 6], d[o + 7]]) as usize;
                            if sz > 0 && o + 8 < d.len() {
                                let i = o + 8 + rng.below(sz.min(40) as u64) as usize;
                                if i < d.len() {
                                    d[i] = if rng.bool() { *rng.pick(&interesting) } else { rng.u8() };
                                }
                            }
                        }
                        3 => {
                            // duplicate the chunk at the end
                            let sz = u32::from_le_bytes([d[o + 4], d[o + 5], d[o + 6], d[o + 7]]) as usize;
                            let end = (o + 8 + sz).min(d.len());
                            let c = d[o..end].to_vec();
                            d.extend_from_slice(&c);
                        }
                        4 => {
                            // shorten the chunk body but keep the size of the others (chunk ends early)
                            let sz = u32::from_le_bytes([d[o + 4], d[o + 5], d[o + 6], d[o + 7]]) as usize;
                            let keep = if rng.bool() { rng.below(sz.min(40) as u64 + 1) as usize } else { rng.below(sz as u64 + 1) as usize };
                            let end = (o + 8 + sz).min(d.len());
                            let tail = d[end..].to_vec();
                            d.truncate((o + 8 + keep).min(d.len()));
                            let nv = keep as u32;
                            d[o + 4..o + 8].copy_from_slice(&nv.to_le_bytes());
                            d.extend_from_slice(&tail);
                        }
                        _ => d[6] = *rng.pick(&[0u8, 1, 2, 3, 0xFF]),
                    }
                }
                // chunk ids are matched without regard to letter case: re-spell an id, and in half of the
                // cases also cut the same chunk short (size field and body)
                if rng.chance(1, 4) && !offs.is_empty() {
                    let o = offs[rng.below(offs.len() as u64) as usize];
                    if o + 8 <= d.len() {
                        for k in 0..4 {
                            if d[o + k].is_ascii_alphabetic() && rng.chance(2, 3) {
                                d[o + k] ^= 0x20;
                            }
                        }
                        if rng.bool() {
                            let sz = u32::from_le_bytes([d[o + 4], d[o + 5], d[o + 6], d[o + 7]]) as usize;
                            let keep = (*rng.pick(&[0usize, 1, 2, 3, 8, 16, 27, 36])).min(sz);
                            let end = (o + 8 + sz).min(d.len());
                            let tail = d[end..].to_vec();
                            d.truncate((o + 8 + keep).min(d.len()));
                            d[o + 4..o + 8].copy_from_slice(&(keep as u32).to_le_bytes());
                            d.extend_from_slice(&tail);
                        }
                    }
                }
                // 16-bit register fields of the Z80R chunk at the extremes (SP, PC, pairs)
                if rng.chance(1, 4) {
                    if let Some(&o) = offs.iter().find(|&&o| o + 8 + 28 <= d.len() && d[o..o + 4].eq_ignore_ascii_case(b"Z80R")) {
                        let w = *rng.pick(&[0x0000u16, 0x0001, 0x3FFF, 0x4000, 0x5AFF, 0x7FFF, 0x8000, 0xFFFE, 0xFFFF]);
                        let k = 2 * rng.below(13) as usize;
                        d[o + 8 + k..o + 8 + k + 2].copy_from_slice(&w.to_le_bytes());
                    }
                }
                // a RAM page chunk re-encoded with the wrong amount of data: stored or zlib-compressed
                // page of 0 / 1 / half / one byte less / one byte more / far too many bytes
                if rng.chance(1, 3) {
                    let ramps: Vec<usize> = offs.iter().copied().filter(|&o| o + 11 <= d.len() && &d[o..o + 4] == b"RAMP").collect();
                    if !ramps.is_empty() {
                        let o = ramps[rng.below(ramps.len() as u64) as usize];
                        let sz = u32::from_le_bytes([d[o + 4], d[o + 5], d[o + 6], d[o + 7]]) as usize;
                        let end = (o + 8 + sz).min(d.len());
                        let page = d[o + 10];
                        let len = *rng.pick(&[0usize, 1, 8191, 8192, 8193, 16383, 16385, 16384 + 3, 20000, 65535, 65536, 70000]);
                        let fill = rng.u8();
                        let raw: Vec<u8> = (0..len).map(|i| fill.wrapping_add((i / 97) as u8)).collect();
                        let comp = rng.bool();
                        let mut body = vec![comp as u8, 0, page];
                        if comp {
                            body.extend_from_slice(&miniz_oxide::deflate::compress_to_vec_zlib(&raw, 6));
                        } else {
                            body.extend_from_slice(&raw);
                        }
                        let tail = d[end..].to_vec();
                        d.truncate(o + 4);
                        d.extend_from_slice(&(body.len() as u32).to_le_bytes());
                        d.extend_from_slice(&body);
                        d.extend_from_slice(&tail);
                    }
                }
            }
            4 | 5 if format == 0 && d.len() > 27 => {
                // SNA header: a 16-bit register field (pairs, SP) at the extremes; SP decides where the 48K
                // loader looks for PC
                let w = *rng.pick(&[0x0000u16, 0x0001, 0x3FFE, 0x3FFF, 0x4000, 0x5AFF, 0x7FFF, 0x8000, 0xFFFD, 0xFFFE, 0xFFFF]);
                let off = if rng.bool() { 23 } else { *rng.pick(&[1usize, 3, 5, 7, 9, 11, 13, 15, 17, 21]) };
                d[off..off + 2].copy_from_slice(&w.to_le_bytes());
            }
            4 | 5 if format == 6 && d.len() > 16 => {
                // VTX: size field, stereo byte, player frequency, string terminators
                match rng.below(5) {
                    0 => {
                        let nv = *rng.pick(&[0u32, 14, 13, 28, 0x7FFF_FFF8, 0xFFFF_FFFC, 0xFFFF_FFF2, 14_000_000]);
                        d[12..16].copy_from_slice(&nv.to_le_bytes());
                    }
                    1 => d[2] = *rng.pick(&interesting),
                    2 => d[9] = *rng.pick(&[0u8, 1, 255]),
                    3 => {
                        for b in d.iter_mut().skip(16) {
                            if *b == 0 {
                                *b = b'x';
                                if rng.bool() {
                                    break;
                                }
                            }
                        }
                    }
                    _ => d.truncate(16 + rng.below(30) as usize),
                }
            }
            4 | 5 if format == 3 && d.len() >= 2 => {
                // TAP: length words
                let nv = *rng.pick(&[0u16, 1, 2, 127, 128, 129, 0xFFFF, 0x8000]);
                d[0..2].copy_from_slice(&nv.to_le_bytes());
            }
            6 => {
                // append garbage / oversize
                let n = *rng.pick(&[1usize, 2, 100, 16384, 70000]);
                d.extend(rng.bytes(n));
            }
            7 => {
                let i = rng.below(d.len() as u64) as usize;
                let n = rng.below(64) as usize;
                for k in i..(i + n).min(d.len()) {
                    d[k] = rng.u8();
                }
            }
            _ => {
                let i = rng.below(d.len() as u64) as usize;
                d[i] = *rng.pick(&interesting);
            }
        }
    }
    d
}

#[derive(Clone, Copy, PartialEq, Eq, Debug)]
enum Fault {
    None,
    ReadErr(u64),
    SeekErr(u64),
}

struct CaseOutcome {
    result: &'static str,
    calls: u64,
}

impl C15 {
    /// one load attempt of `data` as `format` on a fresh machine; all oracles applied
    fn one_case(&self, format: usize, m128: bool, data: &[u8], chunk: usize, eof: EofStyle, fault: Fault, ctx: &mut RunCtx, label: &str) -> CaseOutcome {
        let fname = FORMATS[format];
        let budget = 10 * data.len() as u64 + 10_000;
        let plan = AssetPlan {
            max_chunk: chunk,
            eof,
            read_err_at: if let Fault::ReadErr(k) = fault { Some(k) } else { None },
            seek_err_at: if let Fault::SeekErr(k) = fault { Some(k) } else { None },
            budget,
            label: "loader",
            ..Default::default()
        };
        let alloc_bound = (64usize << 20) + 1100 * data.len();
        let cfg = MCfg { m128, fastload: true, ay: data.len() % 2 == 0, kempston: data.len() % 3 == 0, mouse: data.len() % 5 < 2, ..Default::default() };
        let mut calls = 0u64;
        let mut e = new_emu(&cfg);
        // in a fifth of the attempts the receiving machine has been stopped by a breakpoint in the middle
        // of a frame (snapshot files then move the frame clock, possibly backwards)
        if format <= 2 && (data.len() + chunk) % 5 == 0 {
            ctx.probe("receiver_stopped_mid_frame");
            let mut r = crate::prng::Rng::new(data.len() as u64 ^ 0x5EED);
            super::c14::dirty_receiver(&mut e, 8, &mut r, m128);
        }
        let mut result: &'static str = "ok";
        let mut max_req = 0usize;
        let r = runner::catch(|| {
            alloc_track::start();
            let out: Result<(), String> = match format {
                0 | 1 => {
                    let (a, st) = SimAsset::new(data.to_vec(), plan.clone());
                    let r = if format == 0 { e.load_snapshot(Snapshot::Sna(a)) } else { e.load_snapshot(Snapshot::Szx(a)) };
                    calls = st.borrow().reads + st.borrow().seeks;
                    r.map_err(|x| format!("{:?}", x))
                }
                2 => {
                    let (a, st) = SimAsset::new(data.to_vec(), plan.clone());
                    let r = e.load_screen(Screen::Scr(a));
                    calls = st.borrow().reads + st.borrow().seeks;
                    r.map_err(|x| format!("{:?}", x))
                }
                3 => {
                    let (a, st) = SimAsset::new(data.to_vec(), plan.clone());
                    let mut r = e.load_tape(Tape::Tap(AnyAsset::Sim(a))).map_err(|x| format!("{:?}", x));
                    if r.is_ok() {
                        // a host/program history derived from the file: fast-load trap calls (also shorter than
                        // the block, which leaves a partly read block behind), real-time playing, rewinds (whose
                        // seek may be the failing call) and playing / loading on after each of them
                        if m128 {
                            e.verif_bus().write_io(0x7FFD, 0x10);
                        }
                        let mut hr = crate::prng::Rng::new(data.iter().fold(data.len() as u64 ^ 0x7A9E, |a, &b| a.wrapping_mul(0x100000001B3) ^ b as u64));
                        let mut bad = false;
                        // (flag, payload length) of the blocks as the file describes them
                        let mut blocks: Vec<(u8, u16)> = vec![];
                        let mut p = 0usize;
                        while p + 3 <= data.len() && blocks.len() < 8 {
                            let sz = u16::from_le_bytes([data[p], data[p + 1]]);
                            blocks.push((data[p + 2], sz.saturating_sub(2)));
                            p += 2 + sz as usize;
                        }
                        if blocks.is_empty() {
                            blocks.push((0, 17));
                        }
                        let r1 = call_ld_bytes(&mut e, 0xFF, true, 0x8000, 0x100, 0xBFF0, 0xBF00, 2);
                        e.play_tape();
                        let r2 = run_frames(&mut e, 3);
                        bad |= r1.is_err() || r2.is_err();
                        let steps = 2 + hr.below(5);
                        for _ in 0..steps {
                            match hr.below(6) {
                                0 | 1 => {
                                    let (bf, bl) = *hr.pick(&blocks);
                                    let fl = *hr.pick(&[0xFFu8, 0x00, bf, bf, bf]);
                                    let len = *hr.pick(&[1u16, 0x11, 0x90, 0x100, 0x1000, bl, bl / 2, bl.saturating_sub(1), (bl / 2).max(0x85)]);
                                    let ix = *hr.pick(&[0x8000u16, 0x8000, 0x8000, 0xFFF0, 0xFF80]);
                                    bad |= call_ld_bytes(&mut e, fl, hr.chance(3, 4), ix, len, 0xBFF0, 0xBF00, 2).is_err();
                                }
                                2 => {
                                    e.play_tape();
                                    bad |= run_frames(&mut e, 1 + hr.below(3) as usize).is_err();
                                }
                                3 | 4 => {
                                    let _ = e.rewind_tape();
                                    e.play_tape();
                                    bad |= run_frames(&mut e, 1).is_err();
                                }
                                _ => e.stop_tape(),
                            }
                        }
                        let _ = e.rewind_tape();
                        let r3 = run_frames(&mut e, 2);
                        e.stop_tape();
                        if bad || r3.is_err() {
                            r = Err("emulate_frames reported the tape error".into());
                        }
                    }
                    calls = st.borrow().reads + st.borrow().seeks;
                    r
                }
                4 => {
                    let page = 16384;
                    let mut pages = vec![];
                    let mut sts = vec![];
                    let mut p = 0;
                    while p < data.len() || pages.is_empty() {
                        let end = (p + page).min(data.len());
                        let (a, st) = SimAsset::new(data[p..end].to_vec(), plan.clone());
                        pages.push(a);
                        sts.push(st);
                        p += page;
                        if pages.len() >= 3 {
                            break;
                        }
                    }
                    let r = e.load_rom(SimRomSet { pages });
                    calls = sts.iter().map(|s| s.borrow().reads + s.borrow().seeks).sum();
                    r.map_err(|x| format!("{:?}", x))
                }
                5 => {
                    let cur = BudgetCursor { data: data.to_vec(), pos: 0, calls: 0, budget, fail_read_at: if let Fault::ReadErr(k) = fault { Some(k) } else { None }, max_chunk: chunk };
                    match rustzx_utils::io::GzipAsset::new(cur) {
                        Ok(a) => {
                            // use it as a snapshot asset as well: must not panic either
                            let _ = e.load_snapshot(Snapshot::Sna(a));
                            Ok(())
                        }
                        Err(x) => Err(format!("{:?}", x)),
                    }
                }
                _ => {
                    let cur = BudgetCursor { data: data.to_vec(), pos: 0, calls: 0, budget, fail_read_at: if let Fault::ReadErr(k) = fault { Some(k) } else { None }, max_chunk: chunk };
                    match vtx::Vtx::load(cur) {
                        Ok(v) => {
                            // a loaded track must be playable (player_frequency 0 is outside the stated domain)
                            if v.player_frequency != 0 {
                                let mut p: vtx::player::Player<aym::AymPrecise> = vtx::player::Player::new(v, 44100, true);
                                let mut buf = vec![0i16; 4096];
                                let _ = p.play(&mut buf);
                            }
                            Ok(())
                        }
                        Err(x) => Err(format!("{:?}", x)),
                    }
                }
            };
            let (mr, _peak) = alloc_track::stop();
            max_req = mr;
            out
        });
        alloc_track::stop();
        match r {
            Ok(Ok(())) => {}
            Ok(Err(_)) => result = "err",
            Err(pi) => {
                if runner::panic_in_harness(&pi) {
                    panic!("harness panic in C15 case: {} at {}:{}", pi.msg, pi.file, pi.line);
                }
                if pi.msg.contains(BUDGET_PANIC) {
                    result = "hang";
                    ctx.report(Fail::new("C15.hang", &format!("format={}", fname), format!("{}: loading a {}-byte {} file made more than {} asset calls (loader does not terminate) [{}]", label, data.len(), fname, budget, pi.msg)));
                } else {
                    result = "panic";
                    ctx.report(Fail::new(
                        "C15.panic",
                        &format!("format={},at={}", fname, runner::panic_site(&pi)),
                        format!("{}: loading a {}-byte {} file panicked at {}:{}: {}", label, data.len(), fname, pi.file, pi.line, pi.msg),
                    ));
                }
            }
        }
        if max_req > alloc_bound {
            ctx.report(Fail::new(
                "C15.alloc",
                &format!("format={}", fname),
                format!("{}: loading a {}-byte {} file requested a single allocation of {} bytes (bound {} = 64 MiB + 1100 x input)", label, data.len(), fname, max_req, alloc_bound),
            ));
            result = "alloc";
        }
        // afterwards the machine still emulates frames (formats that touch the machine)
        if format <= 4 {
            let r2 = runner::catch(|| {
                let mut ok = true;
                // whatever state the load attempt left in the devices must be usable: touch every port
                // family the way a program would (AY data read/write without re-selecting a register,
                // ULA, paging, joystick, mouse), then run frames
                {
                    let bus = e.verif_bus();
                    let _ = bus.read_io(0xFFFD);
                    bus.write_io(0xBFFD, 0x00);
                    let _ = bus.read_io(0xFFFD);
                    let _ = bus.read_io(0xFEFE);
                    bus.write_io(0x00FE, 0x07);
                    let _ = bus.read_io(0x001F);
                    let _ = bus.read_io(0xFADF);
                    let _ = bus.read_io(0xFBDF);
                    let _ = bus.read_io(0xFFDF);
                    let _ = bus.read_io(0x7FFD);
                }
                for _ in 0..3 {
                    set_break_mode(&mut e, BreakMode::Never);
                    e.set_speed(rustzx_core::EmulationMode::FrameCount(1));
                    if e.emulate_frames(LONG).is_err() {
                        ok = false; // an Err is acceptable (e.g. tape asset failing), a panic is not
                        break;
                    }
                }
                ok
            });
            if let Err(pi) = r2 {
                if runner::panic_in_harness(&pi) {
                    panic!("harness panic in C15 after-run: {} at {}:{}", pi.msg, pi.file, pi.line);
                }
                ctx.report(Fail::new(
                    "C15.after_panic",
                    &format!("format={},at={}", fname, runner::panic_site(&pi)),
                    format!("{}: after the load attempt ({}) the emulator panicked while emulating frames at {}:{}: {}", label, result, pi.file, pi.line, pi.msg),
                ));
            }
            ctx.sim_t += 3 * cfg.frame_len() as u64;
        }
        ctx.units += 1;
        let mut h = Fnv::new();
        h.u64(format as u64);
        h.u8(m128 as u8);
        h.str(result);
        h.u8(match fault {
            Fault::None => 0,
            Fault::ReadErr(_) => 1,
            Fault::SeekErr(_) => 2,
        });
        h.u8((chunk > 0) as u8);
        ctx.cover(h.get());
        CaseOutcome { result, calls }
    }
}

impl Property for C15 {
    fn id(&self) -> &'static str {
        "C15"
    }
    fn level(&self) -> &'static str {
        "fault_enumeration"
    }
    fn runs(&self, tier: Tier) -> u64 {
        match tier {
            Tier::Quick => 700,
            Tier::Thorough => 60_000,
        }
    }
    fn rule(&self) -> &'static str {
        "per run one format (SNA, SZX, SCR, TAP, ROM, gzip, VTX), machine and corpus file (independent writers or repository assets); mode sweep: the load is repeated with a read error, a seek error at every asset call index k, with short reads and with both EOF styles (enumeration of fault positions of that load); mode field-sweep: every byte of the SNA header / SZX header and small chunks set to 5 boundary values, one at a time; mode mutate: 12 structure-aware mutations (truncation at structural boundaries +-1, bit flips, length/size/count fields 0,1,max-1,max, non-UTF-8 chunk ids, out-of-range IM/border/page fields, duplicated/shortened chunks, oversize); mode random: random byte strings up to 160 KiB. TAP cases run a file-derived host history (partial fast loads, PLAY, rewinds, PLAY / load again) so that a failing seek is followed by more deck use; gzip corpus includes a nested gzip of 160 MiB of zeros. distinct = (format, machine, outcome, fault kind, chunked?) ; every distinct panic site is its own finding identity"
    }
    fn state_measure(&self) -> &'static str {
        "none"
    }
    fn real_components(&self) -> Vec<&'static str> {
        vec!["Emulator::load_snapshot (sna, szx incl. zlib pages), load_screen, load_tape + Tap playing / fast load, load_rom", "rustzx_utils::io::GzipAsset", "vtx::Vtx::load + Player", "LoadableAsset::read_exact default method"]
    }
    fn stub_components(&self) -> Vec<&'static str> {
        vec!["assets (SimAsset / BudgetCursor: failure at call k, short reads, EOF style, call budget)", "counting global allocator", "file builders and mutators"]
    }
    fn assumptions(&self) -> Vec<&'static str> {
        vec![
            "hang = more than 10 x len + 10000 asset calls; memory out of proportion = a single allocation request above 64 MiB + 1100 x input length (allocation failure itself cannot be injected in-process: it aborts)",
            "arithmetic overflow counts as a panic: the harness is built with overflow checks and debug assertions, like the project's own test profile",
            "VTX files with player_frequency 0 are loaded but not played (outside the player's stated domain)",
        ]
    }
    fn expected_probes(&self) -> Vec<&'static str> {
        vec!["sweep_read_err", "sweep_seek_err", "mutated", "random_bytes", "outcome_ok", "outcome_err", "eof_ok0", "eof_err", "short_reads", "field_sweep", "receiver_stopped_mid_frame"]
    }
    fn minimise_budget(&self) -> usize {
        60
    }

    fn gen(&self, rng: &mut Rng, tier: Tier, idx: u64) -> Scenario {
        let mut sc = Scenario::new();
        let format = (idx % 7) as i64;
        sc.set("format", format);
        let m128 = rng.bool();
        sc.set("m128", m128 as i64);
        // file model may differ from the machine model (mismatch matrix)
        let file128 = if rng.chance(1, 4) { !m128 } else { m128 };
        let mode = match (idx / 7) % 6 {
            0 => 0, // sweep
            5 => 2, // random
            4 if format <= 1 => 3, // field sweep over the fixed-layout parts
            _ => 1, // mutate
        };
        sc.set("mode", mode);
        sc.set("chunk", *rng.pick(&[0i64, 0, 1, 7, 100, 4096]));
        sc.set("eof_err", rng.bool() as i64);
        sc.set("mseed", (rng.next() >> 8) as i64);
        if mode == 2 {
            let len = if tier == Tier::Quick { *rng.pick(&[0usize, 1, 7, 27, 100, 5000, 49179]) } else { *rng.pick(&[0usize, 1, 7, 27, 100, 5000, 49179, 131103, 163840]) };
            let mut d = rng.bytes(len);
            // keep the magic in half of the cases so that parsing gets past the first check
            if rng.bool() && d.len() >= 8 {
                match format {
                    1 => d[..4].copy_from_slice(b"ZXST"),
                    6 => d[..2].copy_from_slice(b"ay"),
                    5 => d[..3].copy_from_slice(&[0x1F, 0x8B, 8]),
                    _ => {}
                }
            }
            sc.push(Op::blob("file", &[], d));
        } else {
            if mode == 3 && format == 1 {
                let s = sample_state(rng, file128);
                let opt = SzxOptions { compress: vec![true; 8], order_seed: 0, unknown_chunks: 1, with_creator: true, with_ay: true, with_keyb: true, with_mouse: true, fe_low: None, fe_hi: 0, ..Default::default() };
                sc.push(Op::blob("file", &[], write_szx(&s, &opt)));
            } else {
                sc.push(Op::blob("file", &[], corpus(format as usize, rng, file128)));
            }
        }
        sc
    }

    fn exec(&self, sc: &Scenario, ctx: &mut RunCtx) -> Result<(), Fail> {
        let format = sc.get("format").clamp(0, 6) as usize;
        let m128 = sc.get("m128") != 0;
        let base = sc.ops.iter().find(|o| o.k == "file").map(|o| o.b.clone()).unwrap_or_default();
        let chunk = sc.get("chunk").max(0) as usize;
        let eof = if sc.get("eof_err") != 0 { EofStyle::Err } else { EofStyle::Ok0 };
        match eof {
            EofStyle::Ok0 => ctx.probe("eof_ok0"),
            EofStyle::Err => ctx.probe("eof_err"),
        }
        if chunk > 0 {
            ctx.probe("short_reads");
            ctx.fault("short_read(n)");
        }
        let note = |o: &CaseOutcome, ctx: &mut RunCtx| match o.result {
            "ok" => ctx.probe("outcome_ok"),
            "err" => ctx.probe("outcome_err"),
            _ => {}
        };
        match sc.get("mode") {
            0 => {
                // fault enumeration over the asset calls of this load
                let clean = self.one_case(format, m128, &base, chunk, eof, Fault::None, ctx, "clean load");
                note(&clean, ctx);
                let n = clean.calls.min(400);
                for k in 0..n {
                    let o = self.one_case(format, m128, &base, chunk, eof, Fault::ReadErr(k), ctx, &format!("read error at asset call {}", k));
                    note(&o, ctx);
                    ctx.probe("sweep_read_err");
                    ctx.fault("read_err@k");
                    if format <= 3 {
                        let o = self.one_case(format, m128, &base, chunk, eof, Fault::SeekErr(k), ctx, &format!("seek error at seek call {}", k));
                        note(&o, ctx);
                        ctx.probe("sweep_seek_err");
                        ctx.fault("seek_err@k");
                    }
                }
                // both EOF styles on the file cut at every structural prefix class
                for cut in [0usize, 1, 8, 26, 27, base.len() / 2, base.len().saturating_sub(1)] {
                    let d = &base[..cut.min(base.len())];
                    for st in [EofStyle::Ok0, EofStyle::Err] {
                        let o = self.one_case(format, m128, d, chunk, st, Fault::None, ctx, &format!("file truncated to {} bytes", d.len()));
                        note(&o, ctx);
                        ctx.fault("truncate@n");
                    }
                }
            }
            3 => {
                // field sweep: every byte of the fixed-layout parts (SNA header; SZX header and the small
                // chunks) takes a few boundary values, one at a time
                let mut positions: Vec<usize> = vec![];
                if format == 0 {
                    positions.extend(0..27.min(base.len()));
                    if base.len() > 49182 {
                        positions.extend(49179..49183);
                    }
                } else {
                    positions.extend(0..8.min(base.len()));
                    let mut p = 8usize;
                    while p + 8 <= base.len() {
                        let sz = u32::from_le_bytes([base[p + 4], base[p + 5], base[p + 6], base[p + 7]]) as usize;
                        positions.extend(p..p + 8);
                        if sz < 64 {
                            positions.extend(p + 8..(p + 8 + sz).min(base.len()));
                        } else {
                            positions.extend(p + 8..(p + 8 + 3).min(base.len()));
                        }
                        p = p.saturating_add(8).saturating_add(sz);
                    }
                }
                let mut rng = Rng::new(sc.get("mseed") as u64);
                for &pos in &positions {
                    for v in [0xFFu8, 0x10, 0x80, 0x03, rng.u8()] {
                        if base[pos] == v {
                            continue;
                        }
                        let mut d = base.clone();
                        d[pos] = v;
                        let o = self.one_case(format, m128, &d, chunk, eof, Fault::None, ctx, &format!("byte {} of the file set to {:02X}", pos, v));
                        note(&o, ctx);
                        ctx.probe("field_sweep");
                        ctx.fault("len_field_tamper");
                    }
                }
            }
            1 => {
                let mut rng = Rng::new(sc.get("mseed") as u64);
                for i in 0..12 {
                    let d = mutate(format, &base, &mut rng);
                    let o = self.one_case(format, m128, &d, chunk, eof, Fault::None, ctx, &format!("mutation #{} (seed {})", i, sc.get("mseed")));
                    note(&o, ctx);
                    ctx.probe("mutated");
                    ctx.fault("bitflip/len_field_tamper");
                }
            }
            _ => {
                let o = self.one_case(format, m128, &base, chunk, eof, Fault::None, ctx, "random bytes");
                note(&o, ctx);
                ctx.probe("random_bytes");
            }
        }
        Ok(())
    }
}
