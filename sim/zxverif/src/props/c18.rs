//! C18 — the AY chip turns any register history into the sound its registers define.
//! The real `AymPrecise` driven by seeded register-write histories interleaved with sample
//! generation; probe segments isolate one feature (pitch, noise rate, envelope contour, volume
//! ladder, mixer gating, panning, bound) which is measured from the PCM with analytic oracles
//! and tolerances. Port read-back through the real machine.

use crate::machine::*;
#[allow(unused_imports)]
use crate::machine::{drain_audio, run_frames, write_mem, Emu};
use crate::prng::{Fnv, Rng};
use crate::runner::{Fail, Property, RunCtx, Tier};
use crate::scenario::Scenario;
use aym::{AyMode, AymBackend, AymPrecise, SoundChip};
use rustzx_z80::Z80Bus;

pub struct C18;

const CLK: f64 = 1_773_400.0;

fn mode_of(i: i64) -> AyMode {
    match i.rem_euclid(7) {
        0 => AyMode::Mono,
        1 => AyMode::ABC,
        2 => AyMode::ACB,
        3 => AyMode::BAC,
        4 => AyMode::BCA,
        5 => AyMode::CAB,
        _ => AyMode::CBA,
    }
}

/// (left?, right?) presence of channel ch in mode m: 0 = both, 1 = left only, 2 = right only
fn pan_of(mode: i64, ch: usize) -> u8 {
    // table of the aym documentation: rows Mono, ABC, ACB, BAC, BCA, CAB, CBA ; 0 both 1 left 2 right
    const T: [[u8; 3]; 7] = [[0, 0, 0], [1, 0, 2], [1, 2, 0], [0, 1, 2], [2, 1, 0], [0, 2, 1], [2, 0, 1]];
    T[mode.rem_euclid(7) as usize][ch]
}

struct Chip {
    ay: AymPrecise,
    n: u64,
    worst: f64,
    nonfinite: bool,
}

impl Chip {
    fn new(ym: bool, mode: i64, rate: usize) -> Chip {
        Chip { ay: AymPrecise::new(if ym { SoundChip::YM } else { SoundChip::AY }, mode_of(mode), CLK as usize, rate), n: 0, worst: 0.0, nonfinite: false }
    }
    fn w(&mut self, r: u8, v: u8) {
        self.ay.write_register(r, v);
    }
    fn gen(&mut self, n: usize, out: Option<&mut Vec<(f64, f64)>>) {
        let mut sink = out;
        for _ in 0..n {
            let s = self.ay.next_sample();
            self.n += 1;
            if !s.left.is_finite() || !s.right.is_finite() {
                self.nonfinite = true;
            }
            self.worst = self.worst.max(s.left.abs()).max(s.right.abs());
            if let Some(v) = sink.as_deref_mut() {
                v.push((s.left, s.right));
            }
        }
    }
    /// random garbage history: writes at random sample offsets
    fn garbage(&mut self, rng: &mut Rng, writes: usize) {
        for _ in 0..writes {
            let r = rng.below(14) as u8;
            self.w(r, rng.u8());
            let n = rng.below(200) as usize;
            self.gen(n, None);
        }
    }
    /// silence everything: mixer all off, volumes 0
    fn quiet(&mut self) {
        self.w(7, 0x3F);
        for r in 8..=10 {
            self.w(r, 0);
        }
    }
}

/// zero-crossing frequency of a mono signal (mean removed, hysteresis 10% of the swing)
fn zc_freq(x: &[f64], rate: f64) -> (f64, f64) {
    let mean = x.iter().sum::<f64>() / x.len() as f64;
    let (mut lo, mut hi) = (f64::MAX, f64::MIN);
    for &v in x {
        lo = lo.min(v);
        hi = hi.max(v);
    }
    let swing = hi - lo;
    let th = swing * 0.1;
    let mut state = 0i8;
    let mut crossings = 0u64;
    let mut first = None;
    let mut last = 0usize;
    for (i, &v) in x.iter().enumerate() {
        let d = v - mean;
        let s = if d > th {
            1
        } else if d < -th {
            -1
        } else {
            state
        };
        if s != state && state != 0 && s != 0 {
            crossings += 1;
            if first.is_none() {
                first = Some(i);
            }
            last = i;
        }
        if s != 0 {
            state = s;
        }
    }
    match first {
        Some(f) if crossings >= 2 => ((crossings - 1) as f64 / 2.0 / ((last - f) as f64 / rate), swing),
        _ => (0.0, swing),
    }
}

fn left(v: &[(f64, f64)]) -> Vec<f64> {
    v.iter().map(|s| s.0).collect()
}
fn energy(x: &[f64]) -> f64 {
    let mean = x.iter().sum::<f64>() / x.len().max(1) as f64;
    x.iter().map(|v| (v - mean) * (v - mean)).sum::<f64>()
}

impl Property for C18 {
    fn id(&self) -> &'static str {
        "C18"
    }
    fn runs(&self, tier: Tier) -> u64 {
        match tier {
            Tier::Quick => 2_200,
            Tier::Thorough => 48_000,
        }
    }
    fn rule(&self) -> &'static str {
        "per run: chip (AY/YM), stereo mode (7), sample rate (8000..384000), a random register-write history interleaved with sample generation, then one probe segment: tone pitch (channel, TP incl. 0), noise rate (NP incl. 0), envelope contour (16 shapes, EP), volume ladder (16 steps, AY and YM), mixer gating (64 masks), panning (mode x channel), bound (random history only), port read-back through the real machine (register numbers 0..255), order independence of register writes, or listener independence (a channel that starts to listen to the tone / noise / envelope generator late hears exactly what one that listened all along hears); one-shot envelopes followed over 140000 steps (EP 1..3); machine-level twin switched on after 52..82 frames of zero amplitude; distinct = (feature, parameter bucket, rate bucket, mode, chip)"
    }
    fn state_measure(&self) -> &'static str {
        "none (see distinct)"
    }
    fn real_components(&self) -> Vec<&'static str> {
        vec!["aym::AymPrecise (tone/noise/envelope generators, mixer, DAC tables, panning, resampler)", "ZXAyChip + ZXController AY ports (read-back probe)"]
    }
    fn stub_components(&self) -> Vec<&'static str> {
        vec!["signal-feature extractors (zero-crossing pitch, transition rate, envelope contour, energy ratios)"]
    }
    fn assumptions(&self) -> Vec<&'static str> {
        vec![
            "analytic oracles with tolerances: pitch 1.5% + 2 Hz for f < 0.2*rate (above that the resampler's low-pass legitimately attenuates the tone); noise transition rate f_clk/(32*NP) +-15% for f_noise < 0.3*rate; envelope cycle 256*EP/f_clk +-3%; a 1% pitch error or a wrong noise polynomial would pass",
            "weakest fit of the twenty: the pitch/shape clauses are pure; the simulated dimension is the interleaving of register writes with sample generation and the sample rate",
            "|sample| <= 4 is the bound used (three channels of at most 1.0 each plus filter overshoot)",
        ]
    }
    fn expected_probes(&self) -> Vec<&'static str> {
        vec!["pitch", "pitch_tp0", "noise", "envelope", "envelope_period_measured", "ladder", "gating", "panning", "bound", "readback", "rate_below_27k", "ym_chip", "order_independence", "machine_retrigger", "listener_independence", "mirrored_register_numbers", "host_mute_unmute", "envelope_long_hold", "machine_long_silence", "ultrasonic_tone_mean", "dc_filter_long_run", "ay_keeps_playing_over_sna_load"]
    }
    fn time_unit_hz(&self) -> f64 {
        44_100.0
    }

    fn gen(&self, rng: &mut Rng, _tier: Tier, idx: u64) -> Scenario {
        let mut sc = Scenario::new();
        sc.set("feature", (idx % 11) as i64);
        sc.set("dc_long", (idx % 1100 == 7) as i64);
        sc.set("ym", rng.bool() as i64);
        sc.set("mode", rng.range(0, 6));
        let rate = if rng.bool() { *rng.pick(&super::c19::RATES) as i64 } else { rng.range(8000, 384000) };
        sc.set("rate", rate);
        sc.set("seed", (rng.next() >> 8) as i64);
        sc.set("ch", rng.range(0, 2));
        sc.set("garbage", rng.range(0, 30));
        match idx % 11 {
            10 => {
                sc.set("sub", rng.range(0, 3));
                sc.set("shape", rng.range(0, 15));
                sc.set("ep", *rng.pick(&[1i64, 2, 5, 20, 100, 400]));
                sc.set("idle_permille", rng.range(0, 6000));
            }
            0 => {
                let tp = match rng.below(6) {
                    0 => 0,
                    1 => 1,
                    2 => rng.range(2, 40),
                    3 => rng.range(3000, 4095),
                    _ => rng.range(40, 3000),
                };
                sc.set("tp", tp);
            }
            1 => {
                sc.set("np", rng.range(0, 31));
            }
            2 => {
                sc.set("shape", rng.range(0, 15));
                sc.set("ep", *rng.pick(&[1i64, 2, 5, 20, 100, 400, 1000]));
            }
            5 => {
                sc.set("mask", rng.range(0, 63));
            }
            _ => {}
        }
        sc
    }

    fn exec(&self, sc: &Scenario, ctx: &mut RunCtx) -> Result<(), Fail> {
        let feature = sc.get("feature").clamp(0, 10);
        let ym = sc.get("ym") != 0;
        let mode = sc.get("mode").clamp(0, 6);
        let rate = sc.get("rate").clamp(8000, 384000) as usize;
        let ch = sc.get("ch").clamp(0, 2) as usize;
        let mut rng = Rng::new(sc.get("seed") as u64);
        let fr = rate as f64;
        if rate < 27_000 {
            ctx.probe("rate_below_27k");
        }
        if ym {
            ctx.probe("ym_chip");
        }
        let rate_bucket = match rate {
            0..=27_709 => 0,
            27_710..=50_000 => 1,
            50_001..=150_000 => 2,
            _ => 3,
        };
        let cover = |ctx: &mut RunCtx, param: u64| {
            let mut h = Fnv::new();
            h.u64(feature as u64);
            h.u64(param);
            h.u64(rate_bucket);
            h.u64(mode as u64);
            h.u8(ym as u8);
            ctx.cover(h.get());
        };
        if sc.get("dc_long") != 0 {
            // ---- the output stage over a long run: with the DC filter on (as rustzx uses the chip), a channel panned
            // hard to one side never appears on the other side, however long the chip has been generating samples
            // (2.2 million here: internal sums that are rebuilt or renormalised now and then get their turn)
            ctx.probe("dc_filter_long_run");
            let mut ay = AymPrecise::new(if ym { SoundChip::YM } else { SoundChip::AY }, AyMode::ABC, CLK as usize, 384_000);
            ay.enable_dc_filter();
            ay.write_register(7, 0x3E);
            ay.write_register(0, 200);
            ay.write_register(1, 0);
            ay.write_register(8, 15);
            let mut worst = 0f64;
            let mut at = 0usize;
            for i in 0..2_200_000usize {
                let s = ay.next_sample();
                if i > 4096 && s.right.abs() > worst {
                    worst = s.right.abs();
                    at = i;
                }
                if !s.left.is_finite() || !s.right.is_finite() {
                    return Err(Fail::new("C18.bound", "dc_long=1", format!("non-finite sample {} of a long run", i)));
                }
            }
            if worst > 1e-3 {
                return Err(Fail::new("C18.panning", "dc_long=1", format!("channel A (ABC mode: left only) appears on the right output with |right| = {:.4} at sample {} of a long run with the DC filter on", worst, at)));
            }
            ctx.units += 1;
            ctx.sim_t += 2_200_000 * 44100 / 384_000;
            return Ok(());
        }
        if feature == 8 {
            // ---- order independence: registers are latches. Two chips with identical histories are
            // programmed with the same final register file, one in ascending order, one in a seeded
            // permutation with redundant re-writes of the same values (R13, whose write restarts the
            // envelope, is written once and last in both). The streams must be bit-identical.
            ctx.probe("order_independence");
            let mut a = Chip::new(ym, mode, rate);
            let mut b = Chip::new(ym, mode, rate);
            let garbage = sc.get("garbage").clamp(0, 200) as usize;
            let mut ga = rng.clone();
            let mut gb = rng.clone();
            a.garbage(&mut ga, garbage);
            b.garbage(&mut gb, garbage);
            let _ = rng.next();
            let mut regs = [0u8; 14];
            let mut r3 = Rng::new(sc.get("seed") as u64 ^ 0x0DE5);
            r3.fill(&mut regs);
            regs[7] &= 0x3F;
            for r in 0..13u8 {
                a.w(r, regs[r as usize]);
            }
            let mut order: Vec<u8> = (0..13).collect();
            for i in (1..order.len()).rev() {
                let j = r3.below(i as u64 + 1) as usize;
                order.swap(i, j);
            }
            for &r in &order {
                b.w(r, regs[r as usize]);
            }
            // redundant re-writes of values already in place (idempotent on a real chip)
            for _ in 0..r3.below(6) {
                let r = r3.below(13) as u8;
                b.w(r, regs[r as usize]);
            }
            a.w(13, regs[13]);
            b.w(13, regs[13]);
            let n = 3000;
            let (mut oa, mut ob) = (vec![], vec![]);
            a.gen(n, Some(&mut oa));
            b.gen(n, Some(&mut ob));
            if let Some(i) = oa.iter().zip(ob.iter()).position(|(x, y)| x.0.to_bits() != y.0.to_bits() || x.1.to_bits() != y.1.to_bits()) {
                return Err(Fail::new(
                    "C18.order_dependence",
                    &format!("chip={}", if ym { "ym" } else { "ay" }),
                    format!("the same register contents {:02X?} written in ascending order and in the order {:?} (plus idempotent re-writes) give different signals from sample {} on", regs, order, i),
                ));
            }
            cover(ctx, 0);
            ctx.units += 1;
            return Ok(());
        }
        if feature == 10 {
            // ---- listener independence: the tone, noise and envelope generators of the chip run whether
            // or not anything listens to them; mixer and amplitude registers only gate / select. Two chips
            // with identical histories: on one the channel listens (tone or noise enabled, envelope mode or
            // volume set) during an idle time, on the other only from the end of it. From then on (after
            // the resampler's finite memory) the two streams must be bit-identical.
            ctx.probe("listener_independence");
            let sub = sc.get("sub").clamp(0, 3);
            let shape = sc.get("shape").clamp(0, 15) as u8;
            let ep = sc.get("ep").clamp(1, 2000) as u16;
            let mut a = Chip::new(ym, mode, rate);
            let mut b = Chip::new(ym, mode, rate);
            let garbage = sc.get("garbage").clamp(0, 200) as usize;
            let mut ga = rng.clone();
            let mut gb = rng.clone();
            a.garbage(&mut ga, garbage);
            b.garbage(&mut gb, garbage);
            let mut r3 = Rng::new(sc.get("seed") as u64 ^ 0x11D1E);
            let tp = r3.range(20, 2000) as u16;
            let np = r3.range(1, 31) as u8;
            let v = 1 + (r3.u8() % 15);
            let spc = 256.0 * ep as f64 / CLK * fr; // samples per envelope ramp
            let idle = ((spc * sc.get("idle_permille").clamp(0, 6000) as f64 / 1000.0) as usize).min(300_000);
            let chb = ch as u8;
            for c in [&mut a, &mut b] {
                c.quiet();
                c.w(chb * 2, tp as u8);
                c.w(chb * 2 + 1, (tp >> 8) as u8);
                c.w(6, np);
                c.w(11, ep as u8);
                c.w(12, (ep >> 8) as u8);
            }
            // (register, value while idle on the late chip, value while listening)
            let (reg, idle_v, listen_v, r7): (u8, u8, u8, u8) = match sub {
                0 => (8 + chb, v, 0x10 | v, 0x3F),                         // envelope mode bit
                1 => (7, 0x3F, 0x3F & !(1 << chb), 0),                     // tone enable
                2 => (7, 0x3F, 0x3F & !(8 << chb), 0),                     // noise enable
                _ => (8 + chb, 0, v, 0x3F & !(1 << chb) & !(8 << chb)),    // volume
            };
            if sub == 1 || sub == 2 {
                a.w(8 + chb, v);
                b.w(8 + chb, v);
            } else {
                a.w(7, r7);
                b.w(7, r7);
            }
            a.w(reg, listen_v);
            b.w(reg, idle_v);
            a.gen(64, None);
            b.gen(64, None);
            a.w(13, shape);
            b.w(13, shape);
            a.gen(idle, None);
            b.gen(idle, None);
            a.w(reg, listen_v);
            b.w(reg, listen_v);
            let n = 2500;
            let (mut oa, mut ob) = (vec![], vec![]);
            a.gen(n, Some(&mut oa));
            b.gen(n, Some(&mut ob));
            let skip = 64;
            if let Some(i) = oa.iter().zip(ob.iter()).skip(skip).position(|(x, y)| x.0.to_bits() != y.0.to_bits() || x.1.to_bits() != y.1.to_bits()) {
                let what = ["envelope mode (bit 4 of the amplitude register)", "the tone enable bit", "the noise enable bit", "a non-zero volume"][sub as usize];
                return Err(Fail::new(
                    "C18.listener_dependence",
                    &format!("sub={},oneshot={}", sub, (sub == 0 && (shape < 8 || shape & 1 == 1)) as u8),
                    format!(
                        "channel {} given {} {} samples ({:.2} envelope ramps; shape {} EP={} TP={} NP={}) after the generators were started differs from sample {} on from a chip on which it listened all the time: {:?} vs {:?}",
                        ch,
                        what,
                        idle,
                        idle as f64 / spc,
                        shape,
                        ep,
                        tp,
                        np,
                        skip + i,
                        ob[skip + i],
                        oa[skip + i]
                    ),
                ));
            }
            cover(ctx, sub as u64 * 16 + shape as u64);
            ctx.units += 1;
            ctx.sim_t += (idle + n) as u64 * 44100 / rate as u64;
            return Ok(());
        }
        if feature == 9 {
            // ---- through the real machine: every write to R13 restarts the envelope, also with the value
            // it already holds; re-writing any other register with its own value changes nothing
            ctx.probe("machine_retrigger");
            let cfg = MCfg { m128: rng.bool(), ay: true, beeper: false, rate: 44100, ..Default::default() };
            let mut e = new_emu(&cfg);
            write_mem(&mut e, 0x8000, &[0xF3, 0x18, 0xFE]);
            let mut st = crate::cpustate::CpuState::default();
            st.pc = 0x8000;
            st.sp = 0x8FF0;
            st.to_impl(e.verif_cpu());
            if (sc.get("seed") >> 9) & 3 == 1 {
                // ---- the chip plays what its registers say, also across a host action that does not touch it: a
                // steady tone is programmed, the host loads an SNA snapshot (the format carries no AY state), and the
                // registers still read back as before - so the tone must still be there
                ctx.probe("ay_keeps_playing_over_sna_load");
                let chb = ch as u8;
                let tp: u16 = 200 + rng.u16() % 1500;
                let mut wr = |e: &mut Emu, r: u8, v: u8| {
                    e.verif_bus().write_io(0xFFFD, r);
                    e.verif_bus().write_io(0xBFFD, v);
                };
                wr(&mut e, 7, 0x3F & !(1 << chb));
                wr(&mut e, chb * 2, tp as u8);
                wr(&mut e, chb * 2 + 1, (tp >> 8) as u8);
                for k in 0..3u8 {
                    wr(&mut e, 8 + k, if k == chb { 0x0F } else { 0 });
                }
                let swing_of = |e: &mut Emu| -> Result<f32, Fail> {
                    let mut v = vec![];
                    for _ in 0..3 {
                        run_frames(e, 1).map_err(|x| Fail::new("C18.run", "", x))?;
                        drain_audio(e, &mut v);
                    }
                    let tail = &v[v.len() / 2..];
                    let (lo, hi) = tail.iter().fold((f32::MAX, f32::MIN), |a, s| (a.0.min(s.0.max(s.1)), a.1.max(s.0.max(s.1))));
                    Ok(hi - lo)
                };
                let before = swing_of(&mut e)?;
                let mut sn = crate::snapfmt::SnapState::new(cfg.m128);
                sn.cpu.pc = 0x8000;
                sn.cpu.sp = 0x8FF0;
                sn.banks[2][..3].copy_from_slice(&[0xF3, 0x18, 0xFE]);
                let bytes = if cfg.m128 { crate::snapfmt::write_sna128(&sn) } else { crate::snapfmt::write_sna48(&sn) };
                e.load_snapshot(rustzx_core::host::Snapshot::Sna(crate::host::SimAsset::plain(bytes))).map_err(|x| Fail::new("C18.load", "", format!("{:?}", x)))?;
                e.verif_bus().write_io(0xFFFD, 8 + chb);
                let r8 = e.verif_bus().read_io(0xFFFD);
                let after = swing_of(&mut e)?;
                // the same across an SZX load (no AY chunk in the file), on a machine configured for mono output: the
                // channel stays on both sides with equal weight
                {
                    let mcfg = MCfg { m128: cfg.m128, ay: true, ay_mode: 0, beeper: false, rate: 44100, ..Default::default() };
                    let mut m = new_emu(&mcfg);
                    wr(&mut m, 7, 0x3F & !(1 << chb));
                    wr(&mut m, chb * 2, tp as u8);
                    wr(&mut m, chb * 2 + 1, (tp >> 8) as u8);
                    for k in 0..3u8 {
                        wr(&mut m, 8 + k, if k == chb { 0x0F } else { 0 });
                    }
                    let mut sn2 = sn.clone();
                    sn2.ay_regs = [0; 16];
                    sn2.ay_regs[7] = 0x3F & !(1 << chb);
                    sn2.ay_regs[(chb * 2) as usize] = tp as u8;
                    sn2.ay_regs[(chb * 2 + 1) as usize] = (tp >> 8) as u8;
                    sn2.ay_regs[(8 + chb) as usize] = 0x0F;
                    let bytes = crate::snapfmt::write_szx(&sn2, &crate::snapfmt::SzxOptions { with_ay: true, ..Default::default() });
                    m.load_snapshot(rustzx_core::host::Snapshot::Szx(crate::host::SimAsset::plain(bytes))).map_err(|x| Fail::new("C18.load", "", format!("{:?}", x)))?;
                    let mut v = vec![];
                    for _ in 0..3 {
                        run_frames(&mut m, 1).map_err(|x| Fail::new("C18.run", "", x))?;
                        drain_audio(&mut m, &mut v);
                    }
                    let worst = v.iter().map(|s| (s.0 - s.1).abs()).fold(0f32, f32::max);
                    let swing = v.iter().fold((f32::MAX, f32::MIN), |a, s| (a.0.min(s.0), a.1.max(s.0)));
                    if swing.1 - swing.0 > 0.05 && worst > 1e-4 {
                        return Err(Fail::new("C18.panning", "after=szx_load,mode=mono", format!("mono output mode: after the host loaded an SZX snapshot left and right differ by up to {:.3} (channel {})", worst, ch)));
                    }
                }
                if r8 & 0x0F == 0x0F && before > 0.05 && after < before * 0.5 {
                    return Err(Fail::new(
                        "C18.silent_although_registers_say_otherwise",
                        "after=sna_load",
                        format!("channel {} plays a tone (swing {:.3}); after the host loaded an SNA snapshot its amplitude register still reads {:02X} but the swing is {:.3}", ch, before, r8, after),
                    ));
                }
                cover(ctx, 5000);
                ctx.units += 1;
                return Ok(());
            }
            if (sc.get("seed") >> 9) & 3 == 0 {
                // ---- the generators run while nothing is audible: a program keeps every amplitude register at
                // zero for more than a second and then switches a channel on. A twin machine on which that
                // channel was on all the time must sound the same from then on (tone phase, envelope position).
                ctx.probe("machine_long_silence");
                let mut t = new_emu(&cfg);
                write_mem(&mut t, 0x8000, &[0xF3, 0x18, 0xFE]);
                st.to_impl(t.verif_cpu());
                let chb = ch as u8;
                let shape = *rng.pick(&[8u8, 10, 12, 14, 10, 14]);
                let ep: u16 = 1000 + rng.u16() % 3000; // ramp of 0.14 .. 0.58 s
                let tp: u16 = 300 + rng.u16() % 3000;
                let silent = 52 + rng.below(30) as usize;
                let amp = if rng.bool() { 0x10 } else { 0x0F };
                for (m, on) in [(&mut e, false), (&mut t, true)] {
                    let mut wr = |r: u8, v: u8| {
                        m.verif_bus().write_io(0xFFFD, r);
                        m.verif_bus().write_io(0xBFFD, v);
                    };
                    wr(7, 0x3F & !(1 << chb));
                    wr(chb * 2, tp as u8);
                    wr(chb * 2 + 1, (tp >> 8) as u8);
                    wr(11, ep as u8);
                    wr(12, (ep >> 8) as u8);
                    for k in 0..3u8 {
                        wr(8 + k, 0);
                    }
                    wr(13, shape);
                    wr(8 + chb, if on { amp } else { 0 });
                }
                // (the host takes the samples of every frame: the mixer stops generating when nobody does)
                let play = |m: &mut Emu, frames: usize, out: &mut Vec<(f32, f32)>| -> Result<(), Fail> {
                    for _ in 0..frames {
                        run_frames(m, 1).map_err(|x| Fail::new("C18.run", "", x))?;
                        drain_audio(m, out);
                    }
                    Ok(())
                };
                let mut sink = vec![];
                for m in [&mut e, &mut t] {
                    play(m, silent, &mut sink)?;
                    m.verif_bus().write_io(0xFFFD, 8 + chb);
                    m.verif_bus().write_io(0xBFFD, amp);
                    // two frames for the output stage's memory of the switch-on (FIR resampler, then a DC filter
                    // that subtracts the mean of the last 1024 samples)
                    play(m, 2, &mut sink)?;
                    sink.clear();
                }
                let (mut a, mut b) = (vec![], vec![]);
                play(&mut e, 4, &mut a)?;
                play(&mut t, 4, &mut b)?;
                let swing = b.iter().fold((f32::MAX, f32::MIN), |a, s| (a.0.min(s.0), a.1.max(s.0)));
                let sw = (swing.1 - swing.0).max(1e-6);
                let worst = a.iter().zip(b.iter()).map(|(x, y)| (x.0 - y.0).abs().max((x.1 - y.1).abs())).fold(0f32, f32::max);
                if std::env::var("VERIF_DEBUG").is_ok() {
                    for i in (0..a.len().min(3528)).step_by(40) {
                        eprintln!("{} a {:?} b {:?}", i, a[i], b[i]);
                    }
                }
                if a.len() != b.len() || worst > 0.001 * sw {
                    return Err(Fail::new(
                        "C18.silence_stops_generators",
                        &format!("envelope={}", (amp == 0x10) as u8),
                        format!(
                            "channel {} (TP={}, envelope shape {} EP={}) switched on after {} frames with all amplitude registers at zero differs from a machine on which it was on all the time: largest difference {:.5} of a swing of {:.4}",
                            ch, tp, shape, ep, silent, worst, sw
                        ),
                    ));
                }
                cover(ctx, 4000 + (amp == 0x10) as u64);
                ctx.units += 1;
                ctx.sim_t += (2 * (silent + 5)) as u64 * 882;
                return Ok(());
            }
            let shape = *rng.pick(&[0u8, 1, 2, 3, 9, 4, 15]); // one-shot shapes ending at zero
            let ep: u16 = 200 + (rng.u16() % 200); // ramp of 29..58 ms
            let ch = ch as u8;
            // register numbers wrap modulo 16: in half of the runs every number is written with seeded upper
            // bits; a twin machine gets the plain numbers and must sound bit-identical
            let hi_bits: u8 = if rng.bool() { *rng.pick(&[0x10u8, 0x80, 0xF0, 0x50]) } else { 0 };
            let mut twin = if hi_bits != 0 { Some(new_emu(&cfg)) } else { None };
            if let Some(t) = twin.as_mut() {
                ctx.probe("mirrored_register_numbers");
                write_mem(t, 0x8000, &[0xF3, 0x18, 0xFE]);
                st.to_impl(t.verif_cpu());
                let prog = |e: &mut Emu, hb: u8| -> Vec<(f32, f32)> {
                    let mut v = vec![];
                    for (r, val) in [(7u8, 0x3Eu8 & !(1 << ch) | 0x38), (ch * 2, 0x40), (ch * 2 + 1, 0x01), (8 + ch, 0x0C)] {
                        e.verif_bus().write_io(0xFFFD, r | hb);
                        e.verif_bus().write_io(0xBFFD, val);
                    }
                    let _ = run_frames(e, 3);
                    drain_audio(e, &mut v);
                    // back to silence
                    e.verif_bus().write_io(0xFFFD, (8 + ch) | hb);
                    e.verif_bus().write_io(0xBFFD, 0);
                    // let the resampler's memory of the tone drain before the next clause measures a swing
                    let _ = run_frames(e, 1);
                    let mut sink = vec![];
                    drain_audio(e, &mut sink);
                    v
                };
                let a = prog(&mut e, hi_bits);
                let b = prog(t, 0);
                let swing = |v: &Vec<(f32, f32)>| v.iter().fold((f32::MAX, f32::MIN), |a, s| (a.0.min(s.0.max(s.1)), a.1.max(s.0.max(s.1))));
                let (sa, sb) = (swing(&a), swing(&b));
                if a.len() != b.len() || a.iter().zip(b.iter()).any(|(x, y)| x.0.to_bits() != y.0.to_bits() || x.1.to_bits() != y.1.to_bits()) {
                    return Err(Fail::new(
                        "C18.mirrored_register_number",
                        &format!("hi_bits={:02X}", hi_bits),
                        format!("a tone programmed through register numbers n|{:02X} sounds different from the same tone programmed through the plain numbers (swing {:.3} vs {:.3})", hi_bits, sa.1 - sa.0, sb.1 - sb.0),
                    ));
                }
            }
            let wr = |e: &mut Emu, r: u8, v: u8| {
                e.verif_bus().write_io(0xFFFD, r | hi_bits);
                e.verif_bus().write_io(0xBFFD, v);
            };
            wr(&mut e, 7, 0x3F);
            wr(&mut e, 8 + ch, 0x10);
            wr(&mut e, 11, ep as u8);
            wr(&mut e, 12, (ep >> 8) as u8);
            let energy = |e: &mut Emu, frames: usize| -> Result<f64, Fail> {
                let mut v = vec![];
                drain_audio(e, &mut v);
                v.clear();
                let mut total = 0.0;
                for _ in 0..frames {
                    run_frames(e, 1).map_err(|x| Fail::new("C18.run", "", x))?;
                    drain_audio(e, &mut v);
                }
                let (lo, hi) = v.iter().fold((f32::MAX, f32::MIN), |a, s| (a.0.min(s.0.max(s.1)), a.1.max(s.0.max(s.1))));
                total += (hi - lo) as f64;
                Ok(total)
            };
            wr(&mut e, 13, shape);
            let e1 = energy(&mut e, 2)?;
            let quiet = energy(&mut e, 8)?;
            let tail = energy(&mut e, 2)?;
            // the host mutes and un-mutes AY sound: a finished one-shot envelope stays finished (nothing
            // wrote R13)
            e.set_ay_enabled(false);
            let _ = energy(&mut e, 2)?;
            e.set_ay_enabled(true);
            let after_unmute = energy(&mut e, 3)?;
            ctx.probe("host_mute_unmute");
            if e1 >= 0.05 && tail <= e1 * 0.2 && after_unmute > e1 * 0.2 {
                return Err(Fail::new(
                    "C18.host_mute_retriggers",
                    &format!("shape={}", shape),
                    format!("after the host switched AY sound off and on again the finished envelope (shape {}) was heard again: swing {:.3} (first burst {:.3}, silence before {:.3})", shape, after_unmute, e1, tail),
                ));
            }
            // idempotent re-writes of the other registers: still silent
            wr(&mut e, 7, 0x3F);
            wr(&mut e, 8 + ch, 0x10);
            wr(&mut e, 11, ep as u8);
            let still = energy(&mut e, 2)?;
            // same shape value again: must burst again
            wr(&mut e, 13, shape);
            let e2 = energy(&mut e, 2)?;
            if e1 < 0.05 || tail > e1 * 0.2 {
                // the first burst itself is the envelope clause (feature 2); only judge when it is sane
                cover(ctx, 1);
                return Ok(());
            }
            if still > e1 * 0.2 {
                return Err(Fail::new("C18.rewrite_not_idempotent", "", format!("re-writing R7, R{}, R11 with the values they already hold made the silent channel audible (swing {:.3} vs burst {:.3})", 8 + ch, still, e1)));
            }
            if std::env::var("VERIF_DEBUG").is_ok() {
                eprintln!("C18 f9 shape {} ep {} hi {:02X}: e1 {:.3} quiet {:.3} tail {:.3} after_unmute {:.3} still {:.3} e2 {:.3}", shape, ep, hi_bits, e1, quiet, tail, after_unmute, still, e2);
            }
            if e2 < e1 * 0.5 {
                return Err(Fail::new(
                    "C18.envelope_retrigger",
                    &format!("shape={}", shape),
                    format!("writing envelope shape {} to R13 a second time (same value) through the ports did not restart the envelope: swing of the first burst {:.3}, after the second write {:.3}", shape, e1, e2),
                ));
            }
            cover(ctx, shape as u64);
            ctx.units += 1;
            return Ok(());
        }
        if feature == 7 {
            // ---- read-back through the real machine ports
            ctx.probe("readback");
            let cfg = MCfg { m128: rng.bool(), ay: true, ..Default::default() };
            let mut e = new_emu(&cfg);
            let mut model = [0u8; 16];
            const MASK: [u8; 16] = [0xFF, 0x0F, 0xFF, 0x0F, 0xFF, 0x0F, 0x1F, 0xFF, 0x1F, 0x1F, 0x1F, 0xFF, 0xFF, 0x0F, 0xFF, 0xFF];
            for _ in 0..200 {
                let r = rng.u8();
                let v = rng.u8();
                e.verif_bus().write_io(0xFFFD, r);
                if rng.chance(2, 3) {
                    e.verif_bus().write_io(0xBFFD, v);
                    model[(r & 15) as usize] = v;
                }
                let got = e.verif_bus().read_io(0xFFFD);
                let exp = model[(r & 15) as usize];
                if got != exp && got != exp & MASK[(r & 15) as usize] {
                    return Err(Fail::new("C18.readback", &format!("reg={}", r & 15), format!("register number {:02X} selected: read-back {:02X}, last value written to register {} is {:02X}", r, got, r & 15, exp)));
                }
                // wrap: selecting r & 15 must show the same register
                e.verif_bus().write_io(0xFFFD, r & 15);
                let again = e.verif_bus().read_io(0xFFFD);
                if again != got {
                    return Err(Fail::new("C18.reg_wrap", "", format!("register numbers {:02X} and {:02X} read back differently ({:02X} vs {:02X})", r, r & 15, got, again)));
                }
                ctx.units += 1;
            }
            cover(ctx, 0);
            return Ok(());
        }
        let mut c = Chip::new(ym, mode, rate);
        let garbage = sc.get("garbage").clamp(0, 200) as usize;
        c.garbage(&mut rng, garbage);
        ctx.fault_n("reg_write@sample", garbage as u64);
        let settle = 96usize;
        let mut buf: Vec<(f64, f64)> = vec![];
        match feature {
            0 => {
                // ---- tone pitch
                let tp = sc.get("tp").clamp(0, 4095) as u16;
                let eff = if tp == 0 { 1 } else { tp } as f64;
                let f = CLK / (16.0 * eff);
                if tp <= 1 {
                    // TP = 0 acts as 1: two chips with identical histories, one programmed with 0 and one
                    // with 1, must produce bit-identical streams (the pitch itself is above the audible band)
                    ctx.probe("pitch_tp0");
                    let mut r2 = Rng::new(sc.get("seed") as u64 ^ 0x7070);
                    let mut c0 = Chip::new(ym, mode, rate);
                    let mut c1 = Chip::new(ym, mode, rate);
                    for (chip, v) in [(&mut c0, 0u8), (&mut c1, 1u8)] {
                        let mut rr = r2.clone();
                        chip.quiet();
                        chip.w(7, 0x38);
                        for k in 0..3u8 {
                            chip.w(8 + k, 15);
                            chip.w(k * 2 + 1, 0);
                            // (the channel had an ordinary period before; it is changed through the fine register alone)
                            chip.w(k * 2, 60 + k);
                        }
                        chip.gen(300, None);
                        for k in 0..3u8 {
                            chip.w(k * 2, if k as usize == ch { v } else { 37 + k });
                        }
                        let mut out = vec![];
                        for _ in 0..20 {
                            chip.gen(rr.below(300) as usize + 1, Some(&mut out));
                            // re-writing the same period must not disturb the phase relation
                            chip.w((ch * 2) as u8, v);
                        }
                        chip.n = out.iter().fold(0u64, |h, s| h.wrapping_mul(31).wrapping_add(s.0.to_bits()).wrapping_mul(31).wrapping_add(s.1.to_bits()));
                    }
                    let _ = r2.next();
                    if c0.n != c1.n {
                        return Err(Fail::new("C18.tp_zero", &format!("rate_bucket={}", rate_bucket), format!("channel {} at {} Hz: tone period 0 does not produce the same stream as tone period 1", ch, rate)));
                    }
                    cover(ctx, 7777);
                }
                if f >= 0.2 * fr {
                    cover(ctx, 9999);
                    // above the measurable band: only the bound applies
                    c.quiet();
                    c.w((ch * 2) as u8, tp as u8);
                    c.w((ch * 2 + 1) as u8, (tp >> 8) as u8);
                    c.w(7, 0x3F & !(1 << ch));
                    c.w(8 + ch as u8, 15);
                    c.gen(2000, None);
                    // ... and the duty cycle: a square wave the resampler cannot resolve still spends half of its
                    // time high, so its mean is half the level of the same channel with the tone gate open
                    ctx.probe("ultrasonic_tone_mean");
                    let pick = |v: &Vec<(f64, f64)>| -> f64 {
                        let s: f64 = if pan_of(mode, ch) == 2 { v.iter().map(|s| s.1).sum() } else { v.iter().map(|s| s.0).sum() };
                        s / v.len().max(1) as f64
                    };
                    let mut on = vec![];
                    c.gen(6000, Some(&mut on));
                    c.w(7, 0x3F);
                    c.gen(200, None);
                    let mut off = vec![];
                    c.gen(2000, Some(&mut off));
                    let (m_on, m_off) = (pick(&on), pick(&off));
                    if m_off > 1e-6 && ((m_on / m_off) < 0.40 || (m_on / m_off) > 0.60) {
                        return Err(Fail::new(
                            "C18.tone_duty",
                            &format!("rate_bucket={}", rate_bucket),
                            format!("channel {} TP={} ({:.0} Hz) at {} Hz: the mean of the tone is {:.3} of the channel level, a square wave gives 0.5", ch, tp, f, rate, m_on / m_off),
                        ));
                    }
                } else {
                    ctx.probe("pitch");
                    if tp == 0 {
                        ctx.probe("pitch_tp0");
                    }
                    c.quiet();
                    // writes interleaved with generation
                    c.w((ch * 2) as u8, tp as u8);
                    c.gen(rng.below(50) as usize, None);
                    c.w((ch * 2 + 1) as u8, (tp >> 8) as u8 | (rng.u8() & 0xF0));
                    c.gen(rng.below(50) as usize, None);
                    c.w(7, 0x3F & !(1 << ch));
                    c.w(8 + ch as u8, 15);
                    c.gen(settle, None);
                    let periods = 60.0;
                    let n = ((periods / f * fr) as usize).clamp(2000, 600_000);
                    c.gen(n, Some(&mut buf));
                    // pick the side that carries the channel
                    let sig: Vec<f64> = if pan_of(mode, ch) == 2 { buf.iter().map(|s| s.1).collect() } else { left(&buf) };
                    let (got, swing) = zc_freq(&sig, fr);
                    let tol = f * 0.015 + 2.0;
                    if swing < 0.05 || (got - f).abs() > tol {
                        return Err(Fail::new(
                            "C18.pitch",
                            &format!("rate_bucket={},tp_class={}", rate_bucket, if tp == 0 { "0" } else if tp < 40 { "small" } else { "normal" }),
                            format!("channel {} TP={} at {} Hz sample rate: measured {:.1} Hz (swing {:.3}), chip definition f_clk/(16*TP) = {:.1} Hz", ch, tp, rate, got, swing, f),
                        ));
                    }
                    cover(ctx, (eff.log2() * 2.0) as u64);
                    ctx.sim_t += n as u64 * 44100 / rate as u64;
                }
            }
            1 => {
                // ---- noise rate
                let np = sc.get("np").clamp(0, 31) as u8;
                let eff = if np == 0 { 1.0 } else { np as f64 };
                let f_noise = CLK / (16.0 * eff);
                c.quiet();
                c.w(6, np | (rng.u8() & 0xE0));
                c.w(7, 0x3F & !(8 << ch));
                c.w(8 + ch as u8, 15);
                c.gen(settle, None);
                let n = (fr * 0.4) as usize;
                c.gen(n, Some(&mut buf));
                if f_noise < 0.3 * fr {
                    ctx.probe("noise");
                    let sig: Vec<f64> = if pan_of(mode, ch) == 2 { buf.iter().map(|s| s.1).collect() } else { left(&buf) };
                    // transitions of the thresholded signal
                    let (lo, hi) = sig.iter().fold((f64::MAX, f64::MIN), |a, &v| (a.0.min(v), a.1.max(v)));
                    let mid = (lo + hi) / 2.0;
                    let th = (hi - lo) * 0.2;
                    let mut state = 0i8;
                    let mut tr = 0u64;
                    for &v in &sig {
                        let s = if v > mid + th {
                            1
                        } else if v < mid - th {
                            -1
                        } else {
                            state
                        };
                        if s != state && state != 0 {
                            tr += 1;
                        }
                        state = s;
                    }
                    let got = tr as f64 / (n as f64 / fr);
                    let exp = f_noise / 2.0;
                    if hi - lo < 0.05 || (got - exp).abs() > exp * 0.15 + 20.0 {
                        return Err(Fail::new(
                            "C18.noise_rate",
                            &format!("rate_bucket={}", rate_bucket),
                            format!("noise period {} at {} Hz: {:.0} level transitions per second (swing {:.3}), a generator clocked at f_clk/(16*NP) = {:.0} Hz gives about {:.0}", np, rate, got, hi - lo, f_noise, exp),
                        ));
                    }
                    cover(ctx, np as u64);
                } else {
                    cover(ctx, 100 + np as u64 / 8);
                }
                ctx.sim_t += n as u64 * 44100 / rate as u64;
            }
            2 => {
                // ---- envelope contour on a channel with tone and noise disabled
                let shape = sc.get("shape").clamp(0, 15) as u8;
                let ep = sc.get("ep").clamp(1, 65535) as u16;
                let cycle = 256.0 * ep as f64 / CLK; // seconds for 32 steps
                let spc = cycle * fr; // samples per ramp
                // one-shot shapes hold their final level for good: with the shortest envelope periods the chip is
                // followed over more than 2 x 65536 envelope steps after the R13 write; the level must not move
                let one_shot = shape < 8 || shape & 1 == 1;
                if one_shot && (sc.get("seed") >> 5) & 3 == 0 {
                    ctx.probe("envelope_long_hold");
                    let epl = 1 + ((sc.get("seed") >> 7) % 3) as u16;
                    let mut c2 = Chip::new(ym, mode, rate);
                    c2.quiet();
                    c2.w(11, epl as u8);
                    c2.w(12, 0);
                    c2.w(8 + ch as u8, 0x1F);
                    c2.w(13, shape);
                    let ramp = 256.0 * epl as f64 / CLK * fr; // samples per 32 steps
                    let mut first = vec![];
                    c2.gen((ramp * 4.0) as usize + 200, Some(&mut first));
                    let mut rest = vec![];
                    c2.gen((ramp * (140_000.0 / 32.0)) as usize, Some(&mut rest));
                    let pick = |v: &Vec<(f64, f64)>| -> Vec<f64> { if pan_of(mode, ch) == 2 { v.iter().map(|s| s.1).collect() } else { left(v) } };
                    let (f, r) = (pick(&first), pick(&rest));
                    let (flo, fhi) = f.iter().fold((f64::MAX, f64::MIN), |a, &v| (a.0.min(v), a.1.max(v)));
                    let (rlo, rhi) = r.iter().fold((f64::MAX, f64::MIN), |a, &v| (a.0.min(v), a.1.max(v)));
                    if fhi - flo > 1e-6 && rhi - rlo > 0.02 * (fhi - flo) {
                        let at = r.iter().position(|&v| (v - r[0]).abs() > 0.02 * (fhi - flo)).unwrap_or(0);
                        return Err(Fail::new(
                            "C18.envelope_hold",
                            &format!("oneshot=1,chip={}", if ym { "ym" } else { "ay" }),
                            format!(
                                "one-shot envelope shape {} EP={} at {} Hz: the held level moves again {:.0} envelope steps after the R13 write (swing {:.4} of the first ramp's {:.4})",
                                shape,
                                epl,
                                rate,
                                (at as f64 + ramp * 4.0 + 200.0) / ramp * 32.0,
                                rhi - rlo,
                                fhi - flo
                            ),
                        ));
                    }
                    ctx.sim_t += (f.len() + r.len()) as u64 * 44100 / rate as u64;
                }
                if spc < 96.0 || spc > 400_000.0 {
                    cover(ctx, 9999);
                    return self.finish(&c, ctx, rate);
                }
                ctx.probe("envelope");
                c.quiet();
                c.w(11, ep as u8);
                c.w(12, (ep >> 8) as u8);
                c.w(8 + ch as u8, 0x10 | (rng.u8() & 0x0F));
                // let the (so far arbitrary) envelope output settle into the filter, then start the shape
                c.gen(settle, None);
                c.w(13, shape | (rng.u8() & 0xF0));
                let n = (spc * 3.6) as usize + settle;
                c.gen(n, Some(&mut buf));
                let sig: Vec<f64> = if pan_of(mode, ch) == 2 { buf.iter().map(|s| s.1).collect() } else { left(&buf) };
                let (lo, hi) = sig.iter().fold((f64::MAX, f64::MIN), |a, &v| (a.0.min(v), a.1.max(v)));
                let norm = |v: f64| if hi > lo { (v - lo) / (hi - lo) } else { 0.0 };
                // average level in a window centred at fraction `p` of ramp number `k`
                let at = |k: f64, p: f64| -> f64 {
                    let centre = ((k + p) * spc) as usize + 12; // FIR group delay ~12 samples
                    let w = (spc * 0.04).max(2.0) as usize;
                    let a = centre.saturating_sub(w).min(sig.len() - 1);
                    let b = (centre + w).min(sig.len() - 1);
                    norm(sig[a..=b].iter().sum::<f64>() / (b - a + 1) as f64)
                };
                // expected: direction of ramp k (1 up, -1 down) or hold value (0.0 / 1.0) for k = 0, 1, 2
                let attack = shape & 4 != 0;
                let cont = shape & 8 != 0;
                let alt = shape & 2 != 0;
                let hold = shape & 1 != 0;
                let first_up = attack;
                let mut exp: Vec<(i8, f64)> = vec![(if first_up { 1 } else { -1 }, 0.0)];
                for k in 1..3 {
                    if !cont {
                        exp.push((0, 0.0));
                    } else if hold {
                        // hold at the final value of the first ramp, inverted when alternate is set
                        let end_high = first_up;
                        let v = if alt { !end_high } else { end_high };
                        exp.push((0, if v { 1.0 } else { 0.0 }));
                    } else {
                        let up = if alt { if k % 2 == 1 { !first_up } else { first_up } } else { first_up };
                        exp.push((if up { 1 } else { -1 }, 0.0));
                    }
                }
                for (k, (dir, holdv)) in exp.iter().enumerate() {
                    let a = at(k as f64, 0.25);
                    let b = at(k as f64, 0.75);
                    let ok = match dir {
                        1 => b > a + 0.15 && a < 0.6,
                        -1 => a > b + 0.15 && b < 0.6,
                        _ => (a - holdv).abs() < 0.12 && (b - holdv).abs() < 0.12,
                    };
                    if hi - lo < 0.05 || !ok {
                        return Err(Fail::new(
                            "C18.envelope_shape",
                            &format!("shape={},segment={}", shape, k),
                            format!(
                                "envelope shape {} EP={} at {} Hz: segment {} (each {:.0} samples = 256*EP/f_clk) shows levels {:.2} -> {:.2} (normalised), expected {}",
                                shape,
                                ep,
                                rate,
                                k,
                                spc,
                                a,
                                b,
                                match dir {
                                    1 => "a rising ramp".to_string(),
                                    -1 => "a falling ramp".to_string(),
                                    _ => format!("hold at {}", holdv),
                                }
                            ),
                        ));
                    }
                }
                // ramp time (coarse, the DAC curve is not linear): the first ramp spans one nominal cycle
                let (p07, p50, p93) = (at(0.0, 0.07), at(0.0, 0.5), at(0.0, 0.93));
                let ramp_ok = spc < 300.0 || if first_up { p93 > 0.6 && p50 < 0.45 && p07 < 0.15 } else { p07 > 0.6 && p50 < 0.45 && p93 < 0.15 };
                if !ramp_ok {
                    return Err(Fail::new(
                        "C18.envelope_period",
                        &format!("shape={}", shape),
                        format!("envelope shape {} EP={} at {} Hz: normalised level {:.2} / {:.2} / {:.2} at 7% / 50% / 93% of the nominal ramp time 256*EP/f_clk", shape, ep, rate, p07, p50, p93),
                    ));
                }
                // repeating shapes: period of the pattern within 3%
                if cont && !hold && spc * 8.0 < 3_000_000.0 {
                    let mut more: Vec<(f64, f64)> = vec![];
                    c.gen((spc * 9.0) as usize, Some(&mut more));
                    let sig2: Vec<f64> = if pan_of(mode, ch) == 2 { more.iter().map(|s| s.1).collect() } else { left(&more) };
                    // crossing level: midway between extremes (not the mean: the DAC curve is skewed)
                    let (lo2, hi2) = sig2.iter().fold((f64::MAX, f64::MIN), |a, &v| (a.0.min(v), a.1.max(v)));
                    // Schmitt trigger between 25% and 70% of the swing (DAC steps ring around any single level)
                    let mut edges = 0u64;
                    let mut first_e = None;
                    let mut last_e = 0usize;
                    let mut high = (sig2[0] - lo2) / (hi2 - lo2).max(1e-12) > 0.5;
                    for (i, v) in sig2.iter().enumerate() {
                        let x = (v - lo2) / (hi2 - lo2).max(1e-12);
                        if !high && x > 0.7 {
                            high = true;
                            edges += 1;
                            if first_e.is_none() {
                                first_e = Some(i);
                            }
                            last_e = i;
                        } else if high && x < 0.25 {
                            high = false;
                        }
                    }
                    let exp_period = if alt { 2.0 * spc } else { spc };
                    if let Some(f0) = first_e {
                        if edges >= 3 {
                            let got_period = (last_e - f0) as f64 / (edges - 1) as f64;
                            if (got_period - exp_period).abs() > exp_period * 0.03 + 2.0 {
                                return Err(Fail::new(
                                    "C18.envelope_period",
                                    &format!("shape={}", shape),
                                    format!("envelope shape {} EP={} at {} Hz: pattern repeats every {:.1} samples, chip definition gives {:.1} ({}x 256*EP/f_clk)", shape, ep, rate, got_period, exp_period, if alt { 2 } else { 1 }),
                                ));
                            }
                            ctx.probe("envelope_period_measured");
                        }
                    }
                }
                cover(ctx, shape as u64 * 8 + (ep as f64).log10() as u64);
                ctx.sim_t += n as u64 * 44100 / rate as u64;
            }
            3 => {
                // ---- volume ladder: square-wave amplitude strictly increasing over volume 0..15
                ctx.probe("ladder");
                let tp = (CLK / (16.0 * (fr * 0.05).min(2000.0))).max(2.0) as u16; // about min(rate/20, 2 kHz)
                c.quiet();
                c.w((ch * 2) as u8, tp as u8);
                c.w((ch * 2 + 1) as u8, (tp >> 8) as u8);
                c.w(7, 0x3F & !(1 << ch));
                let mut prev = -1.0f64;
                for v in 0..16u8 {
                    c.w(8 + ch as u8, v);
                    c.gen(settle, None);
                    buf.clear();
                    let n = ((CLK / (16.0 * tp as f64)).recip() * fr * 12.0) as usize + 200;
                    c.gen(n, Some(&mut buf));
                    let sig: Vec<f64> = if pan_of(mode, ch) == 2 { buf.iter().map(|s| s.1).collect() } else { left(&buf) };
                    let e = (energy(&sig) / sig.len() as f64).sqrt();
                    if !(e > prev * 1.02 + 1e-9 || (v == 0 && e < 1e-6)) && v > 0 || (v == 0 && e > 1e-3) {
                        return Err(Fail::new("C18.volume_ladder", &format!("chip={}", if ym { "ym" } else { "ay" }), format!("square-wave RMS at volume {} is {:.6}, at volume {} it was {:.6}: amplitude must grow strictly with the 4-bit volume", v, e, v.saturating_sub(1), prev)));
                    }
                    prev = e;
                }
                cover(ctx, 0);
            }
            4 => {
                // ---- bound under a longer random history
                ctx.probe("bound");
                c.garbage(&mut rng, 200);
                cover(ctx, 0);
            }
            5 => {
                // ---- mixer gating
                ctx.probe("gating");
                let mask = sc.get("mask").clamp(0, 63) as u8;
                c.quiet();
                let tp = (CLK / (16.0 * (fr * 0.05).min(1500.0))).max(2.0) as u16;
                for k in 0..3 {
                    c.w((k * 2) as u8, tp as u8);
                    c.w((k * 2 + 1) as u8, (tp >> 8) as u8);
                }
                c.w(6, 4);
                c.w(7, mask | (rng.u8() & 0xC0));
                // only channel ch audible
                c.w(8 + ch as u8, 15);
                c.gen(settle, None);
                let n = (fr * 0.1) as usize + 500;
                c.gen(n, Some(&mut buf));
                let sig: Vec<f64> = if pan_of(mode, ch) == 2 { buf.iter().map(|s| s.1).collect() } else { left(&buf) };
                let tone_on = mask & (1 << ch) == 0;
                let noise_on = mask & (8 << ch) == 0;
                let rms = (energy(&sig) / sig.len() as f64).sqrt();
                if !tone_on && !noise_on {
                    if rms > 1e-3 {
                        return Err(Fail::new("C18.gating", "tone=0,noise=0", format!("mixer mask {:02X}: channel {} has tone and noise disabled but its output varies (RMS {:.5})", mask, ch, rms)));
                    }
                } else if rms < 0.02 {
                    return Err(Fail::new("C18.gating", &format!("tone={},noise={}", tone_on as u8, noise_on as u8), format!("mixer mask {:02X}: channel {} has tone {} / noise {} enabled at volume 15 but is silent (RMS {:.5})", mask, ch, tone_on, noise_on, rms)));
                } else if tone_on && !noise_on {
                    // pure tone: pitch must be the programmed one
                    let f = CLK / (16.0 * tp as f64);
                    let (got, _) = zc_freq(&sig, fr);
                    if (got - f).abs() > f * 0.03 + 5.0 {
                        return Err(Fail::new("C18.gating", "tone=1,noise=0", format!("mixer mask {:02X}: tone-only channel {} measures {:.1} Hz, programmed {:.1} Hz", mask, ch, got, f)));
                    }
                }
                cover(ctx, mask as u64);
            }
            _ => {
                // ---- panning: energy per side for one audible channel
                ctx.probe("panning");
                c.quiet();
                let tp = (CLK / (16.0 * (fr * 0.05).min(1500.0))).max(2.0) as u16;
                c.w((ch * 2) as u8, tp as u8);
                c.w((ch * 2 + 1) as u8, (tp >> 8) as u8);
                c.w(7, 0x3F & !(1 << ch));
                c.w(8 + ch as u8, 15);
                c.gen(settle + 64, None);
                let n = (fr * 0.05) as usize + 500;
                c.gen(n, Some(&mut buf));
                let l: Vec<f64> = buf.iter().map(|s| s.0).collect();
                let r: Vec<f64> = buf.iter().map(|s| s.1).collect();
                let (el, er) = (energy(&l), energy(&r));
                let p = pan_of(mode, ch);
                let ok = match p {
                    1 => el > 1e-3 && er < el * 0.01,
                    2 => er > 1e-3 && el < er * 0.01,
                    _ => el > 1e-3 && (el - er).abs() < 0.02 * el,
                };
                if !ok {
                    return Err(Fail::new(
                        "C18.panning",
                        &format!("mode={},ch={}", mode, ch),
                        format!("stereo mode {} channel {}: energy left {:.4} right {:.4}, the mode table places it {}", mode, ch, el, er, ["on both sides", "left only", "right only"][p as usize]),
                    ));
                }
                cover(ctx, ch as u64);
            }
        }
        self.finish(&c, ctx, rate)
    }
}

impl C18 {
    fn finish(&self, c: &Chip, ctx: &mut RunCtx, rate: usize) -> Result<(), Fail> {
        ctx.units += 1;
        ctx.sim_t += c.n * 44100 / rate as u64;
        if c.nonfinite || c.worst > 4.0 {
            return Err(Fail::new(
                "C18.bound",
                &format!("below_27k={}", (rate < 27_710) as u8),
                format!("at {} Hz sample rate the chip produced {} (largest |sample| {:.3e}; bound 4)", rate, if c.nonfinite { "a non-finite sample" } else { "an out-of-range sample" }, c.worst),
            ));
        }
        Ok(())
    }
}
