//! C20 — VTX playback is frame-accurate and independent of play() chunking.
//! `vtx::Player` on a recording `AymBackend` (write schedule, stream identity) and on the real
//! `AymPrecise` (bit-identical streams across chunkings and sample types); `Vtx::load` against
//! independently built files (literal-only LH5 encoder) and the repository's files.

use crate::prng::{Fnv, Rng};
use crate::runner::{Fail, Property, RunCtx, Tier};
use crate::scenario::{Op, Scenario};
use aym::{AyMode, AymBackend, SoundChip, StereoSample};
use std::cell::RefCell;
use vtx::player::Player;
use vtx::{Stereo, Vtx};

pub struct C20;

thread_local! {
    /// (sample index at which the write happened, register, value)
    static WRITES: RefCell<Vec<(u64, u8, u8)>> = const { RefCell::new(Vec::new()) };
    static NEW_ARGS: RefCell<Vec<(bool, u8, usize, usize)>> = const { RefCell::new(Vec::new()) };
}

/// Recording backend: samples encode the global sample index.
pub struct RecAym {
    n: u64,
}

impl AymBackend for RecAym {
    type SoundSample = f64;
    fn new(chip: SoundChip, mode: AyMode, frequency: usize, sample_rate: usize) -> Self {
        let m = match mode {
            AyMode::Mono => 0,
            AyMode::ABC => 1,
            AyMode::ACB => 2,
            AyMode::BAC => 3,
            AyMode::BCA => 4,
            AyMode::CAB => 5,
            AyMode::CBA => 6,
        };
        NEW_ARGS.with(|a| a.borrow_mut().push((matches!(chip, SoundChip::YM), m, frequency, sample_rate)));
        WRITES.with(|w| w.borrow_mut().clear());
        RecAym { n: 0 }
    }
    fn write_register(&mut self, address: u8, value: u8) {
        WRITES.with(|w| w.borrow_mut().push((self.n, address, value)));
    }
    fn next_sample(&mut self) -> StereoSample<f64> {
        let i = self.n;
        self.n += 1;
        // exactly representable in f32 as well (i < 2^24)
        StereoSample { left: i as f64 / 16_777_216.0, right: -(i as f64) / 16_777_216.0 }
    }
}

fn make_vtx(frames: &[u8], player_frequency: u8, stereo: u8, ym: bool) -> Vtx {
    Vtx {
        chip: if ym { vtx::SoundChip::YM } else { vtx::SoundChip::AY },
        stereo: match stereo % 7 {
            0 => Stereo::Mono,
            1 => Stereo::ABC,
            2 => Stereo::ACB,
            3 => Stereo::BAC,
            4 => Stereo::BCA,
            5 => Stereo::CAB,
            _ => Stereo::CBA,
        },
        frequency: 1_773_400,
        player_frequency,
        loop_start_frame: 0,
        year: 1999,
        title: "t".into(),
        author: "a".into(),
        from: "f".into(),
        tracker: "k".into(),
        comment: "c".into(),
        frame_data: frames.to_vec(),
    }
}

/// Literal-only LH5 stream (every block: T and P tables in their one-symbol special form, C table
/// = 256 literals of length 8, so that each code is the byte itself).
pub fn lh5_literal(data: &[u8]) -> Vec<u8> {
    let mut bits: Vec<bool> = vec![];
    let mut put = |v: u32, n: u32, bits: &mut Vec<bool>| {
        for i in (0..n).rev() {
            bits.push((v >> i) & 1 != 0);
        }
    };
    for chunk in data.chunks(32768) {
        put(chunk.len() as u32, 16, &mut bits);
        put(0, 5, &mut bits); // T: n = 0
        put(10, 5, &mut bits); // every T code = 10  -> code length 8
        put(256, 9, &mut bits); // C: 256 symbols, lengths all 8 (cost 0 bits each)
        put(0, 4, &mut bits); // P: n = 0
        put(0, 4, &mut bits); // single offset code 0
        for &b in chunk {
            put(b as u32, 8, &mut bits);
        }
    }
    let mut out = vec![0u8; (bits.len() + 7) / 8];
    for (i, b) in bits.iter().enumerate() {
        if *b {
            out[i / 8] |= 0x80 >> (i % 8);
        }
    }
    // a few padding bytes so that the decoder's bit buffer can always be refilled
    out.extend_from_slice(&[0, 0, 0, 0]);
    out
}

pub fn build_vtx_file(ym: bool, stereo: u8, loop_frame: u16, freq: u32, pf: u8, year: u16, strings: [&[u8]; 5], transposed: &[u8]) -> Vec<u8> {
    let mut f = vec![];
    f.extend_from_slice(if ym { b"ym" } else { b"ay" });
    f.push(stereo);
    f.extend_from_slice(&loop_frame.to_le_bytes());
    f.extend_from_slice(&freq.to_le_bytes());
    f.push(pf);
    f.extend_from_slice(&year.to_le_bytes());
    f.extend_from_slice(&(transposed.len() as u32).to_le_bytes());
    for s in strings {
        f.extend_from_slice(s);
        f.push(0);
    }
    f.extend_from_slice(&lh5_literal(transposed));
    f
}

/// buffer-length partition generator (deterministic from seed)
fn partition(seed: u64, style: i64, stereo: bool) -> impl FnMut() -> usize {
    let mut r = Rng::new(seed);
    move || match style {
        0 => 1 + r.below(7) as usize,
        1 => 1,
        2 => 2,
        3 => *r.pick(&[3usize, 5, 7, 11, 13, 97, 101]),
        4 => 100_000,
        5 => {
            if stereo {
                *r.pick(&[1usize, 3, 2, 5, 4])
            } else {
                1 + r.below(3) as usize
            }
        }
        _ => *r.pick(&[1usize, 2, 3, 64, 1000, 4096, 7]),
    }
}

/// register data of the scenario: the "frames"/"payload" blob, or (logs of more than 65535 frames, kept out of
/// the scenario for their size) `long` frames derived from `lseed`
fn data_of(sc: &Scenario, key: &str) -> Vec<u8> {
    let long = sc.get("long").clamp(0, 200_000) as usize;
    if long > 0 {
        let mut r = Rng::new(sc.get("lseed") as u64 ^ 0x10C6);
        let mut v = r.bytes(long * 14);
        if key == "frames" {
            for f in 0..long {
                if v[f * 14 + 13] & 3 == 0 {
                    v[f * 14 + 13] = 0xFF;
                }
            }
        }
        return v;
    }
    sc.ops.iter().find(|o| o.k == key).map(|o| o.b.clone()).unwrap_or_default()
}

const LONG_FRAMES: [i64; 10] = [65535, 65536, 65537, 65600, 74898, 74899, 80000, 70001, 131073, 65536];

impl C20 {
    /// kind 3: play() calls interleaved with rewind / rewind_loop / set_frame on the recording backend,
    /// against a reference position model. A position command may (the implementation does) write
    /// R13 := 0 to reset the envelope; that write is accepted but not required.
    fn seek_check(&self, sc: &Scenario, ctx: &mut RunCtx) -> Result<(), Fail> {
        let data = data_of(sc, "frames");
        let frames = data.len() / 14;
        if frames == 0 {
            return Ok(());
        }
        let rate = sc.get("rate").clamp(8000, 384000) as usize;
        let pf = sc.get("pf").clamp(1, 255) as u8;
        let stereo = sc.get("stereo_out") != 0;
        let spf = rate / pf as usize;
        if spf == 0 {
            return Ok(());
        }
        let ch = if stereo { 2 } else { 1 };
        let loop_frame = (sc.get("loop").max(0) as usize).min(frames - 1);
        let mut v = make_vtx(&data[..frames * 14], pf, sc.get("layout").clamp(0, 6) as u8, false);
        v.loop_start_frame = loop_frame as u16;
        ctx.probe("position_commands");
        let mut p: Player<RecAym> = Player::new(v, rate, stereo);
        // model
        let (mut frame, mut fs, mut out_n) = (0usize, 0usize, 0u64);
        let mut exp: Vec<(u64, u8, u8)> = vec![];
        let mut seeks: Vec<u64> = vec![];
        for (oi, op) in sc.ops.iter().enumerate() {
            match op.k.as_str() {
                "rewind" => {
                    p.rewind();
                    frame = 0;
                    fs = 0;
                    seeks.push(out_n);
                }
                "rewind_loop" => {
                    p.rewind_loop();
                    frame = loop_frame;
                    fs = 0;
                    seeks.push(out_n);
                }
                "set_frame" => {
                    let j = op.arg(0).max(0) as usize;
                    let r = p.set_frame(j);
                    if r != (j < frames) {
                        return Err(Fail::new("C20.set_frame_result", "", format!("set_frame({}) on a {}-frame log returned {}", j, frames, r)));
                    }
                    if j < frames {
                        frame = j;
                        fs = 0;
                        seeks.push(out_n);
                    }
                }
                "play" => {
                    let len = op.arg(0).clamp(1, 2_000_000) as usize;
                    let mut buf = vec![f64::NAN; len];
                    let n = p.play(&mut buf);
                    // model
                    let mut m = 0usize;
                    for _ in 0..len / ch {
                        if fs == 0 {
                            if frame >= frames {
                                break;
                            }
                            for r in 0..14 {
                                let val = data[frame * 14 + r];
                                if r == 13 && val == 0xFF {
                                    continue;
                                }
                                exp.push((out_n, r as u8, val));
                            }
                        }
                        m += 1;
                        out_n += 1;
                        fs += 1;
                        if fs == spf {
                            fs = 0;
                            frame += 1;
                        }
                    }
                    if n != m * ch {
                        return Err(Fail::new(
                            "C20.seek_count",
                            &format!("stereo={}", stereo as u8),
                            format!("operation #{}: play() into a buffer of {} returned {}, the position model (frame-accurate playback from the last position command) gives {}", oi, len, n, m * ch),
                        ));
                    }
                    ctx.units += 1;
                }
                _ => {}
            }
        }
        let log: Vec<(u64, u8, u8)> = WRITES.with(|w| w.borrow().clone());
        // R13 := 0 writes at the sample index of a position command are not judged (the optional envelope
        // reset of the command and a frame's own R13 = 0 are indistinguishable there)
        let skip = |w: &(u64, u8, u8)| w.1 == 13 && w.2 == 0 && seeks.contains(&w.0);
        let a: Vec<(u64, u8, u8)> = log.into_iter().filter(|w| !skip(w)).collect();
        let b: Vec<(u64, u8, u8)> = exp.iter().copied().filter(|w| !skip(w)).collect();
        if a != b {
            let i = a.iter().zip(b.iter()).position(|(x, y)| x != y).unwrap_or(a.len().min(b.len()));
            return Err(Fail::new(
                "C20.seek_schedule",
                &format!("stereo={}", stereo as u8),
                format!("after rewind / rewind_loop / set_frame commands at output samples {:?}: register write #{} is {:?}, the position model expects {:?} (sample index, register, value; spf {}, {} frames, loop frame {})", seeks, i, a.get(i), b.get(i), spf, frames, loop_frame),
            ));
        }
        let mut h = Fnv::new();
        h.u64(3);
        h.u64(seeks.len().min(5) as u64);
        h.u8(stereo as u8);
        ctx.cover(h.get());
        Ok(())
    }
}

impl Property for C20 {
    fn id(&self) -> &'static str {
        "C20"
    }
    fn runs(&self, tier: Tier) -> u64 {
        match tier {
            Tier::Quick => 3_000,
            Tier::Thorough => 300_000,
        }
    }
    fn rule(&self) -> &'static str {
        "kind 0: Vtx values built directly (0..400 frames of random register bytes, R13=0xFF in a seeded share, player frequency 1..255, rates 8000..384000, mono/stereo, all stereo layouts, AY/YM) played on a recording backend under a seeded partition of the output into play() buffer lengths (1, 2, odd, prime, huge, mixed; odd lengths and length 1 in stereo): register-write schedule, totals, end reporting, stream order; kind 1: the same on the real AymPrecise with i8/i16/i32/f32/f64 buffers, chunked stream must be bit-identical to the one-buffer stream; kind 2: Vtx::load of generated files (header + strings + literal-only LH5 payload) and of the repository's four files; logs of 65535..131073 frames (seed-generated) in kinds 0, 2 and 3; distinct = (kind, frames bucket, samples-per-frame bucket, stereo, partition style, sample type)"
    }
    fn state_measure(&self) -> &'static str {
        "distinct (frame_sample position mod spf at a buffer boundary, stereo) pairs"
    }
    fn real_components(&self) -> Vec<&'static str> {
        vec!["vtx::player::Player::new / play (mono and stereo paths, PlayerSample conversions)", "vtx::Vtx::load (header, strings block, LH5 payload via delharc, transpose)", "aym::AymPrecise (kind 1)"]
    }
    fn stub_components(&self) -> Vec<&'static str> {
        vec!["aym::AymBackend (RecAym: records register writes with the sample index; samples encode the index)", "VTX file builder with a literal-only LH5 encoder"]
    }
    fn assumptions(&self) -> Vec<&'static str> {
        vec!["sample_rate >= player_frequency (at least one sample per frame); player_frequency >= 1", "in stereo a buffer of length 1 cannot hold a sample pair: play() must return 0 and leave the stream untouched"]
    }
    fn expected_probes(&self) -> Vec<&'static str> {
        vec!["r13_ff_frame", "stereo_odd_buffer", "stereo_len1_buffer", "zero_frames", "end_reported", "buffer_spans_frames", "load_generated", "load_repo_file", "typed_i8", "typed_i16", "typed_i32", "typed_f32", "position_commands", "load_after_a_failed_load", "reader_not_at_position_zero"]
    }

    fn gen(&self, rng: &mut Rng, tier: Tier, idx: u64) -> Scenario {
        let mut sc = Scenario::new();
        let kind = match idx % 10 {
            0..=5 => 0,
            6 | 7 => 1,
            _ => 2,
        };
        let kind = if idx % 20 == 5 || idx % 20 == 15 { 3 } else { kind };
        sc.set("kind", kind);
        if kind == 3 {
            // position commands (rewind, rewind_loop, set_frame) between play() calls: playback stays
            // frame-accurate relative to the new position
            if rng.chance(1, 12) {
                // a log of more than 65535 frames: positions beyond the 16-bit range
                let frames = *rng.pick(&LONG_FRAMES);
                sc.set("long", frames);
                sc.set("lseed", (rng.next() >> 8) as i64);
                sc.set("rate", 8000);
                sc.set("pf", *rng.pick(&[255i64, 200, 250]));
                sc.set("stereo_out", rng.bool() as i64);
                sc.set("layout", rng.range(0, 6));
                sc.set("loop", rng.range(0, 65535));
                let spf = 8000 / sc.get("pf");
                for _ in 0..rng.range(3, 9) {
                    match rng.below(5) {
                        0 => sc.op("rewind_loop", &[]),
                        1 | 2 => {
                            let any = rng.range(0, frames);
                            sc.op("set_frame", &[*rng.pick(&[65534i64, 65535, 65536, 65537, frames - 1, frames - 2, frames, 70000.min(frames - 1), any])])
                        }
                        _ => sc.op("play", &[spf * rng.range(1, 6) + rng.range(0, 3)]),
                    }
                }
                return sc;
            }
            let frames = rng.range(1, 40);
            sc.push(Op::blob("frames", &[], rng.bytes(frames as usize * 14)));
            sc.set("rate", *rng.pick(&[8000i64, 11025, 44100, 48000]));
            sc.set("pf", *rng.pick(&[50i64, 60, 100, 25, 200]));
            sc.set("stereo_out", rng.bool() as i64);
            sc.set("layout", rng.range(0, 6));
            sc.set("loop", rng.range(0, frames - 1));
            for _ in 0..rng.range(3, 14) {
                match rng.below(6) {
                    0 => sc.op("rewind", &[]),
                    1 => sc.op("rewind_loop", &[]),
                    2 => sc.op("set_frame", &[rng.range(0, frames + 2)]),
                    _ => {
                        let spf = sc.get("rate") / sc.get("pf");
                        let len = match rng.below(4) {
                            0 => rng.range(1, 7),
                            1 => spf * rng.range(1, 3),
                            2 => spf * frames + 10,
                            _ => rng.range(1, 3 * spf),
                        };
                        sc.op("play", &[len]);
                    }
                }
            }
            return sc;
        }
        if kind == 2 {
            sc.set("repo", (idx % 40 == 8) as i64 * (1 + (idx / 40 % 4) as i64));
            if rng.chance(1, 16) && idx % 40 != 8 {
                sc.set("long", *rng.pick(&LONG_FRAMES));
                sc.set("lseed", (rng.next() >> 8) as i64);
                sc.set("stereo", rng.range(0, 6));
                sc.set("ym", rng.bool() as i64);
                sc.set("pf", rng.range(1, 255));
                sc.set("strlen", *rng.pick(&[0i64, 10, 255]));
                return sc;
            }
            let frames = rng.range(0, 300);
            let mut t = rng.bytes(frames as usize * 14);
            if rng.bool() {
                for x in t.iter_mut() {
                    *x &= 0x1F;
                }
            }
            sc.push(Op::blob("payload", &[], t));
            sc.set("stereo", rng.range(0, 6));
            sc.set("ym", rng.bool() as i64);
            sc.set("pf", rng.range(1, 255));
            sc.set("strlen", *rng.pick(&[0i64, 1, 10, 250, 251, 255, 256, 257, 600]));
            sc.set("prior_failed", if rng.chance(1, 4) { rng.range(1, 1000) } else { 0 });
            sc.set("lead", if rng.chance(1, 4) { *rng.pick(&[1i64, 16, 17, 100, 4096]) } else { 0 });
            return sc;
        }
        if kind == 0 && rng.chance(1, 24) {
            // plain playback through the 65536th frame
            sc.set("long", *rng.pick(&[65535i64, 65536, 65537, 65600, 66000]));
            sc.set("lseed", (rng.next() >> 8) as i64);
            sc.set("rate", 8000);
            sc.set("pf", *rng.pick(&[255i64, 250, 200]));
            sc.set("stereo_out", rng.bool() as i64);
            sc.set("layout", rng.range(0, 6));
            sc.set("ym", rng.bool() as i64);
            sc.set("style", *rng.pick(&[2i64, 3, 4, 5, 6]));
            sc.set("pseed", (rng.next() >> 8) as i64);
            sc.set("ty", 0);
            return sc;
        }
        let frames = match rng.below(6) {
            0 => 0,
            1 => 1,
            _ => rng.range(2, if tier == Tier::Quick { 60 } else { 400 }),
        };
        let mut data = rng.bytes(frames as usize * 14);
        for f in 0..frames as usize {
            if rng.chance(1, 3) {
                data[f * 14 + 13] = 0xFF;
            }
            // sustained notes: a frame identical to its predecessor (its registers, R13 included, must
            // still be written at its own sample)
            if f > 0 && rng.chance(1, 4) {
                let (a, b) = data.split_at_mut(f * 14);
                b[..14].copy_from_slice(&a[(f - 1) * 14..f * 14]);
            }
        }
        sc.push(Op::blob("frames", &[], data));
        let rate = if rng.bool() { *rng.pick(&super::c19::RATES) as i64 } else { rng.range(8000, 384000) };
        // keep kind 1 (real AY) cheap: low rates, few frames
        let rate = if kind == 1 { *rng.pick(&[8000i64, 11025, 22050, 44100]) } else { rate };
        sc.set("rate", rate);
        let pf = match rng.below(4) {
            0 => 50,
            1 => rng.range(1, 255),
            2 => 255,
            _ => *rng.pick(&[25i64, 60, 100, 200]),
        };
        sc.set("pf", if kind == 1 { pf.max(20) } else { pf });
        sc.set("stereo_out", rng.bool() as i64);
        sc.set("layout", rng.range(0, 6));
        sc.set("ym", rng.bool() as i64);
        sc.set("style", rng.range(0, 6));
        sc.set("pseed", (rng.next() >> 8) as i64);
        sc.set("ty", rng.range(0, 4));
        sc
    }

    fn exec(&self, sc: &Scenario, ctx: &mut RunCtx) -> Result<(), Fail> {
        match sc.get("kind") {
            2 => return self.load_check(sc, ctx),
            3 => return self.seek_check(sc, ctx),
            _ => {}
        }
        let data = data_of(sc, "frames");
        let frames = data.len() / 14;
        let data = &data[..frames * 14];
        let rate = sc.get("rate").clamp(8000, 384000) as usize;
        let pf = sc.get("pf").clamp(1, 255) as u8;
        let stereo = sc.get("stereo_out") != 0;
        let layout = sc.get("layout").clamp(0, 6) as u8;
        let ym = sc.get("ym") != 0;
        let style = sc.get("style").clamp(0, 6);
        let spf = rate / pf as usize;
        if spf == 0 {
            return Ok(());
        }
        let total = frames * spf;
        if frames == 0 {
            ctx.probe("zero_frames");
        }
        let ch = if stereo { 2 } else { 1 };
        let mut h = Fnv::new();
        h.u64(sc.get("kind") as u64);
        h.u64(match frames {
            0 => 0,
            1 => 1,
            2..=20 => 2,
            _ => 3,
        });
        h.u64(match spf {
            0..=50 => 0,
            51..=500 => 1,
            _ => 2,
        });
        h.u8(stereo as u8);
        h.u64(style as u64);
        h.u64(sc.get("ty") as u64);
        ctx.cover(h.get());
        if sc.get("kind") == 0 {
            // ---- recording backend
            if total > 3_000_000 {
                return Ok(());
            }
            NEW_ARGS.with(|a| a.borrow_mut().clear());
            let mut p: Player<RecAym> = Player::new(make_vtx(data, pf, layout, ym), rate, stereo);
            let args = NEW_ARGS.with(|a| a.borrow().clone());
            let exp_mode = if stereo { layout % 7 } else { 0 };
            if args.len() != 1 || args[0] != (ym, exp_mode, 1_773_400, rate) {
                return Err(Fail::new("C20.backend_config", &format!("stereo={}", stereo as u8), format!("backend constructed with {:?}, expected chip ym={} layout {} clock 1773400 rate {}", args, ym, exp_mode, rate)));
            }
            let mut next_len = partition(sc.get("pseed") as u64, style, stereo);
            let mut got: Vec<f64> = Vec::with_capacity(total * ch);
            let mut guard = 0u64;
            let mut stalled = 0;
            loop {
                let len = next_len();
                let mut buf = vec![f64::NAN; len];
                let before = got.len();
                let n = p.play(&mut buf);
                guard += 1;
                if n > len || (stereo && n % 2 == 1) {
                    return Err(Fail::new("C20.return_value", &format!("stereo={}", stereo as u8), format!("play() returned {} for a buffer of {}", n, len)));
                }
                if buf[n..].iter().any(|x| !x.is_nan()) {
                    return Err(Fail::new("C20.overfill", &format!("stereo={}", stereo as u8), format!("play() wrote beyond the {} samples it reported (buffer {})", n, len)));
                }
                got.extend_from_slice(&buf[..n]);
                if stereo && len % 2 == 1 {
                    if len == 1 {
                        ctx.probe("stereo_len1_buffer");
                    } else {
                        ctx.probe("stereo_odd_buffer");
                    }
                }
                if n / ch > spf {
                    ctx.probe("buffer_spans_frames");
                }
                let mut hs = Fnv::new();
                hs.u64(((got.len() / ch) % spf.max(1)) as u64 * 64 / spf.max(1) as u64);
                hs.u8(stereo as u8);
                ctx.state(hs.get());
                let usable = if stereo { len >= 2 } else { len >= 1 };
                if n == 0 && usable {
                    break; // end reported
                }
                if got.len() == before {
                    stalled += 1;
                    if stalled > 3 {
                        // only unusable (length 1 stereo) buffers were offered: force a usable one
                        let mut b2 = vec![f64::NAN; 2];
                        let n2 = p.play(&mut b2);
                        got.extend_from_slice(&b2[..n2]);
                        if n2 == 0 {
                            break;
                        }
                        stalled = 0;
                    }
                } else {
                    stalled = 0;
                }
                if got.len() > (total + 8) * ch || guard > 200_000_000 {
                    break;
                }
            }
            ctx.probe("end_reported");
            ctx.units += 1;
            ctx.sim_t += total as u64;
            if got.len() != total * ch {
                return Err(Fail::new(
                    "C20.total_samples",
                    &format!("stereo={},style={}", stereo as u8, style),
                    format!("{} samples per channel delivered before the end was reported, expected frames*floor(rate/freq) = {}*{} = {}", got.len() / ch, frames, spf, total),
                ));
            }
            // stream order: sample i carries index i
            for i in 0..total {
                let l = got[i * ch];
                let ok = l == i as f64 / 16_777_216.0 && (!stereo || got[i * ch + 1] == -(i as f64) / 16_777_216.0);
                if !ok {
                    return Err(Fail::new("C20.stream_order", &format!("stereo={},style={}", stereo as u8, style), format!("output sample {} does not carry generator sample {} (value {})", i, i, l * 16_777_216.0)));
                }
            }
            // after the end: still 0
            let mut b3 = vec![0f64; 8];
            if p.play(&mut b3) != 0 {
                return Err(Fail::new("C20.after_end", "", "play() delivered samples after it had reported the end".into()));
            }
            // register-write schedule
            let log = WRITES.with(|w| w.borrow().clone());
            let mut exp: Vec<(u64, u8, u8)> = vec![];
            for k in 0..frames {
                for r in 0..14 {
                    let v = data[k * 14 + r];
                    if r == 13 && v == 0xFF {
                        ctx.probe("r13_ff_frame");
                        continue;
                    }
                    exp.push(((k * spf) as u64, r as u8, v));
                }
            }
            if log != exp {
                let i = log.iter().zip(exp.iter()).position(|(a, b)| a != b).unwrap_or(log.len().min(exp.len()));
                return Err(Fail::new(
                    "C20.write_schedule",
                    &format!("stereo={},style={}", stereo as u8, style),
                    format!("register write #{}: got {:?}, expected {:?} (sample index, register, value); {} writes vs {} expected; spf {}", i, log.get(i), exp.get(i), log.len(), exp.len(), spf),
                ));
            }
        } else {
            // ---- real AymPrecise: chunked stream bit-identical to the one-buffer stream, per sample type
            if total > 400_000 || frames > 60 {
                return Ok(());
            }
            macro_rules! run_ty {
                ($t:ty, $zero:expr, $probe:expr) => {{
                    ctx.probe($probe);
                    let mut p1: Player<aym::AymPrecise> = Player::new(make_vtx(data, pf, layout, ym), rate, stereo);
                    let mut one = vec![$zero; total * ch + 4];
                    let n1 = p1.play(&mut one);
                    one.truncate(n1);
                    let mut p2: Player<aym::AymPrecise> = Player::new(make_vtx(data, pf, layout, ym), rate, stereo);
                    let mut next_len = partition(sc.get("pseed") as u64, style, stereo);
                    let mut parts: Vec<$t> = vec![];
                    let mut stalled = 0;
                    loop {
                        let mut len = next_len();
                        if stalled > 32 {
                            len = 2;
                        }
                        let mut buf = vec![$zero; len];
                        let n = p2.play(&mut buf);
                        parts.extend_from_slice(&buf[..n]);
                        let usable = if stereo { len >= 2 } else { len >= 1 };
                        if n == 0 && usable {
                            break;
                        }
                        if n == 0 {
                            stalled += 1;
                        } else {
                            stalled = 0;
                        }
                        if parts.len() > total * ch + 16 {
                            break;
                        }
                    }
                    if n1 != total * ch {
                        return Err(Fail::new("C20.total_samples", &format!("stereo={},backend=precise", stereo as u8), format!("one-buffer playback delivered {} values, expected {}", n1, total * ch)));
                    }
                    let same = one.len() == parts.len() && one.iter().zip(parts.iter()).all(|(a, b)| a.to_ne_bytes() == b.to_ne_bytes());
                    if !same {
                        let i = one.iter().zip(parts.iter()).position(|(a, b)| a.to_ne_bytes() != b.to_ne_bytes()).unwrap_or(one.len().min(parts.len()));
                        return Err(Fail::new(
                            "C20.chunking_changes_stream",
                            &format!("stereo={},style={},ty={}", stereo as u8, style, $probe),
                            format!("stream split across play() calls differs from the one-buffer stream at value {} ({} vs {} values)", i, parts.len(), one.len()),
                        ));
                    }
                }};
            }
            match sc.get("ty") {
                0 => run_ty!(i8, 0i8, "typed_i8"),
                1 => run_ty!(i16, 0i16, "typed_i16"),
                2 => run_ty!(i32, 0i32, "typed_i32"),
                3 => run_ty!(f32, 0f32, "typed_f32"),
                _ => run_ty!(f64, 0f64, "typed_f64"),
            }
            ctx.units += 1;
            ctx.sim_t += 2 * total as u64;
        }
        Ok(())
    }
    fn time_unit_hz(&self) -> f64 {
        44_100.0
    }
}

impl C20 {
    fn load_check(&self, sc: &Scenario, ctx: &mut RunCtx) -> Result<(), Fail> {
        let repo = sc.get("repo");
        if repo > 0 {
            ctx.probe("load_repo_file");
            let name = ["csoon.vtx", "secret.vtx", "sil00.vtx", "spf21_00.vtx"][(repo as usize - 1) % 4];
            let Ok(bytes) = std::fs::read(format!("/repo/vtx/src/test/{}", name)) else {
                return Err(Fail::new("C20.harness_asset", "", format!("cannot read {}", name)));
            };
            let v = Vtx::load(std::io::Cursor::new(&bytes[..])).map_err(|e| Fail::new("C20.load_repo", &format!("file={}", name), format!("{:?}", e)))?;
            // independent decode: header fields + strings + LH5 payload via delharc, then transpose
            let size = u32::from_le_bytes([bytes[12], bytes[13], bytes[14], bytes[15]]) as usize;
            let mut p = 16;
            let mut nul = 0;
            while nul < 5 && p < bytes.len() {
                if bytes[p] == 0 {
                    nul += 1;
                }
                p += 1;
            }
            use delharc::decode::{Decoder, Lh5Decoder};
            let mut t = vec![0u8; size];
            let mut d = Lh5Decoder::new(&bytes[p..]);
            if d.fill_buffer(&mut t).is_err() {
                return Err(Fail::new("C20.harness_decode", "", "independent LH5 decode failed".into()));
            }
            let frames = size / 14;
            let mut exp = vec![0u8; size];
            for f in 0..frames {
                for r in 0..14 {
                    exp[f * 14 + r] = t[r * frames + f];
                }
            }
            if v.frame_data != exp || v.player_frequency != bytes[9] || v.frequency != u32::from_le_bytes([bytes[5], bytes[6], bytes[7], bytes[8]]) {
                return Err(Fail::new("C20.load_transpose", &format!("file={}", name), "frame data of a repository file is not the frame-major transpose of its payload".into()));
            }
            ctx.units += 1;
            return Ok(());
        }
        ctx.probe("load_generated");
        let t = data_of(sc, "payload");
        let frames = t.len() / 14;
        let t = &t[..frames * 14];
        let strlen = sc.get("strlen").clamp(0, 2000) as usize;
        let long: Vec<u8> = (0..strlen).map(|i| b'a' + (i % 26) as u8).collect();
        let strings: [&[u8]; 5] = [b"title", &long, b"", b"tracker x", b"comment"];
        let stereo = sc.get("stereo").clamp(0, 6) as u8;
        let ym = sc.get("ym") != 0;
        let pf = sc.get("pf").clamp(1, 255) as u8;
        let file = build_vtx_file(ym, stereo, 3, 1_750_000, pf, 2001, strings, t);
        // history of the thread: another, damaged file (a long one, cut inside its packed data) was offered before
        // and refused - nothing of that attempt may show in this load
        let prior = sc.get("prior_failed");
        if prior != 0 {
            ctx.probe("load_after_a_failed_load");
            let junk: Vec<u8> = (0..(600 + (prior as usize % 400)) * 14).map(|i| (i * 31 + 7) as u8).collect();
            let other = build_vtx_file(false, 1, 0, 1_773_400, 50, 1999, [b"x", b"y", b"", b"z", b""], &junk);
            let cut = other.len() * 3 / 4;
            let _ = Vtx::load(std::io::Cursor::new(&other[..cut]));
        }
        // the file may sit inside a larger stream (a container, an archive member): the reader is handed over
        // positioned at its first byte, not at 0
        let lead = sc.get("lead").clamp(0, 4096) as usize;
        let mut stream: Vec<u8> = (0..lead).map(|i| (i * 7 + 3) as u8).collect();
        stream.extend_from_slice(&file);
        let mut cur = std::io::Cursor::new(&stream[..]);
        cur.set_position(lead as u64);
        if lead > 0 {
            ctx.probe("reader_not_at_position_zero");
        }
        let v = match Vtx::load(cur) {
            Ok(v) => v,
            Err(e) => return Err(Fail::new("C20.load_generated", &format!("strlen={}", strlen), format!("a well-formed generated VTX file ({} frames, author string of {} bytes) was rejected: {:?}", frames, strlen, e))),
        };
        let mut exp = vec![0u8; frames * 14];
        for f in 0..frames {
            for r in 0..14 {
                exp[f * 14 + r] = t[r * frames + f];
            }
        }
        if v.frame_data != exp {
            let i = v.frame_data.iter().zip(exp.iter()).position(|(a, b)| a != b).unwrap_or(v.frame_data.len().min(exp.len()));
            return Err(Fail::new("C20.load_transpose", "file=generated", format!("frame_data[{}] (frame {}, register {}) differs from the payload's register-major byte; {} vs {} bytes", i, i / 14, i % 14, v.frame_data.len(), exp.len())));
        }
        let meta_ok = v.player_frequency == pf
            && v.frequency == 1_750_000
            && v.loop_start_frame == 3
            && v.year == 2001
            && v.title == "title"
            && v.author.as_bytes() == &long[..]
            && v.from.is_empty()
            && v.tracker == "tracker x"
            && v.comment == "comment"
            && matches!(v.chip, vtx::SoundChip::YM) == ym
            && (v.stereo as u8) == stereo;
        if !meta_ok {
            return Err(Fail::new("C20.load_header", &format!("strlen={}", strlen), "header fields or strings of a generated file were decoded wrongly".into()));
        }
        let mut h = Fnv::new();
        h.u8(2);
        h.u64((frames / 50) as u64);
        h.u64(strlen as u64);
        ctx.cover(h.get());
        ctx.units += 1;
        Ok(())
    }
}
