//! C14 — loading a well-formed SNA / SZX / SCR file yields exactly the described state,
//! independent of what the receiving machine was doing before.
//! World B: states encoded by independent writers (chunk order, zlib/stored pages, unknown
//! chunks), loaded into seeded *dirty* receivers and into a fresh one; model-mismatch matrix.

use crate::cpustate::CpuState;
use crate::host::*;
use crate::inputs::*;
use crate::machine::*;
use crate::prng::{Fnv, Rng};
use crate::runner::{Fail, Property, RunCtx, Tier};
use crate::scenario::Scenario;
use crate::snapfmt::*;
use rustzx_core::host::{Screen, Snapshot};
use rustzx_z80::Z80Bus;
use zxref::screen;

pub struct C14;

const IDLE: u16 = 0x8000; // JR $
const HANDLER: u16 = 0xBDBD; // EI; RET

pub const DIRT: [&str; 10] = ["fresh", "halted", "mid_prefix", "ei_pending", "paging_locked", "border_im_iff", "ran_program", "ay_programmed", "stopped_mid_frame", "after_rejected_load"];

/// A state whose program idles (so that continuation is well defined) but whose registers, RAM,
/// paging, border and AY contents are arbitrary.
pub fn gen_state(rng: &mut Rng, m128: bool) -> SnapState {
    let mut s = SnapState::new(m128);
    for b in 0..8 {
        rng.fill(&mut s.banks[b]);
    }
    s.cpu = CpuState::random(rng);
    s.cpu.halted = false;
    s.cpu.no_sample = false;
    s.cpu.pc = IDLE;
    // stack somewhere in bank 2 or 5, away from the stub / table
    s.cpu.sp = *rng.pick(&[0x9000u16, 0xA000, 0x6000, 0x7F00, 0xB000]) + (rng.u16() & 0xFE); // never overlaps the stub at 0x8000
    s.port_7ffd = if m128 { rng.u8() & 0x3F } else { 0 };
    s.border = rng.u8() & 7;
    rng.fill(&mut s.ay_regs);
    // an envelope shape register holding 0xFF (a value some register-dump formats use as "not written"; for the
    // chip it is shape 15) with a channel that follows the envelope and is audible
    if rng.chance(1, 6) {
        s.ay_regs[13] = 0xFF;
        s.ay_regs[8] = 0x10 | (s.ay_regs[8] & 0x0F);
        s.ay_regs[7] |= 0x09;
        s.ay_regs[12] &= 0x03;
    }
    s.ay_sel = rng.u8() & 0x0F;
    // interrupt set-up that keeps the program idle: IM 0/1 -> ROM handler, IM 2 -> table in bank 2
    if s.cpu.im == 2 {
        s.cpu.i = 0xBE;
    } else {
        // IM 0/1 would enter the ROM's handler, which (128K editor ROM) runs code in RAM
        s.cpu.iff1 = false;
        s.cpu.iff2 = false;
    }
    // program: JR $ at 0x8000 ; IM 2 table of 0xBD at 0xBE00.. ; handler EI; RET at 0xBDBD
    s.banks[2][0] = 0x18;
    s.banks[2][1] = 0xFE;
    for i in 0..257 {
        s.banks[2][0x3E00 + i] = 0xBD;
    }
    s.banks[2][0x3DBD] = 0xFB;
    s.banks[2][0x3DBE] = 0xC9;
    s.frame_t = 0;
    s.sna_trdos = if rng.bool() { 0 } else { rng.u8() & 3 };
    s
}

pub fn dirty_receiver(e: &mut Emu, kind: usize, rng: &mut Rng, m128: bool) {
    // every dirty receiver has foreign RAM contents
    if kind != 0 {
        for p in 0..ram_pages(m128) {
            rng.fill(e.verif_ram_page(p));
        }
        e.verif_refresh_screen();
    }
    let mut st = CpuState::random(rng);
    st.halted = false;
    st.no_sample = false;
    st.pc = 0x8800;
    st.sp = 0x8700;
    st.iff1 = false;
    st.iff2 = false;
    match kind {
        1 => {
            write_mem(e, 0x8800, &[0x76]);
            st.to_impl(e.verif_cpu());
            let _ = step_public(e);
            let _ = step_public(e);
        }
        2 => {
            write_mem(e, 0x8800, &[0xDD, 0xFD, 0x00]);
            st.to_impl(e.verif_cpu());
            let _ = step_public(e);
        }
        3 => {
            write_mem(e, 0x8800, &[0xFB, 0x00]);
            st.to_impl(e.verif_cpu());
            let _ = step_public(e);
        }
        4 => {
            if m128 {
                e.verif_bus().write_io(0x7FFD, 0x20 | (rng.u8() & 0x1F));
            }
        }
        5 => {
            e.verif_bus().write_io(0x00FE, rng.u8() & 0x1F);
            st.im = 2;
            st.iff1 = true;
            st.iff2 = true;
            write_mem(e, 0x8800, &[0x00]);
            st.to_impl(e.verif_cpu());
        }
        6 => {
            write_mem(e, 0x8800, &[0x3E, 0x05, 0xD3, 0xFE, 0x76]);
            st.to_impl(e.verif_cpu());
            let _ = run_frames(e, 2);
        }
        9 => {
            // the receiver has just rejected a file (truncated SZX of the right model, SNA of the other
            // model, garbage) while it was running a program with paging locked
            if m128 {
                e.verif_bus().write_io(0x7FFD, 0x20 | (rng.u8() & 0x1F));
            }
            write_mem(e, 0x8800, &[0xFB, 0x18, 0xFE]);
            st.im = 2;
            st.to_impl(e.verif_cpu());
            let _ = step_public(e);
            use rustzx_core::host::Snapshot;
            match rng.below(3) {
                0 => {
                    let mut s = SnapState::new(m128);
                    s.cpu.sp = 0x9000;
                    let full = write_szx(&s, &SzxOptions::default());
                    let cut = 40 + rng.below(full.len() as u64 / 2) as usize;
                    let _ = e.load_snapshot(Snapshot::Szx(SimAsset::plain(full[..cut].to_vec())));
                }
                1 => {
                    let mut v = vec![0u8; if m128 { 49179 } else { 131103 }];
                    v[25] = 1;
                    let _ = e.load_snapshot(Snapshot::Sna(SimAsset::plain(v)));
                }
                _ => {
                    let _ = e.load_snapshot(Snapshot::Sna(SimAsset::plain(rng.bytes(300))));
                }
            }
        }
        8 => {
            // the host stopped the machine in the middle of a frame (breakpoint) before loading
            // (the program keeps changing the border, so the stop comes after border writes of this very frame)
            write_mem(e, 0x8800, &[0x3C, 0xD3, 0xFE, 0x18, 0xFB]); // INC A ; OUT (FE),A ; JR back
            st.to_impl(e.verif_cpu());
            let _ = run_frames(e, 1);
            set_break_mode(e, BreakMode::EveryNth(300 + rng.below(5000)));
            e.set_speed(rustzx_core::EmulationMode::FrameCount(1));
            let _ = e.emulate_frames(LONG);
            set_break_mode(e, BreakMode::Never);
        }
        7 => {
            for r in 0..14u8 {
                e.verif_bus().write_io(0xFFFD, r);
                e.verif_bus().write_io(0xBFFD, rng.u8());
            }
            let _ = run_frames(e, 1);
        }
        _ => {}
    }
}

fn mk(m128: bool, dirt: usize, rng: &mut Rng, mouse: bool, kempston: bool) -> Emu {
    mk_rate(m128, dirt, rng, mouse, kempston, 44100)
}

fn mk_rate(m128: bool, dirt: usize, rng: &mut Rng, mouse: bool, kempston: bool, rate: usize) -> Emu {
    mk_cfg(m128, dirt, rng, mouse, kempston, rate, true)
}

/// `ay`: whether the host has AY sound enabled in its settings before the load (the chip is part of
/// the machine either way)
fn mk_cfg(m128: bool, dirt: usize, rng: &mut Rng, mouse: bool, kempston: bool, rate: usize, ay: bool) -> Emu {
    let cfg = MCfg { m128, ay, ay_mode: 1, kempston, mouse, rate, ..Default::default() };
    let mut e = new_emu(&cfg);
    dirty_receiver(&mut e, dirt, rng, m128);
    e
}

fn load(e: &mut Emu, fmt: usize, bytes: &[u8], chunk: usize) -> Result<Result<(), String>, crate::runner::PanicInfo> {
    let plan = AssetPlan { max_chunk: chunk, ..Default::default() };
    crate::runner::catch(|| {
        let (a, _) = SimAsset::new(bytes.to_vec(), plan);
        match fmt {
            0 => e.load_snapshot(Snapshot::Sna(a)).map_err(|x| format!("{:?}", x)),
            1 => e.load_snapshot(Snapshot::Szx(a)).map_err(|x| format!("{:?}", x)),
            _ => e.load_screen(Screen::Scr(a)).map_err(|x| format!("{:?}", x)),
        }
    })
}

fn drain_hash(e: &mut Emu) -> (u64, usize, f64) {
    let mut v = vec![];
    drain_audio(e, &mut v);
    let mut h = Fnv::new();
    let mut energy = 0.0f64;
    let mean: f64 = v.iter().map(|s| s.0 as f64).sum::<f64>() / v.len().max(1) as f64;
    for s in &v {
        h.u32(s.0.to_bits());
        h.u32(s.1.to_bits());
        energy += (s.0 as f64 - mean) * (s.0 as f64 - mean);
    }
    (h.get(), v.len(), energy)
}

impl C14 {
    /// field-by-field comparison of a loaded machine with the state the file describes
    fn compare(&self, e: &mut Emu, s: &SnapState, fmt: usize, dirt: &str, ctx: &mut RunCtx) -> Result<(), Fail> {
        let m128 = s.m128;
        let machine = if m128 { "128k" } else { "48k" };
        let fname = ["sna", "szx"][fmt.min(1)];
        let w = |field: &str| format!("format={},machine={},dirt={},field={}", fname, machine, dirt, field);
        let got = cpu_state(e);
        let mut exp = s.cpu.clone();
        if fmt == 0 {
            exp.iff1 = exp.iff2;
            exp.memptr = got.memptr; // not carried by SNA
            exp.q = got.q;
        } else {
            exp.halted = s.halted;
            exp.no_sample = s.ei_last;
        }
        if let Some((name, a, b)) = got.diff(&exp, 0) {
            let site = if matches!(name, "halted" | "no_sample") { "C14.transient_state" } else { "C14.register" };
            return Err(Fail::new(site, &w(name), format!("after loading a {} file into a {} receiver: {} = {:04X}, the file says {:04X}", fname, dirt, name, a, b)));
        }
        if e.verif_cpu().verif_prefix_pending() {
            return Err(Fail::new("C14.transient_state", &w("prefix"), format!("after loading a {} file into a {} receiver the CPU still has a DD/FD prefix pending from before the load", fname, dirt)));
        }
        if e.border_color() as u8 != s.border {
            return Err(Fail::new("C14.border", &w("border"), format!("border_color() = {}, the file says {}", e.border_color() as u8, s.border)));
        }
        if fmt == 1 && e.verif_frame_clocks() as u32 != s.frame_t {
            return Err(Fail::new("C14.frame_position", &w("cycles_start"), format!("position inside the frame after the load is T {}, the file says {}", e.verif_frame_clocks(), s.frame_t)));
        }
        // paging
        if m128 {
            let (latch, unlocked, map) = e.verif_paging();
            let mut model = zxref::mem::RefMem::new(true);
            model.out_7ffd(s.port_7ffd);
            let exp_map = [model.window(0), model.window(1), model.window(2), model.window(3)];
            if latch != s.port_7ffd || unlocked == model.locked || map != exp_map {
                ctx.probe("paging_mismatch_seen");
                return Err(Fail::new(
                    "C14.paging",
                    &w("7ffd"),
                    format!("paging after load: latch {:02X} unlocked {} map {:?}; the file's 7FFD value {:02X} means map {:?} locked {}", latch, unlocked, map, s.port_7ffd, exp_map, model.locked),
                ));
            }
        }
        // RAM
        let banks: &[usize] = if m128 { &[0, 1, 2, 3, 4, 5, 6, 7] } else { &[5, 2, 0] };
        let mut img = s.clone();
        if fmt == 0 && !m128 {
            // the 48K SNA image carries PC on the stack
            let sp = s.cpu.sp.wrapping_sub(2);
            img.poke(sp, s.cpu.pc as u8);
            img.poke(sp.wrapping_add(1), (s.cpu.pc >> 8) as u8);
        }
        for &b in banks {
            let page = phys_page(m128, b as u8).unwrap();
            let data = e.verif_ram_page(page);
            if data[..] != img.banks[b][..] {
                let off = data.iter().zip(img.banks[b].iter()).position(|(x, y)| x != y).unwrap();
                return Err(Fail::new("C14.ram", &w(&format!("bank{}", b)), format!("RAM bank {} offset {:04X} holds {:02X}, the file says {:02X}", b, off, data[off], img.banks[b][off])));
            }
        }
        // CPU view through the windows
        for a in (0x4000..=0xFFFFu32).step_by(251) {
            if e.peek(a as u16) != img.peek(a as u16) {
                return Err(Fail::new("C14.cpu_view", &w("window"), format!("address {:04X} reads {:02X}, the file's memory map gives {:02X}", a, e.peek(a as u16), img.peek(a as u16))));
            }
        }
        Ok(())
    }
}

impl Property for C14 {
    fn id(&self) -> &'static str {
        "C14"
    }
    fn runs(&self, tier: Tier) -> u64 {
        match tier {
            Tier::Quick => 1_800,
            Tier::Thorough => 60_000,
        }
    }
    fn rule(&self) -> &'static str {
        "kind 0: a seeded state (all registers, IFFs, IM, paging incl. lock, border, every RAM page, AY registers) encoded as SNA or SZX (chunk order permuted, pages stored or zlib-compressed, unknown chunks incl. one of 64 KiB..200 KB, zlib streams of 16381..16390 bytes, optional AY/KEYB/AMXM/CRTR chunks) and loaded through a chunking asset into a dirty receiver (halted, mid prefix chain, EI pending, paging locked on another bank, other border/IM/IFF, after a program ran, AY programmed, stopped by a breakpoint in the middle of a frame, having just rejected another file) and into a fresh one: field-by-field comparison, display vs RefScreen, identical continuation of both receivers, AY read-back and PCM vs a twin programmed through the ports, joystick/mouse presence; kind 1: SZX HALTED / EILAST flags; kind 2: the same state as SNA, stored SZX and compressed SZX must continue identically; kind 3: model mismatch matrix; kind 4: SCR. distinct = (kind, format, encoding options, machine pair, receiver dirt kind, flags)"
    }
    fn state_measure(&self) -> &'static str {
        "distinct (format, machine, receiver dirt kind, paged bank, lock) combinations compared"
    }
    fn real_components(&self) -> Vec<&'static str> {
        vec!["snapshot::sna::load, snapshot::szx::load (all chunk handlers, zlib inflate), screenshot::scr::load", "ZXController::write_7ffd / refresh_memory_dependent_devices", "ZXAyChip::set_regs / select_reg", "Z80 state setters"]
    }
    fn stub_components(&self) -> Vec<&'static str> {
        vec!["independent SNA / SZX / SCR writers (snapfmt)", "chunking SimAsset", "RefScreen, RefMem", "twin machines (fresh receiver, AY programmed through ports)"]
    }
    fn assumptions(&self) -> Vec<&'static str> {
        vec![
            "what a format cannot carry is equalised before continuation (SNA: MEMPTR, Q, position in the frame)",
            "SZX HALTED is accepted under either PC convention found in the wild (PC at the HALT or behind it) as long as one of them behaves as a halted CPU",
            "audible AY state is compared bit-exactly for fresh receivers only (dirty receivers legitimately differ in tone/noise phase); for dirty ones the output must not be silent when the registers are audible",
            "SCR load with the shadow screen displayed is not asserted",
        ]
    }
    fn expected_probes(&self) -> Vec<&'static str> {
        vec!["sna_loaded", "szx_loaded", "szx_compressed_page", "szx_unknown_chunk", "dirty_receiver", "ay_twin_compared", "halted_flag", "eilast_flag", "encodings_compared", "mismatch_rejected", "scr_loaded", "presence_checked", "locked_file", "display_checked", "display_other_bank_checked", "same_file_loaded_twice", "receiver_with_ay_disabled", "szx_frame_position_above_65535", "szx_big_unknown_chunk", "szx_zlib_stream_of_page_size", "halted_flag_inside_int_pulse"]
    }

    fn gen(&self, rng: &mut Rng, _tier: Tier, idx: u64) -> Scenario {
        let mut sc = Scenario::new();
        let kind = match idx % 12 {
            0..=6 => 0,
            7 => 1,
            8 | 9 => 2,
            10 => 3,
            _ => 4,
        };
        sc.set("kind", kind);
        sc.set("m128", rng.bool() as i64);
        sc.set("fmt", rng.range(0, 1));
        sc.set("seed", (rng.next() >> 8) as i64);
        sc.set("dirt", rng.range(0, 9));
        sc.set("chunk", *rng.pick(&[0i64, 0, 1, 13, 1000, 16384]));
        sc.set("oseed", (rng.next() >> 8) as i64);
        sc.set("conv", rng.range(0, 1));
        sc.set("flag", rng.range(0, 1));
        sc
    }

    fn exec(&self, sc: &Scenario, ctx: &mut RunCtx) -> Result<(), Fail> {
        let m128 = sc.get("m128") != 0;
        let fmt = sc.get("fmt").clamp(0, 1) as usize;
        let kind = sc.get("kind");
        let dirt = sc.get("dirt").clamp(0, 9) as usize;
        let chunk = sc.get("chunk").max(0) as usize;
        let mut rng = Rng::new(sc.get("seed") as u64);
        let mut orng = Rng::new(sc.get("oseed") as u64);
        let machine = if m128 { "128k" } else { "48k" };
        let mut s = gen_state(&mut rng, m128);
        let szx_opt = |r: &mut Rng, ay: bool| SzxOptions {
            compress: (0..8).map(|_| r.bool()).collect(),
            order_seed: if r.bool() { r.next() | 1 } else { 0 },
            unknown_chunks: r.below(3) as usize,
            with_creator: r.bool(),
            with_ay: ay,
            with_keyb: r.bool(),
            with_mouse: r.bool(),
            fe_low: if r.bool() { Some(r.u8() & 7) } else { None },
            fe_hi: 0,
            ..Default::default()
        };
        let encode = |s: &SnapState, fmt: usize, opt: &SzxOptions| -> Vec<u8> {
            if fmt == 0 {
                if s.m128 {
                    write_sna128(s)
                } else {
                    write_sna48(s)
                }
            } else {
                write_szx(s, opt)
            }
        };
        let mut h = Fnv::new();
        h.u64(kind as u64);
        h.u64(fmt as u64);
        h.u8(m128 as u8);
        h.u64(dirt as u64);
        match kind {
            0 => {
                // ------------------------------------------------ full state comparison
                if fmt == 1 {
                    // SZX carries the position inside the frame (a 32-bit field; frames are longer than 65535 T)
                    let f = if m128 { 70908u32 } else { 69888 };
                    s.frame_t = match (sc.get("seed") >> 13) & 7 {
                        0 | 1 => 0,
                        2 => 65535,
                        3 => 65536,
                        4 => f - 1,
                        5 => 65536 + ((sc.get("seed") >> 16) as u32 % (f - 65536)),
                        _ => (sc.get("seed") >> 16) as u32 % f,
                    };
                    if s.frame_t >= 65536 {
                        ctx.probe("szx_frame_position_above_65535");
                    }
                }
                if fmt == 0 {
                    // SNA carries IFF2 only
                    s.cpu.iff1 = s.cpu.iff2;
                    ctx.probe("sna_loaded");
                } else {
                    ctx.probe("szx_loaded");
                    s.mouse = orng.bool();
                    s.kempston = orng.bool();
                }
                if s.port_7ffd & 0x20 != 0 {
                    ctx.probe("locked_file");
                }
                let with_ay = fmt == 1 && orng.chance(2, 3);
                let opt = szx_opt(&mut orng, with_ay);
                if fmt == 1 {
                    if opt.compress.iter().any(|c| *c) {
                        ctx.probe("szx_compressed_page");
                    }
                    if opt.unknown_chunks > 0 {
                        ctx.probe("szx_unknown_chunk");
                    }
                    h.u8(opt.compress.iter().any(|c| *c) as u8);
                    h.u8((opt.order_seed != 0) as u8);
                    h.u8(opt.with_ay as u8 | (opt.with_keyb as u8) << 1 | (opt.with_mouse as u8) << 2);
                }
                let mut opt = opt;
                if fmt == 1 {
                    // an embedded tape / disk image chunk far bigger than any chunk rustzx makes use of
                    if (sc.get("seed") >> 19) & 7 == 0 {
                        opt.big_unknown = *orng.pick(&[65536usize, 65539, 65540, 70000, 131072, 200000]);
                        ctx.probe("szx_big_unknown_chunk");
                    }
                    // a page whose zlib stream has a "special" length (that of a stored page, +-1, ...): the page is
                    // incompressible except for its tail
                    if (sc.get("seed") >> 22) & 7 == 0 {
                        let pages: Vec<usize> = if m128 { (0..8).collect() } else { vec![5, 2, 0] };
                        // (not bank 2: the program of the state lives there)
                        let mut idx = orng.below(pages.len() as u64) as usize;
                        if pages[idx] == 2 {
                            idx = 0;
                        }
                        let target = *orng.pick(&[16384usize, 16384, 16383, 16385, 16381, 16387, 16390]);
                        let bank = &mut s.banks[pages[idx]];
                        for (i, b) in bank.iter_mut().enumerate() {
                            *b = if i < target - 100 { orng.u8() } else { 0 };
                        }
                        if crate::snapfmt::zlib_exact(&s.banks[pages[idx]], target).is_some() {
                            opt.zlib_exact = Some((idx, target));
                            ctx.probe("szx_zlib_stream_of_page_size");
                        }
                    }
                }
                let bytes = encode(&s, fmt, &opt);
                let dname = DIRT[dirt];
                if dirt != 0 {
                    ctx.probe("dirty_receiver");
                    ctx.fault("snapshot_load@instant");
                }
                let mut drng = Rng::new(sc.get("seed") as u64 ^ 0xD1);
                let r1_ay = (sc.get("seed") >> 11) & 1 == 0;
                if !r1_ay {
                    ctx.probe("receiver_with_ay_disabled");
                }
                let mut r1 = mk_cfg(m128, dirt, &mut drng, !s.mouse, !s.kempston, 44100, r1_ay);
                let mut r2 = mk(m128, 0, &mut drng, false, false);
                // the same file loaded twice: the dirty receiver has already loaded this very file (and, in half
                // of the cases, run a frame of it) when it is loaded for the comparison
                if (sc.get("seed") >> 7) & 3 == 0 {
                    ctx.probe("same_file_loaded_twice");
                    if let Ok(Ok(())) = load(&mut r1, fmt, &bytes, chunk) {
                        if (sc.get("seed") >> 9) & 1 == 0 {
                            let _ = run_frames(&mut r1, 1);
                        }
                    }
                }
                for (e, dn) in [(&mut r1, dname), (&mut r2, "fresh")] {
                    match load(e, fmt, &bytes, chunk) {
                        Err(pi) => return Err(Fail::new("C14.panic", &format!("format={},at={}", ["sna", "szx"][fmt], crate::runner::panic_site(&pi)), format!("loading a well-formed {} file into a {} receiver panicked at {}:{}: {}", ["sna", "szx"][fmt], dn, pi.file, pi.line, pi.msg))),
                        Ok(Err(x)) => return Err(Fail::new("C14.rejected", &format!("format={},machine={},dirt={}", ["sna", "szx"][fmt], machine, dn), format!("a well-formed {} file for this machine was rejected by a {} receiver: {}", ["sna", "szx"][fmt], dn, x))),
                        Ok(Ok(())) => {}
                    }
                    self.compare(e, &s, fmt, dn, ctx)?;
                }
                let mut hs = Fnv::new();
                hs.u64(fmt as u64);
                hs.u8(m128 as u8);
                hs.u64(dirt as u64);
                hs.u8(s.port_7ffd & 0x27);
                ctx.state(hs.get());
                // AY read-back (SZX with AY chunk)
                if fmt == 1 && opt.with_ay {
                    for e in [&mut r1, &mut r2] {
                        let cur = e.verif_bus().read_io(0xFFFD);
                        if cur != s.ay_regs[s.ay_sel as usize] {
                            return Err(Fail::new("C14.ay_readback", "field=selected", format!("after load the AY data port reads {:02X}; the file selects register {} = {:02X}", cur, s.ay_sel, s.ay_regs[s.ay_sel as usize])));
                        }
                        for r in 0..16u8 {
                            e.verif_bus().write_io(0xFFFD, r);
                            let v = e.verif_bus().read_io(0xFFFD);
                            if v != s.ay_regs[r as usize] {
                                return Err(Fail::new("C14.ay_readback", &format!("field=r{}", r), format!("AY register {} reads back {:02X}, the file says {:02X}", r, v, s.ay_regs[r as usize])));
                            }
                        }
                        e.verif_bus().write_io(0xFFFD, s.ay_sel);
                    }
                }
                // presence of joystick / mouse (SZX KEYB / AMXM)
                if fmt == 1 && (opt.with_keyb || opt.with_mouse) {
                    ctx.probe("presence_checked");
                    for e in [&mut r1, &mut r2] {
                        // an absent device leaves the port to the floating bus: read it where that is 0xFF (top border)
                        goto_frame_t(e, 300, if m128 { 70908 } else { 69888 });
                        if opt.with_mouse {
                            e.send_mouse_button(MOUSE_BUTTONS[0], true);
                            let v = e.verif_bus().read_io(0xFADF);
                            let present = v & 1 == 0;
                            e.send_mouse_button(MOUSE_BUTTONS[0], false);
                            if present != s.mouse {
                                return Err(Fail::new("C14.mouse_presence", "", format!("Kempston mouse present after load: {}, the file says {}", present, s.mouse)));
                            }
                        }
                        if opt.with_keyb {
                            e.send_kempston_key(KEMPSTON[4], true);
                            let v = e.verif_bus().read_io(0x001F);
                            let present = v == 0x10;
                            e.send_kempston_key(KEMPSTON[4], false);
                            if present != s.kempston {
                                return Err(Fail::new("C14.joystick_presence", "", format!("Kempston joystick present after load: {} (port reads {:02X}), the file says {}", present, v, s.kempston)));
                            }
                        }
                    }
                }
                // equalise what the format cannot carry, then both receivers must continue identically
                if fmt == 0 {
                    for e in [&mut r1, &mut r2] {
                        let mut st = cpu_state(e);
                        st.memptr = 0;
                        st.q = 0;
                        st.to_impl(e.verif_cpu());
                    }
                    // position in the frame: finish the current frame on both
                    for e in [&mut r1, &mut r2] {
                        let f = if m128 { 70908 } else { 69888 };
                        let c = e.verif_frame_clocks();
                        e.verif_bus().wait_internal(f - c);
                    }
                }
                let _ = drain_hash(&mut r1);
                let _ = drain_hash(&mut r2);
                run_frames(&mut r1, 3).map_err(|x| Fail::new("C14.run", "", x))?;
                run_frames(&mut r2, 3).map_err(|x| Fail::new("C14.run", "", x))?;
                ctx.sim_t += 6 * 69888;
                let (h1, h2) = (state_hash(&mut r1, m128, false), state_hash(&mut r2, m128, false));
                if h1 != h2 {
                    let d = cpu_state(&mut r1).diff(&cpu_state(&mut r2), 0);
                    return Err(Fail::new(
                        "C14.receiver_leak",
                        &format!("format={},machine={},dirt={}", ["sna", "szx"][fmt], machine, dname),
                        format!("the same {} file loaded into a {} receiver and into a fresh one: the machines differ after 3 frames (first register difference: {:?})", ["sna", "szx"][fmt], dname, d),
                    ));
                }
                // display
                for e in [&mut r1, &mut r2] {
                    let shadow = m128 && s.port_7ffd & 8 != 0;
                    let page = if m128 {
                        if shadow {
                            7
                        } else {
                            5
                        }
                    } else {
                        0
                    };
                    let mem: Vec<u8> = e.verif_ram_page(page)[..6912].to_vec();
                    let px = &e.screen_buffer().px;
                    if &screen::decode(&mem, false) != px && &screen::decode(&mem, true) != px {
                        let a = screen::decode(&mem, false);
                        let b = screen::decode(&mem, true);
                        let da = a.iter().zip(px.iter()).filter(|(x, y)| x != y).count();
                        let db = b.iter().zip(px.iter()).filter(|(x, y)| x != y).count();
                        let r = if da <= db { &a } else { &b };
                        let i = r.iter().zip(px.iter()).position(|(x, y)| x != y).unwrap_or(0);
                        return Err(Fail::new(
                            "C14.display",
                            &format!("format={},machine={},shadow={}", ["sna", "szx"][fmt], machine, shadow as u8),
                            format!("the picture after load is not the decode of the displayed screen bank: {} / {} wrong pixels against the two flash phases, first at ({},{})", da, db, i % 256, i / 256),
                        ));
                    }
                    ctx.probe("display_checked");
                }
                // the other 128K screen bank must have reached the display as well: switch to it
                if m128 && s.port_7ffd & 0x20 == 0 {
                    for e in [&mut r1, &mut r2] {
                        let (latch, _, _) = e.verif_paging();
                        e.verif_bus().write_io(0x7FFD, latch ^ 0x08);
                        run_frames(e, 2).map_err(|x| Fail::new("C14.run", "", x))?;
                        let now_shadow = (latch ^ 0x08) & 8 != 0;
                        let page = if now_shadow { 7 } else { 5 };
                        let mem: Vec<u8> = e.verif_ram_page(page)[..6912].to_vec();
                        let px = &e.screen_buffer().px;
                        if &screen::decode(&mem, false) != px && &screen::decode(&mem, true) != px {
                            return Err(Fail::new(
                                "C14.display_other_bank",
                                &format!("format={},shadow_after={}", ["sna", "szx"][fmt], now_shadow as u8),
                                format!("after the load the program switched the displayed screen to bank {}: the picture is not the decode of that bank (its contents came from the file and were never shown before)", page),
                            ));
                        }
                        ctx.probe("display_other_bank_checked");
                    }
                }
                // audible AY state
                if fmt == 1 && opt.with_ay {
                    // twin: same file without the AY chunk, AY programmed through the ports in register order
                    let mut o2 = opt.clone();
                    o2.with_ay = false;
                    // (both files at frame position 0: the sample grid is tied to the frame clock)
                    let mut s0 = s.clone();
                    s0.frame_t = 0;
                    let bytes2 = write_szx(&s0, &o2);
                    let bytes0 = write_szx(&s0, &opt);
                    let mut drng2 = Rng::new(1);
                    // 8 kHz: one sample lasts 437 T, so the twin's port writes (about 300 T) fall between
                    // two samples and both chips see the same programming before their first sample
                    let mut t = mk_rate(m128, 0, &mut drng2, false, false, 8000);
                    let mut f2 = mk_rate(m128, 0, &mut drng2, false, false, 8000);
                    if let (Ok(Ok(())), Ok(Ok(()))) = (load(&mut t, 1, &bytes2, 0), load(&mut f2, 1, &bytes0, 0)) {
                        if !m128 {
                            // the 48K AY chunk flag enables the chip; the twin enables it through the API
                            t.set_ay_enabled(true);
                        }
                        for r in 0..16u8 {
                            t.verif_bus().write_io(0xFFFD, r);
                            t.verif_bus().write_io(0xBFFD, s.ay_regs[r as usize]);
                        }
                        t.verif_bus().write_io(0xFFFD, s.ay_sel);
                        // the port writes took time: re-align the frame position and the CPU
                        let c0 = f2.verif_frame_clocks();
                        let ct = t.verif_frame_clocks();
                        if ct != c0 {
                            let f = if m128 { 70908 } else { 69888 };
                            t.verif_bus().wait_internal(f - ct);
                            f2.verif_bus().wait_internal(f - c0);
                        }
                        let _ = drain_hash(&mut t);
                        let _ = drain_hash(&mut f2);
                        run_frames(&mut t, 3).map_err(|x| Fail::new("C14.run", "", x))?;
                        run_frames(&mut f2, 3).map_err(|x| Fail::new("C14.run", "", x))?;
                        let (a1, n1, e1) = drain_hash(&mut f2);
                        let (a2, n2, e2) = drain_hash(&mut t);
                        ctx.probe("ay_twin_compared");
                        if a1 != a2 || n1 != n2 {
                            return Err(Fail::new(
                                "C14.ay_audible",
                                &format!("machine={}", machine),
                                format!("after loading AY registers {:02X?} from the file the sound of the next 3 frames (signal energy {:.4}) differs from a machine whose AY was programmed with the same registers through the ports (energy {:.4})", &s.ay_regs[..14], e1, e2),
                            ));
                        }
                    }
                }
            }
            1 => {
                // ------------------------------------------------ SZX HALTED / EILAST
                let flag = sc.get("flag");
                let mut fresh = Rng::new(3);
                if flag == 0 {
                    ctx.probe("halted_flag");
                    // HALT at 0x8100, interrupts enabled, IM 1 -> after the interrupt the ROM handler returns behind the HALT
                    let halt_at: u16 = 0x8100;
                    s.banks[2][0x100] = 0x76;
                    s.banks[2][0x101] = 0x18; // JR $
                    s.banks[2][0x102] = 0xFE;
                    s.cpu.iff1 = true;
                    s.cpu.iff2 = true;
                    s.cpu.im = 2;
                    s.cpu.i = 0xBE;
                    s.halted = true;
                    // the snapshot was taken far from the interrupt, or while the INT pulse of the frame was active (the
                    // halted CPU is then woken at the first instruction boundary after the load)
                    let in_pulse = (sc.get("seed") >> 17) & 1 == 1;
                    s.frame_t = if in_pulse { (sc.get("seed") >> 18) as u32 % 28 } else { 40_000 };
                    if in_pulse {
                        ctx.probe("halted_flag_inside_int_pulse");
                    }
                    let rdirt = if (sc.get("seed") >> 24) & 1 == 1 { 1 } else { 0 }; // receiver that has executed a HALT of its own
                    let mut verdicts = vec![];
                    for conv in 0..2 {
                        s.cpu.pc = if conv == 0 { halt_at + 1 } else { halt_at };
                        let bytes = write_szx(&s, &szx_opt(&mut orng, false));
                        let mut e = mk(m128, rdirt, &mut fresh, false, false);
                        if rdirt != 0 {
                            // what the receiver's old program left around the address the file's PC names is none of
                            // the file's business (a HALT opcode right in front of it, say)
                            write_mem(&mut e, halt_at - 1, &[0x76, 0x00, 0x00]);
                        }
                        match load(&mut e, 1, &bytes, chunk) {
                            Err(pi) => return Err(Fail::new("C14.panic", &format!("format=szx,at={}", crate::runner::panic_site(&pi)), format!("loading an SZX file with HALTED set panicked: {}", pi.msg))),
                            Ok(Err(x)) => return Err(Fail::new("C14.rejected", "format=szx,flag=halted", format!("a well-formed SZX file with HALTED set was rejected: {}", x))),
                            Ok(Ok(())) => {}
                        }
                        // until the interrupt: PC does not move, only R and time advance
                        let before = cpu_state(&mut e);
                        let mut ok = true;
                        for _ in 0..if in_pulse { 0 } else { 50 } {
                            let _ = step_public(&mut e);
                            let mut now = cpu_state(&mut e);
                            now.r = before.r;
                            now.q = before.q;
                            now.no_sample = before.no_sample;
                            now.memptr = before.memptr;
                            if now != before {
                                ok = false;
                                break;
                            }
                        }
                        // then run over the frame end: the interrupt must return behind the HALT (to the JR $)
                        if ok {
                            let _ = run_frames(&mut e, 2);
                            let st = cpu_state(&mut e);
                            ok = st.pc == halt_at + 1 && !st.halted;
                        }
                        verdicts.push(ok);
                    }
                    if !verdicts.iter().any(|v| *v) {
                        return Err(Fail::new(
                            "C14.szx_halted",
                            &format!("machine={}", machine),
                            "an SZX file with the HALTED flag does not produce a halted CPU under either PC convention (PC at the HALT / behind it): the CPU must idle at the HALT until the next interrupt and then resume behind it".into(),
                        ));
                    }
                } else {
                    ctx.probe("eilast_flag");
                    s.cpu.iff1 = true;
                    s.cpu.iff2 = true;
                    s.cpu.im = 2;
                    s.cpu.i = 0xBE;
                    s.ei_last = true;
                    s.frame_t = 4; // INT active
                    let bytes = write_szx(&s, &szx_opt(&mut orng, false));
                    let mut e = mk(m128, 0, &mut fresh, false, false);
                    match load(&mut e, 1, &bytes, chunk) {
                        Ok(Ok(())) => {}
                        other => return Err(Fail::new("C14.rejected", "format=szx,flag=eilast", format!("loading an SZX file with EILAST set failed: {:?}", other.map_err(|p| p.msg)))),
                    }
                    let _ = step_public(&mut e);
                    let st = cpu_state(&mut e);
                    // the first instruction (JR $) executes before any interrupt is taken
                    if !st.iff1 || st.pc != IDLE {
                        return Err(Fail::new("C14.szx_eilast", &format!("machine={}", machine), format!("EILAST set and INT active at load time: the interrupt was taken before the next instruction (PC {:04X}, IFF1 {})", st.pc, st.iff1)));
                    }
                }
            }
            2 => {
                // ------------------------------------------------ encodings of one state continue identically
                ctx.probe("encodings_compared");
                s.cpu.iff1 = s.cpu.iff2;
                s.cpu.memptr = 0;
                s.cpu.q = 0;
                s.frame_t = 0;
                if !m128 {
                    // the SNA image carries PC below SP: make that part of the state itself
                    let sp = s.cpu.sp.wrapping_sub(2);
                    let pc = s.cpu.pc;
                    s.poke(sp, pc as u8);
                    s.poke(sp.wrapping_add(1), (pc >> 8) as u8);
                }
                let mut o_st = szx_opt(&mut orng, false);
                o_st.compress = vec![false; 8];
                o_st.with_keyb = false;
                o_st.with_mouse = false;
                // (what the writers left in the hold-INT byte is their business: the three files still describe one state)
                o_st.hold_int = orng.u8();
                let mut o_z = o_st.clone();
                o_z.hold_int = orng.u8();
                o_z.compress = vec![true; 8];
                o_z.order_seed = orng.next() | 1;
                let files = [(0usize, encode(&s, 0, &o_st), "sna"), (1, encode(&s, 1, &o_st), "szx_stored"), (1, encode(&s, 1, &o_z), "szx_zlib")];
                let mut hashes = vec![];
                let mut fresh = Rng::new(5);
                for (f, bytes, name) in files.iter() {
                    let mut e = mk(m128, 0, &mut fresh, false, false);
                    match load(&mut e, *f, bytes, chunk) {
                        Ok(Ok(())) => {}
                        other => return Err(Fail::new("C14.rejected", &format!("format={}", name), format!("loading the {} encoding failed: {:?}", name, other.map_err(|p| p.msg)))),
                    }
                    let mut st = cpu_state(&mut e);
                    st.memptr = 0;
                    st.q = 0;
                    st.to_impl(e.verif_cpu());
                    run_frames(&mut e, 4).map_err(|x| Fail::new("C14.run", "", x))?;
                    hashes.push((state_hash(&mut e, m128, false), video_hash(&e), *name));
                    ctx.sim_t += 4 * 69888;
                }
                for w in hashes.windows(2) {
                    if w[0].0 != w[1].0 {
                        return Err(Fail::new("C14.encodings_differ", &format!("pair={}-{},machine={}", w[0].2, w[1].2, machine), format!("the same state loaded from its {} and {} encodings behaves differently after 4 frames", w[0].2, w[1].2)));
                    }
                }
            }
            3 => {
                // ------------------------------------------------ model mismatch
                let file128 = !m128;
                let mut fs = gen_state(&mut rng, file128);
                fs.cpu.iff1 = fs.cpu.iff2;
                let bytes = if fmt == 0 {
                    if file128 {
                        write_sna128(&fs)
                    } else {
                        write_sna48(&fs)
                    }
                } else {
                    write_szx(&fs, &szx_opt(&mut orng, false))
                };
                let mut drng = Rng::new(9);
                let mut e = mk(m128, dirt, &mut drng, false, false);
                match load(&mut e, fmt, &bytes, chunk) {
                    Err(pi) => return Err(Fail::new("C14.panic", &format!("format={},at={}", ["sna", "szx"][fmt], crate::runner::panic_site(&pi)), format!("loading a {} {} file into a {} machine panicked at {}:{}: {}", if file128 { "128K" } else { "48K" }, ["sna", "szx"][fmt], machine, pi.file, pi.line, pi.msg))),
                    Ok(Err(_)) => ctx.probe("mismatch_rejected"),
                    Ok(Ok(())) => {
                        // accepted: then the layout must be right (banks 5, 2, 0 at 0x4000, 0x8000, 0xC000)
                        for (a, b) in [(0x4000u16, 5usize), (0x8000, 2), (0xC000, if file128 { (fs.port_7ffd & 7) as usize } else { 0 })] {
                            for off in [0usize, 1, 0x1234, 0x3FFF] {
                                if e.peek(a + off as u16) != fs.banks[b][off] {
                                    return Err(Fail::new(
                                        "C14.mismatch_layout",
                                        &format!("format={},machine={},file={}", ["sna", "szx"][fmt], machine, if file128 { "128k" } else { "48k" }),
                                        format!("a {} file was accepted by a {} machine but address {:04X} does not hold the file's bank {} byte", if file128 { "128K" } else { "48K" }, machine, a as usize + off, b),
                                    ));
                                }
                            }
                        }
                    }
                }
                let _ = run_frames(&mut e, 2);
            }
            _ => {
                // ------------------------------------------------ SCR
                ctx.probe("scr_loaded");
                let scr = super::c08::gen_screen(&mut rng);
                let mut drng = Rng::new(11);
                let mut e = mk(m128, dirt, &mut drng, false, false);
                if m128 {
                    // normal screen displayed (shadow case is not asserted)
                    let (latch, unlocked, _) = e.verif_paging();
                    if unlocked {
                        e.verif_bus().write_io(0x7FFD, latch & !0x08);
                    } else if latch & 8 != 0 {
                        return Ok(());
                    }
                }
                match load(&mut e, 2, &write_scr(&scr), chunk) {
                    Ok(Ok(())) => {}
                    other => return Err(Fail::new("C14.rejected", "format=scr", format!("loading a 6912-byte SCR file failed: {:?}", other.map_err(|p| p.msg)))),
                }
                // the old program's interrupt handler is not the loader's business: disable interrupts
                {
                    let mut st = cpu_state(&mut e);
                    st.iff1 = false;
                    st.iff2 = false;
                    st.to_impl(e.verif_cpu());
                }
                let page = if m128 { 5 } else { 0 };
                if e.verif_ram_page(page)[..6912] != scr[..] {
                    return Err(Fail::new("C14.scr_memory", &format!("machine={},dirt={}", machine, DIRT[dirt]), "screen memory after load_screen is not the file's content".into()));
                }
                run_frames(&mut e, 3).map_err(|x| Fail::new("C14.run", "", x))?;
                let mem: Vec<u8> = e.verif_ram_page(page)[..6912].to_vec();
                let px = &e.screen_buffer().px;
                if mem != scr || (&screen::decode(&mem, false) != px && &screen::decode(&mem, true) != px) {
                    return Err(Fail::new("C14.scr_display", &format!("machine={},dirt={}", machine, DIRT[dirt]), "after load_screen and 3 frames the picture is not the decode of the file (the machine did not stay idle or the display was not refreshed)".into()));
                }
                ctx.sim_t += 3 * 69888;
            }
        }
        ctx.cover(h.get());
        ctx.units += 1;
        Ok(())
    }
}
