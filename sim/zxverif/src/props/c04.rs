//! C04 — ULA memory and I/O contention delays match the 48K/128K contention model.
//! World B. (a) bus-op level: single bus operations on the real ZXController at seeded clocks;
//! (b) instruction level: stratified instructions at seeded placements and start T-states, the
//! expected duration computed from RefZ80's cycle script under RefULA (the reference is
//! re-synchronised from the implementation's own registers and memory before every instruction,
//! so that a value bug cannot surface as a timing alarm).

use crate::cpustate::CpuState;
use crate::host::SimExtender;
use crate::machine::*;
use crate::prng::{Fnv, Rng};
use crate::runner::{Fail, Property, RunCtx, Tier};
use crate::scenario::Scenario;
use crate::worlda::encode_stratified;
use rustzx_z80::Z80Bus;
use zxref::mem::RefMem;
use zxref::ula::RefUla;
use zxref::z80::{RefBus, RefZ80};

pub struct C04;

/// Reference bus that replays the machine's memory view and accumulates contended time.
struct UlaBus<'a> {
    emu: &'a Emu,
    overlay: Vec<(u16, u8)>,
    t: u64,
    ula: RefUla,
    map: RefMem, // only the latch / window predicate is used
    ambiguous: bool,
    contended_cycles: u32,
    io_cycles: u32,
}

impl<'a> UlaBus<'a> {
    fn peek(&self, addr: u16) -> u8 {
        // a write is seen through every window that shows the same RAM bank (128K: bank 2 or 5 paged at 0xC000)
        let key = |a: u16| (self.map.window(a as usize / 16384), a as usize % 16384);
        let k = key(addr);
        if let Some(x) = self.overlay.iter().rev().find(|x| key(x.0) == k) {
            return x.1;
        }
        self.emu.peek(addr)
    }
    fn mem(&mut self, addr: u16, len: u64) {
        let c = self.map.contended_addr(addr);
        if c && self.ula.delay(self.t) > 0 {
            self.contended_cycles += 1;
        }
        self.t = self.ula.mem_cycle(self.t, c, len);
    }
}

impl<'a> RefBus for UlaBus<'a> {
    fn m1(&mut self, addr: u16) -> u8 {
        self.mem(addr, 4);
        self.peek(addr)
    }
    fn rd(&mut self, addr: u16) -> u8 {
        self.mem(addr, 3);
        self.peek(addr)
    }
    fn wr(&mut self, addr: u16, v: u8) {
        self.mem(addr, 3);
        let (rom, _) = self.map.window(addr as usize / 16384);
        if !rom {
            self.overlay.push((addr, v));
        }
    }
    fn dly(&mut self, addr: u16, n: u8) {
        for _ in 0..n {
            self.mem(addr, 1);
        }
    }
    fn internal(&mut self, n: u8) {
        self.t += n as u64;
    }
    fn io_r(&mut self, port: u16) -> u8 {
        self.io_cycles += 1;
        self.t = self.ula.io_cycle(self.t, port, self.map.contended_addr(port));
        0xFF
    }
    fn io_w(&mut self, port: u16, v: u8) {
        self.io_cycles += 1;
        self.t = self.ula.io_cycle(self.t, port, self.map.contended_addr(port));
        if self.map.m128 && port & 0x8002 == 0 {
            if port & 1 == 1 {
                self.map.out_7ffd(v);
            } else {
                // even port that also matches the paging decode: two devices selected, don't-care
                self.ambiguous = true;
            }
        }
    }
    fn sample_lines(&mut self) -> (bool, bool) {
        (false, self.ula.int_active(self.t))
    }
    fn int_bus_byte(&mut self) -> u8 {
        0xFF
    }
}

fn latch_model(e: &Emu, m128: bool) -> RefMem {
    let mut m = RefMem::new(m128);
    if m128 {
        let (latch, unlocked, _) = e.verif_paging();
        m.out_7ffd(latch & !0x20);
        m.locked = !unlocked;
    }
    m
}

/// Moves the in-frame clock to `t`: only forward jumps are made (devices keep cursors into the
/// frame); when `t` lies behind the current clock the rest of the frame is skipped first so that
/// every device starts a new frame.
fn goto_t(e: &mut Emu, t: u64, frame: u64) {
    let c = e.verif_frame_clocks() as u64;
    if t < c {
        e.verif_bus().wait_internal((frame - c) as usize);
    }
    e.verif_set_frame_clocks(t as usize);
}

/// start T-states biased to the edges of the contention window
fn pick_t(rng: &mut Rng, ula: &RefUla) -> u64 {
    match rng.below(10) {
        0 | 1 => rng.below(ula.frame),
        2 => ula.t0 + rng.below(192) * ula.line + rng.below(140),
        3 => {
            // around the start / end of a line's window
            let l = *rng.pick(&[0u64, 1, 95, 190, 191]);
            let edge = *rng.pick(&[0u64, 128]);
            (ula.t0 + l * ula.line + edge + 16).saturating_sub(rng.below(32))
        }
        4 => (ula.t0 + 192 * ula.line + 16).saturating_sub(rng.below(40)),
        5 => ula.t0.saturating_sub(rng.below(24)) + rng.below(8),
        6 => ula.frame - 1 - rng.below(40),
        7 => rng.below(40),
        _ => ula.t0 + rng.below(192 * ula.line),
    }
}

impl Property for C04 {
    fn id(&self) -> &'static str {
        "C04"
    }
    fn runs(&self, tier: Tier) -> u64 {
        match tier {
            Tier::Quick => 1_500,
            Tier::Thorough => 120_000,
        }
    }
    fn rule(&self) -> &'static str {
        "per run: machine, 128K paging latch (bank 0-7 at 0xC000, ROM, screen), then (a) 150 single bus operations (read 3/4 T, one-T delay, delay loop, port read/write) and (b) 300 stratified instructions (7 pages x 256 opcodes, random register file so that code, operands, stack, I register and BC land in contended or uncontended memory) each from a start T drawn uniformly or from +-16 T around the edges of the contention window / frame; observed duration vs RefULA applied to RefZ80's cycle script; every sixth run instead (c) a whole-machine lock-step of 3000+ instructions of seeded random code against RefZ80 on RefMem+RefULA with no re-synchronisation, cumulative time compared after every instruction (stale caches, latches following ignored writes); distinct = (machine, cycle kind or (page, opcode, variant), contended?, (T-T0) mod 8, in-window?)"
    }
    fn state_measure(&self) -> &'static str {
        "distinct (machine, paged bank, picture line class, T mod line) start positions"
    }
    fn real_components(&self) -> Vec<&'static str> {
        vec!["ZXController (wait_mreq/wait_no_mreq/wait_loop/read_io/write_io, contention, frame clock)", "ZXMachine::contention_clocks / bank_is_contended / port_is_contended", "Z80 (cycle sequence of every instruction)", "Emulator::emulate_frames single-step via DebugInterface"]
    }
    fn stub_components(&self) -> Vec<&'static str> {
        vec!["RefULA + RefMem (zxref)", "RefZ80 cycle scripts re-synchronised from the machine's state before every instruction", "Host debug interface (always break)"]
    }
    fn assumptions(&self) -> Vec<&'static str> {
        vec![
            "contention constants are those of the property text (T0 14335/14361, 224/228 T lines, 192 lines x 128 T, pattern 6,5,4,3,2,1,0,0)",
            "an even port that also matches the 128K paging decode (two devices selected) is a don't-care and truncates the case",
            "interrupt entry cycles carry no contended address (they occur at T<32 + instruction length, far from the picture area)",
        ]
    }
    fn expected_probes(&self) -> Vec<&'static str> {
        vec!["contended_cycle_delayed", "io_contended_high_even", "io_contended_high_odd", "io_even_uncontended_high", "bank_paged_contended_c000", "crossed_frame_end", "interrupt_in_case", "window_edge_start", "lockstep_contended_cycle", "word_access_on_window_border", "extender_installed", "extender_port_timed"]
    }

    fn gen(&self, rng: &mut Rng, _tier: Tier, _idx: u64) -> Scenario {
        let mut sc = Scenario::new();
        sc.set("m128", rng.bool() as i64);
        sc.set("latch", (rng.u8() & 0x1F) as i64);
        sc.set("seed", (rng.next() >> 2) as i64);
        sc.set("bus_ops", 150);
        sc.set("instrs", 300);
        sc.set("ei_share", *rng.pick(&[0i64, 0, 0, 4]));
        if _idx % 6 == 5 || std::env::var("VERIF_ONLY_LOCKSTEP").is_ok() {
            // (c) whole-machine lock-step without re-synchronisation
            sc.set("lockstep", 1);
            sc.set("steps", if _tier == Tier::Quick { 3000 } else { 10000 });
        }
        sc
    }

    fn exec(&self, sc: &Scenario, ctx: &mut RunCtx) -> Result<(), Fail> {
        let m128 = sc.get("m128") != 0;
        if sc.get("lockstep") != 0 {
            return crate::lockstep::run(m128, sc.get("seed") as u64, sc.get("steps").clamp(1, 50_000) as usize, crate::lockstep::Judge::Contention, "C04", ctx);
        }
        let cfg = MCfg { m128, ..Default::default() };
        let ula = RefUla::new(m128);
        let mut e = new_emu(&cfg);
        let machine = if m128 { "128k" } else { "48k" };
        if m128 {
            e.verif_bus().write_io(0x7FFD, (sc.get("latch") & 0x1F) as u8);
            if sc.get("latch") & 1 == 1 {
                ctx.probe("bank_paged_contended_c000");
            }
        }
        let mut rng = Rng::new(sc.get("seed") as u64);
        // a host I/O extender claiming some ports in a third of the runs: a claimed port is timed like any
        // other port (the ULA does not know who answers)
        let mut ext_ports: Vec<u16> = vec![];
        if sc.get("seed") % 3 == 0 {
            ctx.probe("extender_installed");
            for _ in 0..6 {
                ext_ports.push(match rng.below(4) {
                    0 => (rng.u16() & 0x3F00) | 0x4000 | (rng.u16() & 0xFF), // contended high byte
                    1 => rng.u16() & 0xFFFE,                                  // even
                    2 => rng.u16() | 0x0001,                                  // odd
                    _ => rng.u16(),
                } | 0x0002); // never the paging port
            }
            e.set_io_extender(SimExtender { claimed: ext_ports.clone(), log: vec![], read_xor: rng.u8() });
        }
        // random RAM so that instructions fetched from anywhere are varied
        for p in 0..ram_pages(m128) {
            rng.fill(e.verif_ram_page(p));
        }
        e.verif_refresh_screen();
        let f = ula.frame;
        // ---------------- (a) bus-op level
        let n_bus = sc.get("bus_ops").clamp(0, 2000);
        for _ in 0..n_bus {
            let map = latch_model(&e, m128);
            let t = pick_t(&mut rng, &ula);
            let addr = match rng.below(4) {
                0 => 0x4000 + (rng.u16() & 0x3FFF),
                1 => 0xC000 + (rng.u16() & 0x3FFF),
                _ => rng.u16(),
            };
            let kind = rng.below(6);
            goto_t(&mut e, t, f);
            let c = map.contended_addr(addr);
            let mut used_port: Option<u16> = None;
            let (exp, name): (u64, &str) = match kind {
                0 => {
                    e.verif_bus().read(addr, 3);
                    (ula.mem_cycle(t, c, 3), "read3")
                }
                1 => {
                    e.verif_bus().read(addr, 4);
                    (ula.mem_cycle(t, c, 4), "fetch4")
                }
                2 => {
                    e.verif_bus().wait_no_mreq(addr, 1);
                    (ula.mem_cycle(t, c, 1), "delay1")
                }
                3 => {
                    let n = 1 + rng.below(7);
                    e.verif_bus().wait_loop(addr, n as usize);
                    let mut x = t;
                    for _ in 0..n {
                        x = ula.mem_cycle(x, c, 1);
                    }
                    (x, "delayloop")
                }
                4 => {
                    let port = if !ext_ports.is_empty() && rng.bool() { *rng.pick(&ext_ports) } else { addr | 0x0002 }; // never the paging port
                    if ext_ports.contains(&port) {
                        ctx.probe("extender_port_timed");
                    }
                    used_port = Some(port);
                    e.verif_bus().read_io(port);
                    (ula.io_cycle(t, port, map.contended_addr(port)), "ioread")
                }
                _ => {
                    let port = if !ext_ports.is_empty() && rng.bool() { *rng.pick(&ext_ports) } else { addr | 0x0002 };
                    if ext_ports.contains(&port) {
                        ctx.probe("extender_port_timed");
                    }
                    used_port = Some(port);
                    e.verif_bus().write_io(port, rng.u8() & 0x07);
                    (ula.io_cycle(t, port, map.contended_addr(port)), "iowrite")
                }
            };
            let got = e.verif_frame_clocks() as u64;
            let exp_wrapped = if exp >= f { exp - f } else { exp };
            let port_like = kind >= 4;
            let addr = used_port.unwrap_or(addr);
            let claimed = used_port.map(|p| ext_ports.contains(&p)).unwrap_or(false);
            let cc = if port_like { map.contended_addr(addr) } else { c };
            if port_like {
                match (cc, addr & 1 == 0) {
                    (true, true) => ctx.probe("io_contended_high_even"),
                    (true, false) => ctx.probe("io_contended_high_odd"),
                    (false, true) => ctx.probe("io_even_uncontended_high"),
                    _ => {}
                }
            }
            if got != exp_wrapped {
                return Err(Fail::new(
                    "C04.bus_op",
                    &format!("machine={},op={},contended={},even={}{}", machine, name, cc as u8, (addr & 1 == 0) as u8, if claimed { ",extender=1" } else { "" }),
                    format!("{} at {:04X} starting at T={} ((T-T0) mod line = {}, in window {}): clock advanced to {}, model says {} (contended address: {})", name, addr, t, (t + f - ula.t0) % f % ula.line, ula.in_window(t), got, exp_wrapped, cc),
                ));
            }
            if exp - t > if port_like { 4 } else { [3, 4, 1, 0][kind.min(3) as usize].max(1) } && kind != 3 {
                ctx.probe("contended_cycle_delayed");
            }
            let mut h = Fnv::new();
            h.u8(m128 as u8);
            h.u8(kind as u8);
            h.u8(cc as u8);
            h.u8((addr & 1) as u8 & port_like as u8);
            h.u64((t + f - ula.t0) % 8);
            h.u8(ula.in_window(t) as u8);
            ctx.cover(h.get());
            ctx.units += 1;
            ctx.sim_t += exp - t;
        }
        // ---------------- (b) instruction level
        let n_ins = sc.get("instrs").clamp(0, 5000);
        let ei_share = sc.get("ei_share");
        for _ in 0..n_ins {
            let mut st = CpuState::random(&mut rng);
            st.iff1 = ei_share > 0 && rng.below(ei_share as u64) == 0;
            st.iff2 = st.iff1;
            // placement classes
            match rng.below(8) {
                0 => st.pc = 0x4000 + (rng.u16() & 0x3FFF),
                1 => st.pc = 0xC000 + (rng.u16() & 0x3FFF),
                2 => st.pc = 0x8000 + (rng.u16() & 0x3FFF),
                3 => st.sp = 0x4000 + (rng.u16() & 0x3FFF),
                4 => st.i = 0x40 + (rng.u8() & 0x3F),
                5 => st.bc = (st.bc & 0x00FF) | ((0x40 + (rng.u8() & 0x3F)) as u16) << 8,
                _ => {}
            }
            match rng.below(8) {
                0 => st.bc = (st.bc & 0x00FF) | 0x0100,
                1 => st.bc = 1,
                2 => st.bc = 2,
                _ => {}
            }
            // operands at 16 KiB page boundaries (contention status changes between neighbouring bytes)
            if rng.chance(1, 3) {
                let b = *rng.pick(&[0x3FFFu16, 0x4000, 0x4001, 0x7FFF, 0x8000, 0x8001, 0xBFFF, 0xC000, 0xC001, 0xFFFF, 0x0000, 0x0001]);
                match rng.below(6) {
                    0 => st.hl = b,
                    1 => st.de = b,
                    2 => st.bc = b,
                    3 => st.sp = b,
                    4 => st.ix = b.wrapping_sub(rng.below(3) as u16),
                    _ => st.pc = b.wrapping_sub(rng.below(4) as u16),
                }
            }
            let mut enc = encode_stratified(&mut rng);
            // 16-bit direct addresses on the borders between differently contended 16 KiB windows (both
            // bytes of the access have their own contention status)
            if rng.chance(1, 4) {
                let b = *rng.pick(&[0x3FFFu16, 0x7FFF, 0xBFFF, 0xFFFF, 0x3FFE, 0x4000, 0x7FFE, 0x8000, 0xBFFE, 0xC000]);
                enc = match rng.below(6) {
                    0 => vec![*rng.pick(&[0x22u8, 0x2A, 0x32, 0x3A]), b as u8, (b >> 8) as u8],
                    1 => vec![0xED, *rng.pick(&[0x43u8, 0x53, 0x63, 0x73, 0x4B, 0x5B, 0x6B, 0x7B]), b as u8, (b >> 8) as u8],
                    2 => vec![*rng.pick(&[0xDDu8, 0xFD]), *rng.pick(&[0x22u8, 0x2A]), b as u8, (b >> 8) as u8],
                    3 => {
                        st.sp = b;
                        vec![*rng.pick(&[0xE3u8, 0xC1, 0xC9, 0xE1])]
                    }
                    4 => {
                        st.sp = b.wrapping_add(1 + rng.below(2) as u16);
                        vec![*rng.pick(&[0xC5u8, 0xE5, 0xCD, 0xFF]), rng.u8(), rng.u8()]
                    }
                    _ => {
                        st.sp = b;
                        vec![*rng.pick(&[0xDDu8, 0xFD]), 0xE3]
                    }
                };
                ctx.probe("word_access_on_window_border");
            }
            // ports claimed by the extender
            if !ext_ports.is_empty() && rng.chance(1, 5) {
                let port = *rng.pick(&ext_ports);
                st.bc = port;
                st.af = (st.af & 0x00FF) | (port & 0xFF00);
                enc = match rng.below(5) {
                    0 => vec![0xED, *rng.pick(&[0x41u8, 0x49, 0x51, 0x59, 0x61, 0x69, 0x71, 0x79])],
                    1 => vec![0xED, *rng.pick(&[0x40u8, 0x48, 0x50, 0x58, 0x60, 0x68, 0x70, 0x78])],
                    2 => vec![0xD3, port as u8],
                    3 => vec![0xDB, port as u8],
                    _ => vec![0xED, *rng.pick(&[0xA3u8, 0xAB, 0xB3, 0xBB, 0xA2, 0xAA])],
                };
                ctx.probe("extender_port_timed");
            }
            write_mem(&mut e, st.pc, &enc);
            let t = pick_t(&mut rng, &ula);
            if (ula.t0.saturating_sub(2)..ula.t0 + 2).contains(&(t % ula.line + (t / ula.line) * ula.line)) || ula.in_window(t) != ula.in_window(t + 1) {
                ctx.probe("window_edge_start");
            }
            st.to_impl(e.verif_cpu());
            goto_t(&mut e, t, f);
            // reference: re-synchronised from the machine
            let pre = cpu_state(&mut e);
            let mut r: RefZ80 = pre.to_ref();
            let (exp_t, info, amb, cont, ios) = {
                let mut bus = UlaBus { emu: &e, overlay: vec![], t, ula, map: latch_model(&e, m128), ambiguous: false, contended_cycles: 0, io_cycles: 0 };
                let info = r.step(&mut bus);
                (bus.t, info, bus.ambiguous || info.ambiguous.is_some(), bus.contended_cycles, bus.io_cycles)
            };
            if amb {
                ctx.ambiguous += 1;
                continue;
            }
            // implementation: one instruction through the public API (prefix chains take several calls)
            let mut passed = step_public(&mut e).map_err(|x| Fail::new("C04.step", "", x))?;
            let mut guard = 0;
            while e.verif_cpu().verif_prefix_pending() && guard < 600 {
                passed += step_public(&mut e).map_err(|x| Fail::new("C04.step", "", x))?;
                guard += 1;
            }
            let got = e.verif_frame_clocks() as u64 + passed as u64 * f;
            if passed > 0 {
                ctx.probe("crossed_frame_end");
            }
            if info.accepted != zxref::z80::Accepted::None {
                ctx.probe("interrupt_in_case");
            }
            if cont > 0 {
                ctx.probe("contended_cycle_delayed");
            }
            let _ = ios;
            if got != exp_t {
                // attribute: only report when the value-level outcome agrees (else it is C01's matter)
                let post_i = cpu_state(&mut e);
                let post_r = CpuState::from_ref(&r);
                if post_i.pc != post_r.pc || post_i.sp != post_r.sp {
                    ctx.probe("value_divergence_skipped");
                    continue;
                }
                let map = latch_model(&e, m128);
                return Err(Fail::new(
                    "C04.instruction",
                    &format!("machine={},page={},op={:02X},variant={}", machine, crate::worlda::page_name(info.page), info.opcode, info.variant),
                    format!(
                        "{} {:02X} (variant {}) at PC={:04X} (contended {}) SP={:04X} I={:02X} BC={:04X} HL={:04X} started at T={} ((T-T0) mod 8 = {}, in window {}): took {} T, model {} T (uncontended {} T)",
                        crate::worlda::page_name(info.page),
                        info.opcode,
                        info.variant,
                        pre.pc,
                        map.contended_addr(pre.pc),
                        pre.sp,
                        pre.i,
                        pre.bc,
                        pre.hl,
                        t,
                        (t + f - ula.t0) % 8,
                        ula.in_window(t),
                        got - t,
                        exp_t - t,
                        RefZ80::t_total(info.page, info.opcode, info.variant)
                    ),
                ));
            }
            let mut h = Fnv::new();
            h.u8(m128 as u8);
            h.u8(info.page as u8);
            h.u8(info.opcode);
            h.u8(info.variant);
            h.u8(latch_model(&e, m128).contended_addr(pre.pc) as u8);
            h.u64((t + f - ula.t0) % 8);
            h.u8(ula.in_window(t) as u8);
            ctx.cover(h.get());
            let mut hs = Fnv::new();
            hs.u8(m128 as u8);
            hs.u8((sc.get("latch") & 7) as u8);
            hs.u64(if t < ula.t0 { 0 } else { 1 + ((t - ula.t0) / ula.line).min(192) / 48 });
            hs.u64(t % ula.line);
            ctx.state(hs.get());
            ctx.units += 1;
            ctx.sim_t += exp_t - t;
        }
        Ok(())
    }
}
