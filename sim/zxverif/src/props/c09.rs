//! C09 — border pixels show the colour written to the ULA before the beam got there.
//! World B: OUTs to even ports at seeded T-states (several per line, in retrace, in the last lines,
//! straddling the frame end, frames with no write); write instants are observed by single-stepping;
//! the completed border buffer is compared with the `RefBorder` time line (16-pixel tolerance).

use crate::cpustate::CpuState;
use crate::host::*;
use crate::machine::*;
use crate::prng::{Fnv, Rng};
use crate::runner::{Fail, Property, RunCtx, Tier};
use crate::scenario::Scenario;
use crate::snapfmt::*;
use rustzx_core::host::Snapshot;
use rustzx_z80::Z80Bus;

pub struct C09;

const IDLE: u16 = 0x8000;
const OUTS: u16 = 0x8010; // OUT (0xFE),A
const OUTC: u16 = 0x8020; // OUT (C),A

struct Write {
    /// frame-relative T of the start of the port cycle and of the end of the instruction
    t_io: i64,
    t_end: i64,
    colour: u8,
}

fn check_border(e: &Emu, cfg: &MCfg, start_colour: u8, writes: &[Write], frame_no: usize) -> Result<(), Fail> {
    let fb = e.border_buffer();
    let line = cfg.line_len() as i64;
    let first = if cfg.m128 { 14362i64 } else { 14336 };
    let machine = if cfg.m128 { "128k" } else { "48k" };
    for y in 0..240usize {
        for x in 0..320usize {
            if (32..288).contains(&x) && (24..216).contains(&y) {
                continue;
            }
            let t = first + (y as i64 - 24) * line + (x as i64 - 32) / 2;
            // colour(s) allowed at beam time t
            let mut allowed = [false; 8];
            let mut cur = start_colour;
            let mut settled = true;
            for w in writes {
                if t > w.t_end + 8 {
                    cur = w.colour;
                    settled = true;
                    allowed = [false; 8];
                } else if t >= w.t_io - 8 {
                    // inside the tolerance band of this write: either side
                    if settled {
                        allowed[cur as usize] = true;
                    }
                    allowed[w.colour as usize] = true;
                    cur = w.colour;
                    settled = false;
                } else {
                    break;
                }
            }
            allowed[cur as usize] = true;
            let got = fb.px[y * 320 + x];
            let ok = got < 8 && allowed[got as usize];
            if !ok {
                let nwrites = writes.len();
                let retrace = x >= 288 || x < 32;
                return Err(Fail::new(
                    "C09.border_pixel",
                    &format!("machine={},writes={}", machine, if nwrites == 0 { "0" } else if nwrites == 1 { "1" } else { "many" }),
                    format!(
                        "frame {}: border pixel ({},{}) (beam T={}, {}) shows colour {:X}; allowed by the writes of this frame: {:?} (frame started with colour {}, {} writes at T={:?})",
                        frame_no,
                        x,
                        y,
                        t,
                        if retrace { "side border" } else { "top/bottom border" },
                        got,
                        (0..8).filter(|&c| allowed[c]).collect::<Vec<_>>(),
                        start_colour,
                        nwrites,
                        writes.iter().map(|w| w.t_io).collect::<Vec<_>>()
                    ),
                ));
            }
        }
    }
    Ok(())
}

fn load_snap(e: &mut Emu, m128: bool, border: u8, fmt: i64, fe_low: u8, frame_t: u32) -> Result<(), Fail> {
    let mut s = SnapState::new(m128);
    s.border = border;
    s.frame_t = frame_t;
    s.cpu.pc = IDLE;
    s.cpu.sp = 0x8FF0;
    let r = if fmt == 0 {
        let bytes = if m128 { write_sna128(&s) } else { write_sna48(&s) };
        e.load_snapshot(Snapshot::Sna(SimAsset::plain(bytes)))
    } else {
        let opt = SzxOptions { fe_low: Some(fe_low), ..Default::default() };
        e.load_snapshot(Snapshot::Szx(SimAsset::plain(write_szx(&s, &opt))))
    };
    r.map_err(|x| Fail::new("C09.load", "", format!("{:?}", x)))?;
    if e.border_color() as u8 != border {
        return Err(Fail::new(
            "C09.snapshot_border",
            &format!("machine={},format={}", if m128 { "128k" } else { "48k" }, if fmt == 0 { "sna" } else { "szx" }),
            format!("border_color() is {} after loading a {} snapshot with border {}{}", e.border_color() as u8, if fmt == 0 { "SNA" } else { "SZX" }, border, if fmt == 0 { String::new() } else { format!(" (low bits of its last-OUT field: {})", fe_low) }),
        ));
    }
    write_mem(e, IDLE, &[0xF3, 0x18, 0xFE]);
    write_mem(e, OUTS, &[0xD3, 0xFE]);
    write_mem(e, OUTC, &[0xED, 0x79]);
    let mut st = cpu_state(e);
    st.pc = IDLE;
    st.sp = 0x8FF0;
    st.iff1 = false;
    st.iff2 = false;
    st.halted = false;
    st.to_impl(e.verif_cpu());
    Ok(())
}

impl C09 {
    /// kind 1: a free-running program writes the border; the host drives in multi-frame calls.
    fn program_kind(&self, sc: &Scenario, cfg: &MCfg, mut e: Emu, ctx: &mut RunCtx) -> Result<(), Fail> {
        let m128 = cfg.m128;
        let f = cfg.frame_len() as u64;
        let machine = if m128 { "128k" } else { "48k" };
        // program: DI; { LD BC,n; L: DEC BC; LD A,B; OR C; JR NZ,L; LD A,v; OUT (0xFE),A }*; JR $
        let mut prog: Vec<u8> = vec![0xF3];
        for op in sc.ops.iter().filter(|o| o.k == "pout") {
            let n = op.arg(0).clamp(1, 65535) as u16;
            let v = ((op.arg(1) & 7) | (op.arg(2) & 0xF8)) as u8;
            prog.extend_from_slice(&[0x01, n as u8, (n >> 8) as u8, 0x0B, 0x78, 0xB1, 0x20, 0xFB, 0x3E, v, 0xD3, 0xFE]);
        }
        prog.extend_from_slice(&[0x18, 0xFE]);
        if prog.len() > 0x3000 {
            return Ok(());
        }
        // establish a colour and settle
        e.verif_bus().write_io(0x00FE, 5);
        write_mem(&mut e, IDLE, &[0xF3, 0x18, 0xFE]);
        let mut st = CpuState::default();
        st.pc = IDLE;
        st.sp = 0x8FF0;
        st.to_impl(e.verif_cpu());
        run_frames(&mut e, 2).map_err(|x| Fail::new("C09.run", "", x))?;
        check_border(&e, cfg, 5, &[], 0)?;
        write_mem(&mut e, 0x9000, &prog);
        let mut st = cpu_state(&mut e);
        st.pc = 0x9000;
        st.to_impl(e.verif_cpu());
        // reference time line of the program's writes
        let total_frames: u64 = sc.ops.iter().filter(|o| o.k == "call").map(|o| o.arg(1).clamp(1, 8) as u64).sum();
        let t0 = e.verif_frame_clocks() as u64;
        let mut m = zxref::mem::RefMem::new(m128);
        for b in 0..8u8 {
            if let Some(pg) = phys_page(m128, b) {
                m.banks[b as usize].copy_from_slice(e.verif_ram_page(pg));
            }
        }
        let events = crate::lockstep::ref_out_events(&mut m, &cpu_state(&mut e), t0, (total_frames + 1) * f);
        let mut frames_done = 0u64;
        for op in sc.ops.iter().filter(|o| o.k == "call") {
            let n = op.arg(1).clamp(1, 8) as usize;
            let slice = match op.arg(0) {
                1 => Slice::Max(n, op.arg(2).clamp(0, 2) as u8),
                2 => Slice::Break(op.arg(2).max(0) as u64, n),
                _ => Slice::Count(n),
            };
            if n > 1 {
                ctx.probe("program_multi_frame_call");
            }
            let mut rng = Rng::new(op.arg(3) as u64);
            let done = drive(&mut e, slice, &mut rng).map_err(|x| Fail::new("C09.drive", "", x))? as u64;
            frames_done += done;
            ctx.sim_t += done * f;
            // the presented frame is the last completed one
            let fidx = frames_done - 1;
            let (lo, hi) = (fidx * f, (fidx + 1) * f);
            let start_colour = events.iter().filter(|ev| ev.t_io < lo).last().map(|ev| ev.value & 7).unwrap_or(5);
            let writes: Vec<Write> = events.iter().filter(|ev| ev.t_io >= lo && ev.t_io < hi).map(|ev| Write { t_io: (ev.t_io - lo) as i64, t_end: (ev.t_end - lo) as i64, colour: ev.value & 7 }).collect();
            if writes.is_empty() && events.iter().any(|ev| ev.t_io < lo && ev.t_io >= lo.saturating_sub((done.max(1) - 1) * f)) {
                ctx.probe("write_in_unpresented_frame");
            }
            check_border(&e, cfg, start_colour, &writes, frames_done as usize).map_err(|mut x| {
                x.witness = format!("{},program=1,frames_per_call={}", x.witness, if done > 1 { "many" } else { "1" });
                x
            })?;
            // the colour reported to the host: last write whose instruction has completed
            let now = frames_done * f + e.verif_frame_clocks() as u64;
            let settled: Vec<u8> = events.iter().filter(|ev| ev.t_end <= now).map(|ev| ev.value & 7).collect();
            let pending_now = events.iter().any(|ev| ev.t_io < now && ev.t_end > now);
            let exp = settled.last().copied().unwrap_or(5);
            if !pending_now && e.border_color() as u8 != exp {
                return Err(Fail::new("C09.border_color", &format!("machine={},program=1", machine), format!("border_color() is {} after {} frames, the program's last completed write set {}", e.border_color() as u8, frames_done, exp)));
            }
            ctx.units += writes.len() as u64 + 1;
            let mut h = Fnv::new();
            h.u8(m128 as u8);
            h.u8(9);
            h.u64(done.min(4));
            h.u64(writes.len().min(3) as u64);
            ctx.cover(h.get());
        }
        Ok(())
    }
}

impl Property for C09 {
    fn id(&self) -> &'static str {
        "C09"
    }
    fn runs(&self, tier: Tier) -> u64 {
        match tier {
            Tier::Quick => 2_400,
            Tier::Thorough => 120_000,
        }
    }
    fn rule(&self) -> &'static str {
        "per run: machine, optional snapshot load (SNA or SZX) that sets the border, snapshot loads between frames, then 3..8 frames each with 0..12 OUTs (OUT (n),A or OUT (C),A to a seeded even port) at seeded T (uniform, clustered on one line, in horizontal/vertical retrace, in the first/last border lines, straddling the frame end); every fourth run instead a free-running program makes the writes (instants from RefZ80 on RefMem+RefULA) while the host asks for several frames per call (FrameCount(n), Max mode, breakpoint stops) and the frame presented after each call is compared; every completed border buffer is compared pixel by pixel with the time line of observed write instants (+-8 T = 16 pixels); distinct = (machine, line class of the write, in-line phase bucket, writes-per-frame bucket)"
    }
    fn state_measure(&self) -> &'static str {
        "distinct (machine, write T / 64) positions exercised"
    }
    fn real_components(&self) -> Vec<&'static str> {
        vec!["ZXBorder (set_border, fill_to, new_frame)", "ZXController::write_io ULA branch, border_color", "Z80 OUT", "SNA and SZX loaders (border field; SZX last-OUT field with arbitrary low bits)"]
    }
    fn stub_components(&self) -> Vec<&'static str> {
        vec!["Host::FrameBuffer (recording border buffer)", "RefBorder time line"]
    }
    fn assumptions(&self) -> Vec<&'static str> {
        vec!["the write is taken to happen somewhere between the start of the port cycle and the end of the OUT instruction; pixels within 8 T of that span may show either colour", "code runs in uncontended RAM; ports have an uncontended high byte unless stated (the instants are observed, not predicted)"]
    }
    fn expected_probes(&self) -> Vec<&'static str> {
        vec!["frame_without_write", "several_writes_one_line", "write_in_retrace", "write_straddles_frame_end", "write_in_last_lines", "snapshot_border", "write_before_first_border_line", "snapshot_between_frames", "szx_fe_low_differs", "program_multi_frame_call", "write_in_unpresented_frame", "even_port_other_than_fe", "szx_taken_inside_a_frame", "screenshot_between_frames", "rejected_file_between_frames", "instant_load_through_custom_entry", "snapshot_saved_mid_frame"]
    }

    fn gen(&self, rng: &mut Rng, tier: Tier, _idx: u64) -> Scenario {
        let mut sc = Scenario::new();
        let m128 = rng.bool();
        sc.set("m128", m128 as i64);
        if _idx % 4 == 3 {
            // kind 1: the writes are made by a free-running program while the host asks for several
            // frames per call (FrameCount(n), Max mode, breakpoint stops); only the last completed frame of
            // each call is presented, and it must be right
            sc.set("kind", 1);
            let f: i64 = if m128 { 70908 } else { 69888 };
            let frames = rng.range(3, if tier == Tier::Quick { 7 } else { 12 });
            let n_out = rng.range(1, 10);
            let mut ts: Vec<i64> = (0..n_out).map(|_| rng.range(200, frames * f - 200)).collect();
            ts.sort();
            let mut prev = 0i64;
            for t in ts {
                // delay loop iterations (26 T each) between two writes
                let iters = ((t - prev) / 26).clamp(1, 65535);
                sc.op("pout", &[iters, rng.range(0, 7), rng.range(0, 31) << 3]);
                prev = t;
            }
            let mut left = frames;
            while left > 0 {
                let mode = rng.range(0, 2);
                let n = rng.range(1, 4).min(left);
                let p = match mode {
                    1 => rng.range(0, 2),
                    2 => *rng.pick(&[0i64, 3, 50, 1000, 4368]),
                    _ => 0,
                };
                sc.op("call", &[mode, n, p, (rng.next() >> 16) as i64]);
                left -= n;
            }
            return sc;
        }
        sc.set("snap_border", if rng.chance(1, 4) { rng.range(0, 7) } else { -1 });
        // format of the snapshots (0 SNA, 1 SZX); an SZX writer may leave anything in the low bits of
        // the "last OUT to 0xFE" field, only its MIC/EAR bits are defined
        sc.set("snap_fmt", rng.range(0, 1));
        sc.set("snap_fe", rng.range(0, 7));
        let snap_mid = rng.chance(1, 3);
        let f: i64 = if m128 { 70908 } else { 69888 };
        let line: i64 = if m128 { 228 } else { 224 };
        let first: i64 = if m128 { 14362 } else { 14336 };
        let frames = if tier == Tier::Quick { rng.range(3, 6) } else { rng.range(3, 10) };
        for fr in 0..frames {
            if snap_mid && fr > 0 && rng.chance(1, 3) {
                // the host loads a snapshot between two frames; the writes of the frame that follows are
                // made by the loaded machine
                let ft = if rng.bool() { 0 } else { rng.range(1, f - 1) };
                sc.op("snap", &[rng.range(0, 7), rng.range(0, 1), rng.range(0, 7), ft]);
            } else if snap_mid && fr > 0 && rng.chance(1, 4) {
                sc.op(*rng.pick(&["scr", "rej", "fl"]), &[rng.range(0, 1 << 20)]);
            }
            // (now and then exactly a multiple of 256 writes, or one off, in a frame)
            let n = if rng.chance(1, 12) { if rng.chance(2, 3) { rng.range(252, 260) } else { rng.range(508, 516) } } else { *rng.pick(&[0i64, 0, 1, 1, 2, 3, 5, 8, 12]) };
            let mut ts: Vec<i64> = vec![];
            let style = rng.below(6);
            for _ in 0..n {
                let t = match style {
                    0 => rng.range(0, f - 1),
                    1 => {
                        // several on one line
                        let l = rng.range(-24, 215);
                        first + l * line + rng.range(-16, line - 17)
                    }
                    2 => first + rng.range(-24, 215) * line + 128 + rng.range(0, line - 129), // right border / retrace
                    3 => first + rng.range(192, 215) * line + rng.range(0, line - 1),            // bottom border lines
                    4 => f - rng.range(1, 14),                                                    // straddling the frame end
                    _ => first - 24 * line - 16 - rng.range(0, 60),                               // just before the first border pixel
                };
                ts.push(t.clamp(0, f - 1));
            }
            if n >= 200 {
                // (many writes: evenly spread over the part of the frame that ends inside the visible lines, so that
                // none is skipped and the count is exact)
                let span = first + 150 * line;
                ts = (0..n).map(|i| 40 + i * (span - 40) / n).collect();
            }
            ts.sort();
            for t in ts {
                // any even port is the ULA's (OUT (C),A form: also low bytes other than 0xFE, incl. A1 = 0)
                let lo = if rng.chance(1, 3) { rng.range(0, 127) * 2 } else { 0xFE };
                sc.op("out", &[fr, t, rng.range(0, 7), rng.range(0, 1), (rng.u8() as i64) << 8 | lo, rng.range(0, 255)]);
                if rng.chance(1, 30) {
                    sc.op("save", &[]);
                }
            }
            sc.op("frame", &[fr]);
        }
        sc
    }

    fn exec(&self, sc: &Scenario, ctx: &mut RunCtx) -> Result<(), Fail> {
        let m128 = sc.get("m128") != 0;
        let cfg = MCfg { m128, fastload: true, ..Default::default() };
        let f = cfg.frame_len() as i64;
        let line = cfg.line_len() as i64;
        let first = if m128 { 14362i64 } else { 14336 };
        let mut e = new_emu(&cfg);
        let machine = if m128 { "128k" } else { "48k" };
        if sc.get("kind") == 1 {
            return self.program_kind(sc, &cfg, e, ctx);
        }
        let mut colour: u8;
        // optional: the border stored in a loaded snapshot
        let sb = sc.get("snap_border");
        let snap_fmt = sc.get("snap_fmt").clamp(0, 1);
        let snap_fe = (sc.get("snap_fe") & 7) as u8;
        if (0..8).contains(&sb) {
            ctx.probe("snapshot_border");
            if snap_fmt == 1 && snap_fe != sb as u8 {
                ctx.probe("szx_fe_low_differs");
            }
            load_snap(&mut e, m128, sb as u8, snap_fmt, snap_fe, 0)?;
        }
        write_mem(&mut e, IDLE, &[0xF3, 0x18, 0xFE]);
        write_mem(&mut e, OUTS, &[0xD3, 0xFE]);
        write_mem(&mut e, OUTC, &[0xED, 0x79]);
        let mut st = CpuState::default();
        st.pc = IDLE;
        st.sp = 0x8FF0;
        st.to_impl(e.verif_cpu());
        // the property speaks about the colour "most recently written": establish one first unless a
        // snapshot did (power-on state before any write is outside the statement)
        if !(0..8).contains(&sb) {
            e.verif_bus().write_io(0x00FE, (sc.get("m128") as u8 * 3 + 2) & 7);
        }
        // settle: two untouched frames, border must be uniform
        run_frames(&mut e, 2).map_err(|x| Fail::new("C09.run", "", x))?;
        colour = e.border_color() as u8;
        check_border(&e, &cfg, colour, &[], 0)?;
        let mut pending: Vec<Write> = vec![]; // writes whose port cycle fell into the next frame
        let mut frame_no = 0usize;
        let mut cur: Vec<Write> = vec![];
        let mut start_colour = colour;
        let mut frame_done = false;
        for op in &sc.ops {
            match op.k.as_str() {
                "out" => {
                    if frame_done {
                        continue; // a straddling write already completed this frame
                    }
                    let t = op.arg(1).clamp(0, f - 1);
                    let c = (op.arg(2) & 7) as u8;
                    let use_c = op.arg(3) != 0;
                    let port = (op.arg(4) as u16) & 0xFFFE | if use_c { 0 } else { 0 };
                    let hi_bits = op.arg(5) as u8 & 0xF8; // MIC / speaker / unused bits must not matter
                    let now = e.verif_frame_clocks() as i64;
                    if t < now {
                        continue; // only forward
                    }
                    let mut ay_overlap = false;
                    e.verif_set_frame_clocks(t as usize);
                    let mut st = cpu_state(&mut e);
                    st.af = ((c | hi_bits) as u16) << 8;
                    if use_c {
                        st.pc = OUTC;
                        // keep the high byte out of contended memory so that timing stays simple. With A1 = 0
                        // the address may select a second device as well: A15 = 0 the 128K paging latch (the ULA
                        // still gets the write), A15 = 1 the AY (one case in eight, see known_findings.txt)
                        let lo = port & 0x00FE;
                        let a1 = lo & 2 != 0;
                        let want_ay_overlap = !a1 && op.arg(5) & 7 == 7;
                        let mut hi = (port >> 8) as u8;
                        if (0x40..0x80).contains(&hi) || (m128 && hi >= 0xC0) {
                            hi = hi & 0x3F | 0x80;
                        }
                        if !a1 {
                            hi = if want_ay_overlap { hi | 0x80 } else { hi & 0x3F };
                        }
                        ay_overlap = !a1 && hi & 0x80 != 0;
                        st.bc = (hi as u16) << 8 | lo;
                        if lo != 0xFE {
                            ctx.probe("even_port_other_than_fe");
                        }
                    } else {
                        st.pc = OUTS;
                    }
                    st.to_impl(e.verif_cpu());
                    let passed = step_public(&mut e).map_err(|x| Fail::new("C09.step", "", x))?;
                    let t_end_raw = e.verif_frame_clocks() as i64 + passed as i64 * f;
                    let len = t_end_raw - t; // 11 or 12
                    let t_io = t + len - 4;
                    ctx.units += 1;
                    // classify
                    let rel = t_io - (first - 24 * line - 16);
                    let (lcls, in_line) = if rel < 0 { (0, 0) } else { (1 + (rel / line).min(240) / 60, (rel % line) / 32) };
                    if rel < 0 {
                        ctx.probe("write_before_first_border_line");
                    }
                    if (rel % line) >= 160 && rel >= 0 {
                        ctx.probe("write_in_retrace");
                    }
                    if rel / line >= 216 {
                        ctx.probe("write_in_last_lines");
                    }
                    if let Some(prev) = cur.last() {
                        if (prev.t_io - (first - 24 * line - 16)).div_euclid(line) == rel.div_euclid(line) {
                            ctx.probe("several_writes_one_line");
                        }
                    }
                    let mut h = Fnv::new();
                    h.u8(m128 as u8);
                    h.u64(lcls as u64);
                    h.u64(in_line as u64);
                    ctx.cover(h.get());
                    let mut hs = Fnv::new();
                    hs.u8(m128 as u8);
                    hs.u64((t / 64) as u64);
                    ctx.state(hs.get());
                    if e.border_color() as u8 != c {
                        return Err(Fail::new(
                            "C09.border_color",
                            &format!("machine={}{}", machine, if ay_overlap { ",ay_overlap=1" } else { "" }),
                            format!("border_color() is {} after OUT of {:02X} to the even port {:04X}", e.border_color() as u8, c | hi_bits, if use_c { cpu_state(&mut e).bc } else { ((c | hi_bits) as u16) << 8 | 0xFE }),
                        ));
                    }
                    colour = c;
                    if passed > 0 {
                        ctx.probe("write_straddles_frame_end");
                        frame_done = true;
                        if t_io >= f {
                            pending.push(Write { t_io: t_io - f, t_end: t_end_raw - f, colour: c });
                        } else {
                            cur.push(Write { t_io, t_end: t_end_raw, colour: c });
                        }
                    } else {
                        cur.push(Write { t_io, t_end: t_end_raw, colour: c });
                    }
                    // back to the idle loop
                    let mut st = cpu_state(&mut e);
                    st.pc = IDLE;
                    st.to_impl(e.verif_cpu());
                }
                "snap" => {
                    // only between frames, with no write of the new frame outstanding
                    if frame_done || !cur.is_empty() || !pending.is_empty() || e.verif_frame_clocks() > 64 {
                        continue;
                    }
                    ctx.probe("snapshot_between_frames");
                    let b = (op.arg(0) & 7) as u8;
                    let fmt = op.arg(1).clamp(0, 1);
                    let fe = (op.arg(2) & 7) as u8;
                    if fmt == 1 && fe != b {
                        ctx.probe("szx_fe_low_differs");
                    }
                    // an SZX file may have been taken anywhere inside a frame: the frame it restores has seen no write
                    // on this machine, so its whole border shows the file's colour
                    let ft = if fmt == 1 { op.arg(3).clamp(0, f - 1) as u32 } else { 0 };
                    if ft > 0 {
                        ctx.probe("szx_taken_inside_a_frame");
                    }
                    load_snap(&mut e, m128, b, fmt, fe, ft)?;
                    colour = b;
                    start_colour = b;
                }
                "save" => {
                    // the host takes a snapshot in the middle of the frame (stopped behind the last write so far): a
                    // save reads the machine, the border picture of the frame is not touched by it
                    if frame_done {
                        continue;
                    }
                    ctx.probe("snapshot_saved_mid_frame");
                    let (rec, _out) = SimRecorder::new(RecorderPlan::default());
                    let _ = e.save_snapshot(rustzx_core::host::SnapshotRecorder::Sna(rec));
                }
                "fl" => {
                    // a program with its own loader front end enters the ROM routine behind the point where the ROM
                    // would have arranged its border restore (the usual custom-loader trick); the host's instant
                    // loader serves the block. No ULA port write is executed on the way: the border stays.
                    if frame_done || !cur.is_empty() || !pending.is_empty() || e.verif_frame_clocks() > 64 {
                        continue;
                    }
                    ctx.probe("instant_load_through_custom_entry");
                    let before = e.border_color() as u8;
                    let payload = Rng::new(op.arg(0) as u64).bytes(20);
                    let tap = zxref::tape::make_tap(&[zxref::tape::std_block(0xFF, &payload)]);
                    e.load_tape(rustzx_core::host::Tape::Tap(AnyAsset::Sim(SimAsset::plain(tap)))).map_err(|x| Fail::new("C09.load", "", format!("load_tape: {:?}", x)))?;
                    if m128 {
                        e.verif_bus().write_io(0x7FFD, 0x10);
                    }
                    // system variable BORDCR holds another colour than the border
                    write_mem(&mut e, 0x5C48, &[((before + 3) & 7) << 3]);
                    write_mem(&mut e, 0x8100, &[0x14, 0x08, 0x15, 0xF3, 0xC3, 0x62, 0x05]); // INC D; EX AF,AF'; DEC D; DI; JP 0562
                    write_mem(&mut e, 0x8FEE, &[0x00, 0x82]);
                    // (the instant loader hands control to the return address without an instruction ending there: the
                    // breakpoint is reported when the `JR $` parked at that address has run once)
                    write_mem(&mut e, 0x8200, &[0x18, 0xFE]);
                    let mut st = cpu_state(&mut e);
                    st.pc = 0x8100;
                    st.sp = 0x8FEE;
                    st.af = 0xFF01;
                    st.ix = 0x9000;
                    st.de = 20;
                    st.iff1 = false;
                    st.iff2 = false;
                    st.halted = false;
                    st.to_impl(e.verif_cpu());
                    let back = run_until_pc(&mut e, 0x8200, 1).map_err(|x| Fail::new("C09.run", "", x))?;
                    let mut st = cpu_state(&mut e);
                    let loaded = back && st.af & 1 == 1 && (0..20).all(|i| e.peek(0x9000 + i as u16) == payload[i]);
                    st.pc = IDLE;
                    st.sp = 0x8FF0;
                    st.to_impl(e.verif_cpu());
                    if !back || e.verif_passed_frames() > 0 {
                        // the request was not served at once (fast loading is C10's matter): this history ends here
                        return Ok(());
                    }
                    if loaded && e.border_color() as u8 != before {
                        return Err(Fail::new(
                            "C09.border_changed_by_load",
                            &format!("machine={},what=instant_load", if m128 { "128k" } else { "48k" }),
                            format!("border_color() was {} before and is {} after a tape block was served by the instant loader (no port write was executed; BORDCR holds {})", before, e.border_color() as u8, (before + 3) & 7),
                        ));
                    }
                }
                "scr" | "rej" => {
                    // the host loads a screenshot (which carries no border), or offers a file the loader refuses:
                    // the border stays what the last port write made it
                    if frame_done || !cur.is_empty() || !pending.is_empty() || e.verif_frame_clocks() > 64 {
                        continue;
                    }
                    let before = e.border_color() as u8;
                    // what a refused snapshot file itself says (a loader that had applied the border before it found the
                    // fault leaves that: "the border stored in the last loaded snapshot" read liberally)
                    let mut file_border: Option<u8> = None;
                    if op.k == "scr" {
                        ctx.probe("screenshot_between_frames");
                        let data = Rng::new(op.arg(0) as u64).bytes(6912);
                        e.load_screen(rustzx_core::host::Screen::Scr(SimAsset::plain(data))).map_err(|x| Fail::new("C09.load", "", format!("load_screen: {:?}", x)))?;
                    } else {
                        ctx.probe("rejected_file_between_frames");
                        let r = match op.arg(0) % 4 {
                            0 => {
                                // SNA with an interrupt mode that does not exist (found when the header is already read)
                                let mut s = SnapState::new(m128);
                                s.border = (before + 3) & 7;
                                let mut bytes = if m128 { write_sna128(&s) } else { write_sna48(&s) };
                                bytes[25] = 3;
                                file_border = Some(s.border);
                                e.load_snapshot(Snapshot::Sna(SimAsset::plain(bytes)))
                            }
                            1 => {
                                // SZX cut inside a RAM page chunk
                                let mut s = SnapState::new(m128);
                                s.border = (before + 3) & 7;
                                let full = write_szx(&s, &SzxOptions::default());
                                file_border = Some(s.border);
                                let cut = full.len() - 1 - (op.arg(0) as usize / 4) % 30000;
                                e.load_snapshot(Snapshot::Szx(SimAsset::plain(full[..cut].to_vec())))
                            }
                            2 => {
                                file_border = Some(0);
                                e.load_snapshot(Snapshot::Sna(SimAsset::plain(vec![0u8; 1000])))
                            }
                            _ => e.load_screen(rustzx_core::host::Screen::Scr(SimAsset::plain(vec![0u8; 6911]))),
                        };
                        if r.is_ok() {
                            // accepted after all: what it restored is C14's matter, this history ends here
                            return Ok(());
                        }
                    }
                    // (a refused file may have replaced memory before the fault was found: the harness's stubs go back)
                    write_mem(&mut e, IDLE, &[0xF3, 0x18, 0xFE]);
                    write_mem(&mut e, OUTS, &[0xD3, 0xFE]);
                    write_mem(&mut e, OUTC, &[0xED, 0x79]);
                    let mut st = cpu_state(&mut e);
                    st.pc = IDLE;
                    st.sp = 0x8FF0;
                    st.iff1 = false;
                    st.iff2 = false;
                    st.halted = false;
                    st.to_impl(e.verif_cpu());
                    colour = e.border_color() as u8;
                    start_colour = colour;
                    if e.border_color() as u8 != before && Some(e.border_color() as u8) != file_border {
                        return Err(Fail::new(
                            "C09.border_changed_by_load",
                            &format!("machine={},what={}", if m128 { "128k" } else { "48k" }, op.k),
                            format!("border_color() was {} before and is {} after {} (border in the refused file: {:?})", before, e.border_color() as u8, if op.k == "scr" { "loading a screenshot" } else { "a load attempt that was refused" }, file_border),
                        ));
                    }
                }
                "frame" => {
                    if !frame_done {
                        run_frames(&mut e, 1).map_err(|x| Fail::new("C09.run", "", x))?;
                    }
                    frame_no += 1;
                    if cur.is_empty() {
                        ctx.probe("frame_without_write");
                    }
                    check_border(&e, &cfg, start_colour, &cur, frame_no)?;
                    ctx.sim_t += f as u64;
                    // next frame starts with the colour in force at the end of this one
                    start_colour = cur.last().map(|w| w.colour).unwrap_or(start_colour);
                    cur = std::mem::take(&mut pending);
                    frame_done = false;
                    let _ = colour;
                }
                _ => {}
            }
        }
        Ok(())
    }
}
