//! C06 — CPU-visible memory follows the Spectrum memory map and the 128K paging rules.
//! World B: histories of paging-port writes (incl. after lock), reads and writes executed by the
//! emulated CPU, checked operation by operation against `RefMem`, with full sweeps.

use crate::cpustate::CpuState;
use crate::host::*;
use crate::machine::*;
use crate::prng::{Fnv, Rng};
use crate::runner::{Fail, Property, RunCtx, Tier};
use crate::scenario::Scenario;
use crate::worlda::{encode_stratified, Outside, WorldA};
use zxref::mem::{RefMem, PAGE};
use zxref::z80::{RefBus, RefZ80};

pub struct C06;

const STUB: u16 = 0x8000;

fn marker(bank: usize, off: usize, salt: u8) -> u8 {
    ((off as u32).wrapping_mul(31).wrapping_add((off as u32) >> 7).wrapping_add(bank as u32 * 37) as u8) ^ salt
}

fn in_stub(m: &RefMem, addr: u16) -> bool {
    let (rom, b) = m.window(addr as usize / PAGE);
    !rom && b == 2 && (addr as usize % PAGE) < 8
}

/// Reference bus of the instruction-level op: RefZ80 runs directly on RefMem (values only; the
/// timing of the machine is C04's matter). Port reads make the step a don't-care (the value is a
/// device's business), port writes reach the paging latch by the property's decode.
struct MemBus<'a> {
    m: &'a mut RefMem,
    /// (address, previous value) of every write, in order
    undo: Vec<(u16, u8)>,
    io_read: bool,
    ambiguous: bool,
    int: bool,
    latch_writes: u32,
}

impl<'a> RefBus for MemBus<'a> {
    fn m1(&mut self, addr: u16) -> u8 {
        self.m.read(addr)
    }
    fn rd(&mut self, addr: u16) -> u8 {
        self.m.read(addr)
    }
    fn wr(&mut self, addr: u16, v: u8) {
        self.undo.push((addr, self.m.read(addr)));
        self.m.write(addr, v);
    }
    fn dly(&mut self, _addr: u16, _n: u8) {}
    fn internal(&mut self, _n: u8) {}
    fn io_r(&mut self, _port: u16) -> u8 {
        self.io_read = true;
        0xFF
    }
    fn io_w(&mut self, port: u16, v: u8) {
        if self.m.m128 && port & 0x8002 == 0 {
            if port & 1 == 1 {
                self.m.out_7ffd(v);
                self.latch_writes += 1;
            } else {
                // two devices selected: outside the property's quantifier
                self.ambiguous = true;
            }
        }
    }
    fn sample_lines(&mut self) -> (bool, bool) {
        (false, self.int)
    }
    fn int_bus_byte(&mut self) -> u8 {
        0xFF
    }
}

const EDGES: [u16; 10] = [0x3FFF, 0x7FFF, 0xBFFF, 0xFFFF, 0x3FFE, 0x7FFE, 0xBFFE, 0xFFFE, 0x4000, 0xC000];

/// One instruction of the instruction-level op, everything derived from `seed`: start state,
/// encoding, whether the frame interrupt is pending. Multi-byte accesses (16-bit loads and stores,
/// stack traffic, block transfers, the IM 2 vector fetch, the instruction's own bytes) are biased to
/// straddle the borders between the 16 KiB windows.
fn gen_ins(seed: u64) -> (CpuState, Vec<u8>, bool) {
    let mut rng = Rng::new(seed);
    let mut st = CpuState::random(&mut rng);
    st.iff1 = false;
    st.iff2 = false;
    st.pc = 0x4008 + (rng.u16() % 0xBFE0);
    let b = if rng.chance(4, 5) { *rng.pick(&EDGES) } else { rng.u16() };
    let nn = [b as u8, (b >> 8) as u8];
    let mut int = false;
    let enc: Vec<u8> = match rng.below(20) {
        0 => vec![0x2A, nn[0], nn[1]],
        1 => vec![0x22, nn[0], nn[1]],
        2 => vec![0xED, *rng.pick(&[0x4B, 0x5B, 0x6B, 0x7B]), nn[0], nn[1]],
        3 => vec![0xED, *rng.pick(&[0x43, 0x53, 0x63, 0x73]), nn[0], nn[1]],
        4 => vec![*rng.pick(&[0xDD, 0xFD]), *rng.pick(&[0x2A, 0x22]), nn[0], nn[1]],
        5 => {
            st.sp = b;
            vec![*rng.pick(&[0xC1, 0xD1, 0xE1, 0xF1, 0xC9])]
        }
        6 => {
            st.sp = b.wrapping_add(rng.below(3) as u16);
            vec![*rng.pick(&[0xC5, 0xD5, 0xE5, 0xF5, 0xC7, 0xFF])]
        }
        7 => {
            st.sp = b.wrapping_add(rng.below(3) as u16);
            vec![0xCD, rng.u8(), rng.u8()]
        }
        8 => {
            st.sp = b;
            if rng.bool() {
                vec![0xE3]
            } else {
                vec![*rng.pick(&[0xDD, 0xFD]), 0xE3]
            }
        }
        9 => {
            st.hl = b;
            st.de = if rng.bool() { *rng.pick(&EDGES) } else { rng.u16() };
            st.bc = *rng.pick(&[1u16, 2, 3, 0x100]);
            vec![0xED, *rng.pick(&[0xA0, 0xA8, 0xB0, 0xB8])]
        }
        10 => {
            // IM 2: the two vector bytes straddle a window border when I = 0x3F/0x7F/0xBF/0xFF
            int = true;
            st.iff1 = true;
            st.iff2 = true;
            st.im = 2;
            st.i = (b >> 8) as u8;
            st.sp = if rng.bool() { b.wrapping_add(rng.below(3) as u16) } else { 0x9000 + (rng.u16() & 0x0FFF) };
            vec![0x00]
        }
        11 => {
            // the instruction's own bytes straddle a border
            st.pc = b.wrapping_sub(rng.below(3) as u16);
            vec![*rng.pick(&[0x21, 0x01, 0x11, 0x31, 0xC3]), rng.u8(), rng.u8()]
        }
        12 => vec![*rng.pick(&[0x3A, 0x32]), nn[0], nn[1]],
        _ => {
            match rng.below(6) {
                0 => st.hl = b,
                1 => st.de = b,
                2 => st.bc = b,
                3 => st.sp = b,
                4 => st.ix = b.wrapping_sub(rng.below(3) as u16),
                _ => st.iy = b.wrapping_sub(rng.below(3) as u16),
            }
            encode_stratified(&mut rng)
        }
    };
    (st, enc, int)
}

impl C06 {
    fn sweep(&self, e: &mut Emu, m: &RefMem, stride: usize, ctx: &mut RunCtx) -> Result<(), Fail> {
        ctx.probe("sweep");
        // all banks through the raw page hook
        let banks: &[u8] = if m.m128 { &[0, 1, 2, 3, 4, 5, 6, 7] } else { &[5, 2, 0] };
        for &b in banks {
            let page = phys_page(m.m128, b).unwrap();
            let data = e.verif_ram_page(page);
            if data[..] != m.banks[b as usize][..] {
                let off = data.iter().zip(m.banks[b as usize].iter()).position(|(a, b)| a != b).unwrap();
                return Err(Fail::new(
                    "C06.bank_contents",
                    &format!("machine={},bank={}", if m.m128 { "128k" } else { "48k" }, b),
                    format!("RAM bank {} differs from the model at offset {:04X}: {:02X} vs {:02X}", b, off, data[off], m.banks[b as usize][off]),
                ));
            }
        }
        for r in 0..m.roms.len() {
            let data = e.verif_rom_page(r as u8);
            if data[..] != m.roms[r][..] {
                return Err(Fail::new("C06.rom_changed", &format!("rom={}", r), format!("ROM page {} no longer equals the supplied image", r)));
            }
        }
        // CPU view through every window
        let mut a = 0usize;
        while a < 65536 {
            let v = e.peek(a as u16);
            let x = m.read(a as u16);
            if v != x {
                let (rom, p) = m.window(a / PAGE);
                return Err(Fail::new(
                    "C06.window",
                    &format!("machine={},window={},maps={}{}", if m.m128 { "128k" } else { "48k" }, a / PAGE, if rom { "rom" } else { "bank" }, p),
                    format!("address {:04X} reads {:02X}; the memory map says {} {} offset {:04X} = {:02X} (last paging value {:02X}, locked {})", a, v, if rom { "ROM" } else { "bank" }, p, a % PAGE, x, m.last_7ffd, m.locked),
                ));
            }
            a += stride;
        }
        Ok(())
    }
}

impl Property for C06 {
    fn id(&self) -> &'static str {
        "C06"
    }
    fn runs(&self, tier: Tier) -> u64 {
        match tier {
            Tier::Quick => 6_000,
            Tier::Thorough => 300_000,
        }
    }
    fn rule(&self) -> &'static str {
        "seeded histories of {OUT to a paging-port alias (all values, lock early/late/never, decoy ports with A15=1 or A1=1), LD (HL),A, LD A,(HL), peek, full sweep, one arbitrary instruction (16-bit loads/stores, stack traffic, block transfers, IM 2 vector fetch, own bytes, stratified opcodes) with its multi-byte accesses straddling the 16 KiB window borders and RefZ80 on RefMem as the model, host load_rom in the middle of the history, SNA / SZX snapshot of the current state loaded in the middle of the history} executed by the emulated CPU from a stub in bank 2, on both machines, ROM embedded or supplied through load_rom with chunked assets; model = RefMem checked after every op; distinct = (machine, latch state incl. lock (bank, screen, rom, locked), op kind, window, bank hit)"
    }
    fn state_measure(&self) -> &'static str {
        "distinct (machine, paging latch value bits 0-5, locked) states in which at least one access was checked"
    }
    fn real_components(&self) -> Vec<&'static str> {
        vec!["ZXController::write_io / write_7ffd / memory map", "ZXMemory", "Z80 (every instruction form: all bus paths of ZXController incl. read_word/write_word overrides)", "Emulator::peek, load_rom"]
    }
    fn stub_components(&self) -> Vec<&'static str> {
        vec!["RomSet / ROM assets (chunked SimAsset)", "RefMem (zxref::mem)", "RefZ80 on RefMem (instruction-level op); bare Z80 on a flat memory (World A) only to attribute a difference to CPU or memory map"]
    }
    fn assumptions(&self) -> Vec<&'static str> {
        vec!["paging writes use odd ports with A15=0, A1=0 and A5-A7 set (no other device selected); decoys use A15=1 or A1=1", "the 8 bytes of bank 2 that hold the stub are not written by the history (they are restored after each instruction-level op)", "instruction-level op: instructions that read a port, or write an even port that also matches the paging decode, are don't-cares (values adopted from the machine); F3/F5, MEMPTR and Q are not compared (C01)"]
    }
    fn expected_probes(&self) -> Vec<&'static str> {
        vec!["write_after_lock", "alias_bank5_at_c000", "alias_bank2_at_c000", "write_to_rom", "decoy_port", "sweep", "host_rom", "host_rom_midrun", "snapshot_loaded_midrun", "snapshot_rejected_midrun", "paging_on_48k", "im2_vector_fetch", "paging_by_other_out_forms", "screenshot_loaded_midrun", "host_poke", "host_poke_into_rom"]
    }

    fn gen(&self, rng: &mut Rng, tier: Tier, _idx: u64) -> Scenario {
        let mut sc = Scenario::new();
        let m128 = rng.chance(3, 4);
        sc.set("m128", m128 as i64);
        sc.set("host_rom", rng.chance(1, 3) as i64);
        sc.set("rom_chunk", *rng.pick(&[0i64, 1, 7, 100, 4096, 16384]));
        sc.set("salt", rng.range(0, 255));
        let n = if tier == Tier::Quick { rng.range(20, 200) } else { rng.range(20, 400) };
        let ins_share = *rng.pick(&[0u64, 2, 2, 5]);
        let lock_at = match rng.below(4) {
            0 => rng.range(0, 10),
            1 => rng.range(n / 2, n),
            _ => -1,
        };
        for i in 0..n {
            let k = rng.below(20);
            if i == lock_at {
                let port = (rng.u16() & !0x8002) | 0x00E1;
                sc.op("out", &[port as i64, (rng.u8() | 0x20) as i64]);
                continue;
            }
            if ins_share > 0 && rng.below(10) < ins_share {
                sc.op("ins", &[(rng.next() >> 2) as i64]);
                continue;
            }
            match k {
                0..=4 => {
                    let port = (rng.u16() & !0x8002) | 0x00E1;
                    let mut v = rng.u8();
                    if lock_at != i && rng.chance(9, 10) {
                        v &= !0x20;
                    }
                    sc.op("out", &[port as i64, v as i64]);
                }
                5 => {
                    // decoy: A15 = 1 (AY territory) or A1 = 1
                    let port = if rng.bool() { rng.u16() | 0x8001 | 0x00E0 } else { (rng.u16() & !0x8000) | 0x00E3 };
                    sc.op("out", &[port as i64, rng.u8() as i64]);
                }
                6..=11 => {
                    let addr = match rng.below(6) {
                        0 => rng.range(0, 0x3FFF),
                        1 => rng.range(0xC000, 0xFFFF),
                        2 => *rng.pick(&[0x3FFFi64, 0x4000, 0x7FFF, 0x8008, 0xBFFF, 0xC008, 0xFFFF]),
                        _ => rng.range(0, 0xFFFF),
                    };
                    sc.op("wr", &[addr, rng.u8() as i64]);
                }
                12..=16 => sc.op("rd", &[rng.range(0, 0xFFFF)]),
                17 => {
                    if rng.chance(1, 3) {
                        let addr = if rng.bool() { rng.range(0, 0x3FFF) } else { rng.range(0, 0xFFFF) };
                        sc.op("poke", &[addr, rng.u8() as i64]);
                    } else {
                        sc.op("peek", &[rng.range(0, 0xFFFF)]);
                    }
                }
                18 => {
                    if rng.chance(1, 8) {
                        sc.op("rej", &[rng.range(0, 255)]);
                    } else if rng.chance(1, 8) {
                        // the host loads a screenshot (SCR): bank 5 gets the picture, nothing else of the map moves
                        sc.op("scr", &[rng.range(0, 1 << 30), *rng.pick(&[0i64, 1, 100, 4096])]);
                    } else if rng.chance(1, 6) {
                        sc.op("snap", &[rng.range(0, 255)]);
                    } else if rng.chance(1, 6) {
                        // the host supplies a (different) ROM set while the machine is running
                        sc.op("load_rom", &[rng.range(0, 255), *rng.pick(&[0i64, 1, 7, 100, 4096, 16384])]);
                    } else {
                        sc.op("peek", &[rng.range(0, 0xFFFF)]);
                    }
                }
                _ => sc.op("sweep", &[*rng.pick(&[61i64, 97, 251])]),
            }
        }
        sc.op("sweep", &[1]);
        sc
    }

    fn exec(&self, sc: &Scenario, ctx: &mut RunCtx) -> Result<(), Fail> {
        let m128 = sc.get("m128") != 0;
        let salt = sc.get("salt") as u8;
        let host_rom = sc.get("host_rom") != 0;
        let cfg = MCfg { m128, rom: !host_rom, ..Default::default() };
        let mut e = new_emu(&cfg);
        let mut m = RefMem::new(m128);
        let machine = if m128 { "128k" } else { "48k" };
        // ROM
        if host_rom {
            ctx.probe("host_rom");
            let chunk = sc.get("rom_chunk").max(0) as usize;
            let mut pages = vec![];
            for r in 0..m.roms.len() {
                for off in 0..PAGE {
                    m.roms[r][off] = marker(100 + r, off, salt);
                }
                let (a, _) = SimAsset::new(m.roms[r].clone(), AssetPlan { max_chunk: chunk, eof: EofStyle::Ok0, ..Default::default() });
                pages.push(a);
                if chunk > 0 {
                    ctx.fault("short_read(n)");
                }
            }
            if let Err(x) = e.load_rom(SimRomSet { pages }) {
                return Err(Fail::new("C06.load_rom", "", format!("load_rom failed on a complete ROM set: {:?}", x)));
            }
        } else {
            for r in 0..m.roms.len() {
                m.roms[r].copy_from_slice(e.verif_rom_page(r as u8));
            }
        }
        // RAM markers
        let banks: &[u8] = if m128 { &[0, 1, 2, 3, 4, 5, 6, 7] } else { &[5, 2, 0] };
        for &b in banks {
            for off in 0..PAGE {
                m.banks[b as usize][off] = marker(b as usize, off, salt);
            }
            let page = phys_page(m128, b).unwrap();
            e.verif_ram_page(page).copy_from_slice(&m.banks[b as usize]);
        }
        // stub in bank 2: OUT (C),A ; LD (HL),A ; LD A,(HL)
        let stub = [0xEDu8, 0x79, 0x77, 0x7E, 0, 0, 0, 0];
        write_mem(&mut e, STUB, &stub);
        for (i, b) in stub.iter().enumerate() {
            m.banks[2][i] = *b;
        }
        e.verif_refresh_screen();
        let mut st = CpuState::default();
        st.sp = 0x9000;
        let run1 = |e: &mut Emu, st: &CpuState| -> Result<CpuState, Fail> {
            st.to_impl(e.verif_cpu());
            step_public(e).map_err(|x| Fail::new("C06.step", "", x))?;
            Ok(cpu_state(e))
        };
        for op in &sc.ops {
            let latch_state = (m.last_7ffd & 0x3F) as u64 | (m.locked as u64) << 8 | (m128 as u64) << 9;
            match op.k.as_str() {
                "out" => {
                    let port = op.arg(0) as u16;
                    let v = op.arg(1) as u8;
                    if port & 1 == 0 || port & 0x00E0 != 0x00E0 {
                        continue; // outside the generator's domain (minimiser artefact)
                    }
                    let pages = port & 0x8002 == 0;
                    if !pages {
                        ctx.probe("decoy_port");
                    } else if !m128 {
                        ctx.probe("paging_on_48k");
                    } else if m.locked {
                        ctx.probe("write_after_lock");
                    }
                    st.pc = STUB;
                    st.bc = port;
                    st.af = (v as u16) << 8;
                    run1(&mut e, &st)?;
                    if pages {
                        m.out_7ffd(v);
                    }
                    let mut h = Fnv::new();
                    h.u64(latch_state);
                    h.u8(pages as u8);
                    h.u8(0);
                    ctx.cover(h.get());
                    // behavioural spot check of all four windows right after the write
                    for w in 0..4u32 {
                        let a = (w * PAGE as u32 + 0x123 + (v as u32 * 7) % 0x3000) as u16;
                        if e.peek(a) != m.read(a) {
                            let (rom, p) = m.window(w as usize);
                            return Err(Fail::new(
                                "C06.paging",
                                &format!("machine={},window={},locked={}", machine, w, m.locked as u8),
                                format!("after OUT ({:04X}),{:02X} address {:04X} reads {:02X}, expected {:02X} ({} {}; latch {:02X}, locked {})", port, v, a, e.peek(a), m.read(a), if rom { "ROM" } else { "bank" }, p, m.last_7ffd, m.locked),
                            ));
                        }
                    }
                }
                "wr" => {
                    let addr = op.arg(0) as u16;
                    let v = op.arg(1) as u8;
                    if in_stub(&m, addr) {
                        continue;
                    }
                    let (rom, b) = m.window(addr as usize / PAGE);
                    if rom {
                        ctx.probe("write_to_rom");
                    } else if addr >= 0xC000 && b == 5 {
                        ctx.probe("alias_bank5_at_c000");
                    } else if addr >= 0xC000 && b == 2 {
                        ctx.probe("alias_bank2_at_c000");
                    }
                    st.pc = STUB + 2;
                    st.hl = addr;
                    st.af = (v as u16) << 8;
                    run1(&mut e, &st)?;
                    m.write(addr, v);
                    // the byte must be visible through every window mapping the same bank, and
                    // only there (checked fully by the sweeps; here the aliases)
                    for w in 0..4usize {
                        let a = (w * PAGE + addr as usize % PAGE) as u16;
                        if e.peek(a) != m.read(a) {
                            return Err(Fail::new(
                                "C06.alias",
                                &format!("machine={},written_window={},read_window={}", machine, addr as usize / PAGE, w),
                                format!("after writing {:02X} to {:04X} ({} {}), address {:04X} reads {:02X}, expected {:02X}", v, addr, if rom { "ROM" } else { "bank" }, b, a, e.peek(a), m.read(a)),
                            ));
                        }
                    }
                    let mut h = Fnv::new();
                    h.u64(latch_state);
                    h.u8(1);
                    h.u8((addr as usize / PAGE) as u8);
                    h.u8(b);
                    ctx.cover(h.get());
                }
                "rd" => {
                    let addr = op.arg(0) as u16;
                    st.pc = STUB + 3;
                    st.hl = addr;
                    st.af = 0;
                    let after = run1(&mut e, &st)?;
                    let got = (after.af >> 8) as u8;
                    if got != m.read(addr) {
                        let (rom, b) = m.window(addr as usize / PAGE);
                        return Err(Fail::new(
                            "C06.cpu_read",
                            &format!("machine={},window={}", machine, addr as usize / PAGE),
                            format!("LD A,({:04X}) returned {:02X}, expected {:02X} ({} {})", addr, got, m.read(addr), if rom { "ROM" } else { "bank" }, b),
                        ));
                    }
                    let (_, b) = m.window(addr as usize / PAGE);
                    let mut h = Fnv::new();
                    h.u64(latch_state);
                    h.u8(2);
                    h.u8((addr as usize / PAGE) as u8);
                    h.u8(b);
                    ctx.cover(h.get());
                }
                "peek" => {
                    let addr = op.arg(0) as u16;
                    if e.peek(addr) != m.read(addr) {
                        return Err(Fail::new("C06.peek", &format!("machine={},window={}", machine, addr as usize / PAGE), format!("peek({:04X}) = {:02X}, expected {:02X}", addr, e.peek(addr), m.read(addr))));
                    }
                }
                "rej" => {
                    // the host offers a file the loader rejects: nothing of the running machine changes, in
                    // particular an accepted paging lock stays in force
                    ctx.probe("snapshot_rejected_midrun");
                    use rustzx_core::host::Snapshot;
                    let r = match op.arg(0) % 4 {
                        0 => e.load_snapshot(Snapshot::Sna(SimAsset::plain(vec![0u8; 100]))),
                        1 => e.load_snapshot(Snapshot::Szx(SimAsset::plain(b"ZXSX\x01\x04\x00\x00........".to_vec()))),
                        2 => {
                            let mut v = vec![0u8; if m128 { 49179 } else { 131103 }];
                            v[25] = 1;
                            e.load_snapshot(Snapshot::Sna(SimAsset::plain(v)))
                        }
                        _ => {
                            // an SZX for the other machine model
                            let o = crate::snapfmt::SnapState::new(!m128);
                            e.load_snapshot(Snapshot::Szx(SimAsset::plain(crate::snapfmt::write_szx(&o, &crate::snapfmt::SzxOptions::default()))))
                        }
                    };
                    if r.is_ok() {
                        // accepted after all (not this check's business): the history ends here
                        break;
                    }
                    for w in 0..4u32 {
                        let a = (w * PAGE as u32 + 0x0555) as u16;
                        if e.peek(a) != m.read(a) {
                            return Err(Fail::new("C06.rejected_load_map", &format!("machine={},window={}", machine, w), format!("after a rejected snapshot file address {:04X} reads {:02X}, expected {:02X}", a, e.peek(a), m.read(a))));
                        }
                    }
                }
                "poke" => {
                    // a host poke writes the one byte it names - RAM through the window it is seen in, ROM in the
                    // page that is selected right now (and in no other)
                    let addr = op.arg(0) as u16;
                    let v = op.arg(1) as u8;
                    if in_stub(&m, addr) {
                        continue;
                    }
                    ctx.probe("host_poke");
                    struct P1([rustzx_core::poke::PokeAction; 1]);
                    impl rustzx_core::poke::Poke for P1 {
                        fn actions(&self) -> &[rustzx_core::poke::PokeAction] {
                            &self.0
                        }
                    }
                    e.execute_poke(P1([rustzx_core::poke::PokeAction::mem(addr, v)]));
                    let (rom, b) = m.window(addr as usize / PAGE);
                    if rom {
                        ctx.probe("host_poke_into_rom");
                        m.roms[b as usize][addr as usize % PAGE] = v;
                    } else {
                        m.write(addr, v);
                    }
                    for w in 0..4usize {
                        let a = (w * PAGE + addr as usize % PAGE) as u16;
                        if e.peek(a) != m.read(a) {
                            return Err(Fail::new("C06.poke", &format!("machine={},poked_window={},read_window={}", machine, addr as usize / PAGE, w), format!("after poking {:02X} to {:04X}, address {:04X} reads {:02X}, expected {:02X}", v, addr, a, e.peek(a), m.read(a))));
                        }
                    }
                }
                "scr" => {
                    ctx.probe("screenshot_loaded_midrun");
                    let data = Rng::new(op.arg(0) as u64 ^ 0x5C8).bytes(6912);
                    let plan = crate::host::AssetPlan { max_chunk: op.arg(1).max(0) as usize, ..Default::default() };
                    if let Err(x) = e.load_screen(rustzx_core::host::Screen::Scr(SimAsset::new(data.clone(), plan).0)) {
                        return Err(Fail::new("C06.load_screen", &format!("machine={}", machine), format!("load_screen failed on a well-formed SCR file: {:?}", x)));
                    }
                    // what the loader documents: the picture goes to the bank at 0x4000, the CPU is parked in a
                    // `JP 0x8000` loop written at 0x8000 (bank 2); paging, lock and every other byte stay
                    m.banks[5][..6912].copy_from_slice(&data);
                    // the parking loop must be there; then the harness puts its own stub back over it
                    if e.verif_ram_page(phys_page(m128, 2).unwrap())[..3] != [0xC3, 0x00, 0x80] {
                        return Err(Fail::new("C06.load_screen_map", &format!("machine={},window=2", machine), "after load_screen the JP 0x8000 loop is not at 0x8000 in bank 2".into()));
                    }
                    e.verif_ram_page(phys_page(m128, 2).unwrap())[..stub.len()].copy_from_slice(&stub);
                    for w in 0..4u32 {
                        let a = (w * PAGE as u32 + 0x1C55) as u16;
                        if e.peek(a) != m.read(a) {
                            return Err(Fail::new("C06.load_screen_map", &format!("machine={},window={}", machine, w), format!("after load_screen address {:04X} reads {:02X}, expected {:02X}", a, e.peek(a), m.read(a))));
                        }
                    }
                }
                "snap" => {
                    // the host saves nothing and loads a snapshot describing exactly the current memory and
                    // paging state (SNA or SZX): the memory map afterwards is the one the file describes
                    ctx.probe("snapshot_loaded_midrun");
                    let fmt = op.arg(0) & 1;
                    let mut s = crate::snapfmt::SnapState::new(m128);
                    for b in 0..8 {
                        s.banks[b].copy_from_slice(&m.banks[b]);
                    }
                    s.port_7ffd = if m128 { m.last_7ffd } else { 0 };
                    // (the CPU state of the file does not matter here: every op sets its own; PC may as well
                    // point into the ROM, and the 128K SNA's TR-DOS byte may hold anything)
                    s.cpu.pc = if op.arg(0) & 8 != 0 { (op.arg(0) as u16).wrapping_mul(97) & 0x3FFF } else { STUB };
                    s.cpu.sp = 0x9000;
                    s.sna_trdos = if op.arg(0) & 16 != 0 { 1 } else { (op.arg(0) >> 5) as u8 & 3 };
                    s.border = (op.arg(0) >> 1) as u8 & 7;
                    let r = if fmt == 0 {
                        let bytes = if m128 { crate::snapfmt::write_sna128(&s) } else { crate::snapfmt::write_sna48(&s) };
                        if !m128 {
                            // the 48K format keeps PC on the stack: those two bytes are part of the loaded image
                            m.write(0x8FFE, s.cpu.pc as u8);
                            m.write(0x8FFF, (s.cpu.pc >> 8) as u8);
                        }
                        e.load_snapshot(rustzx_core::host::Snapshot::Sna(SimAsset::plain(bytes)))
                    } else {
                        let opt = crate::snapfmt::SzxOptions { compress: vec![op.arg(0) & 4 != 0; 8], ..Default::default() };
                        e.load_snapshot(rustzx_core::host::Snapshot::Szx(SimAsset::plain(crate::snapfmt::write_szx(&s, &opt))))
                    };
                    if let Err(x) = r {
                        return Err(Fail::new("C06.load_snapshot", &format!("machine={},format={}", machine, if fmt == 0 { "sna" } else { "szx" }), format!("a snapshot of the current state was rejected: {:?}", x)));
                    }
                    if m128 {
                        let v = m.last_7ffd;
                        m.locked = false;
                        m.out_7ffd(v);
                    }
                    for w in 0..4u32 {
                        let a = (w * PAGE as u32 + 0x0777 + (op.arg(0) as u32 & 0xFF) * 9) as u16;
                        if e.peek(a) != m.read(a) {
                            let (rom, p) = m.window(w as usize);
                            return Err(Fail::new(
                                "C06.snapshot_map",
                                &format!("machine={},format={},window={}", machine, if fmt == 0 { "sna" } else { "szx" }, w),
                                format!("after loading a {} snapshot of the current state (paging latch {:02X}), address {:04X} reads {:02X}, expected {:02X} ({} {})", if fmt == 0 { "SNA" } else { "SZX" }, m.last_7ffd, a, e.peek(a), m.read(a), if rom { "ROM" } else { "bank" }, p),
                            ));
                        }
                    }
                }
                "load_rom" => {
                    ctx.probe("host_rom_midrun");
                    let salt2 = op.arg(0) as u8;
                    let chunk = op.arg(1).clamp(0, 65536) as usize;
                    let mut pages = vec![];
                    for r in 0..m.roms.len() {
                        for off in 0..PAGE {
                            m.roms[r][off] = marker(200 + r, off, salt2);
                        }
                        let (a, _) = SimAsset::new(m.roms[r].clone(), AssetPlan { max_chunk: chunk, eof: EofStyle::Ok0, ..Default::default() });
                        pages.push(a);
                        if chunk > 0 {
                            ctx.fault("short_read(n)");
                        }
                    }
                    if let Err(x) = e.load_rom(SimRomSet { pages }) {
                        return Err(Fail::new("C06.load_rom", "", format!("load_rom failed on a complete ROM set: {:?}", x)));
                    }
                    for w in 0..4u32 {
                        let a = (w * PAGE as u32 + 0x0321 + salt2 as u32 * 5) as u16;
                        if e.peek(a) != m.read(a) {
                            let (rom, p) = m.window(w as usize);
                            return Err(Fail::new(
                                "C06.load_rom_map",
                                &format!("machine={},window={},rom_selected={}", machine, w, m.rom),
                                format!("after the host loaded a ROM set (paging latch {:02X}, locked {}), address {:04X} reads {:02X}, expected {:02X} ({} {})", m.last_7ffd, m.locked, a, e.peek(a), m.read(a), if rom { "ROM" } else { "bank" }, p),
                            ));
                        }
                    }
                }
                "ins" => {
                    let (st0, enc, int) = gen_ins(op.arg(0) as u64);
                    // the instruction bytes go through the current map on both sides
                    for (i, b) in enc.iter().enumerate() {
                        m.write(st0.pc.wrapping_add(i as u16), *b);
                    }
                    write_mem(&mut e, st0.pc, &enc);
                    let frame = cfg.frame_len();
                    if int {
                        goto_frame_t(&mut e, (op.arg(0) as usize >> 7) % 16, frame);
                    } else {
                        let c = e.verif_frame_clocks();
                        if c < 200 || c > frame - 2000 {
                            goto_frame_t(&mut e, 1000, frame);
                        }
                    }
                    st0.to_impl(e.verif_cpu());
                    let pre = cpu_state(&mut e);
                    let latch_before = (m.top, m.shadow_screen, m.rom, m.locked, m.last_7ffd);
                    let mut r: RefZ80 = pre.to_ref();
                    let (info, undo, io_read, amb, latch_writes) = {
                        let mut bus = MemBus { m: &mut m, undo: vec![], io_read: false, ambiguous: false, int, latch_writes: 0 };
                        let info = r.step(&mut bus);
                        (info, bus.undo, bus.io_read, bus.ambiguous || info.ambiguous.is_some(), bus.latch_writes)
                    };
                    step_public(&mut e).map_err(|x| Fail::new("C06.step", "", x))?;
                    let mut guard = 0;
                    while e.verif_cpu().verif_prefix_pending() && guard < 600 {
                        step_public(&mut e).map_err(|x| Fail::new("C06.step", "", x))?;
                        guard += 1;
                    }
                    if int && info.accepted == zxref::z80::Accepted::Int {
                        ctx.probe("im2_vector_fetch");
                    }
                    if latch_writes > 0 {
                        ctx.probe("paging_by_other_out_forms");
                    }
                    if amb || io_read {
                        // a device decides the value (or two devices were selected): adopt the machine's bytes
                        ctx.ambiguous += 1;
                        for (a, _) in &undo {
                            let v = e.peek(*a);
                            m.write(*a, v);
                        }
                        if amb {
                            // the latch cannot be inferred from the outside: end the history here
                            break;
                        }
                    } else {
                        let mut post_i = cpu_state(&mut e);
                        let post_r = CpuState::from_ref(&r);
                        post_i.memptr = post_r.memptr;
                        post_i.q = post_r.q;
                        post_i.no_sample = post_r.no_sample;
                        let mut what = post_i.diff(&post_r, 0x28).map(|(f, a, b)| format!("{} = {:04X}, the memory map gives {:04X}", f, a, b));
                        if what.is_none() {
                            for (a, _) in &undo {
                                for w in 0..4usize {
                                    let al = (w * PAGE + *a as usize % PAGE) as u16;
                                    if e.peek(al) != m.read(al) {
                                        what = Some(format!("after the instruction wrote {:04X}, address {:04X} reads {:02X}, expected {:02X}", a, al, e.peek(al), m.read(al)));
                                    }
                                }
                            }
                        }
                        if let Some(what) = what {
                            // attribution: the same instruction on a flat 64 KiB memory holding the bytes the
                            // map made visible before it ran. If the bare CPU disagrees with the reference
                            // there too, the difference is the CPU's (C01), not the memory map's.
                            let mut before = m.clone();
                            (before.top, before.shadow_screen, before.rom, before.locked, before.last_7ffd) = latch_before;
                            for (a, old) in undo.iter().rev() {
                                before.write(*a, *old);
                            }
                            let flat: Vec<u8> = (0..=0xFFFFu16).map(|a| before.read(a)).collect();
                            let mut wa = WorldA::new(&pre, Outside::new(flat, 0, vec![int as u8], 0xFFFF_FFFF));
                            wa.compare_control = false;
                            let o = wa.step();
                            if o.div.is_some() || o.ambiguous {
                                ctx.probe("value_divergence_skipped");
                                // resynchronise the model from the machine
                                for (a, _) in &undo {
                                    let v = e.peek(*a);
                                    m.write(*a, v);
                                }
                            } else {
                                let page = crate::worlda::page_name(info.page);
                                return Err(Fail::new(
                                    "C06.cpu_access",
                                    &format!("machine={},page={},op={:02X}", machine, page, info.opcode),
                                    format!(
                                        "{} {:02X}{} at PC={:04X} SP={:04X} HL={:04X} DE={:04X} I={:02X} (bytes {:02X?}; top bank {}, ROM {}): {}",
                                        page,
                                        info.opcode,
                                        if info.accepted == zxref::z80::Accepted::Int { " after an IM 2 interrupt entry" } else { "" },
                                        pre.pc,
                                        pre.sp,
                                        pre.hl,
                                        pre.de,
                                        pre.i,
                                        enc,
                                        latch_before.0,
                                        latch_before.2,
                                        what
                                    ),
                                ));
                            }
                        }
                        let mut h = Fnv::new();
                        h.u64(latch_state);
                        h.u8(3);
                        h.u8(info.page as u8);
                        h.u8(info.opcode);
                        ctx.cover(h.get());
                    }
                    // the fixed stub may have been overwritten
                    write_mem(&mut e, STUB, &stub);
                    for (i, b) in stub.iter().enumerate() {
                        m.banks[2][i] = *b;
                    }
                }
                "sweep" => {
                    self.sweep(&mut e, &m, op.arg(0).clamp(1, 4096) as usize, ctx)?;
                }
                _ => {}
            }
            ctx.state(latch_state);
            ctx.units += 1;
            ctx.sim_t += 12;
        }
        Ok(())
    }
}
