//! C08 — the displayed picture is the standard decode of the ULA-visible screen memory, however
//! the bytes got there, with FLASH every 16 frames and beam-relative visibility of changes.

use crate::cpustate::CpuState;
use crate::host::*;
use crate::machine::*;
use crate::prng::{Fnv, Rng};
use crate::runner::{Fail, Property, RunCtx, Tier};
use crate::scenario::{Op, Scenario};
use crate::snapfmt::*;
use rustzx_core::host::{Screen, Snapshot, Tape};
use rustzx_core::poke::{Poke, PokeAction};
use rustzx_z80::Z80Bus;
use zxref::screen;
use zxref::tape;

pub struct C08;

struct Pokes(Vec<PokeAction>);
impl Poke for Pokes {
    fn actions(&self) -> &[PokeAction] {
        &self.0
    }
}

const IDLE: u16 = 0x8000; // DI; JR $
const SRC: u16 = 0x9000;

pub fn gen_screen(rng: &mut Rng) -> Vec<u8> {
    let mut s = vec![0u8; 6912];
    match rng.below(5) {
        0 => rng.fill(&mut s),
        1 => {
            // single bits + every attribute combination
            for i in 0..6144 {
                s[i] = 1 << (i % 8);
            }
            for i in 0..768 {
                s[6144 + i] = (i as u8).wrapping_mul(37).wrapping_add(rng.u8() & 0x80);
            }
        }
        2 => {
            // per-third patterns
            for y in 0..192 {
                for c in 0..32 {
                    s[screen::bitmap_offset(y, c)] = ((y / 64) as u8 * 0x55) ^ (y as u8) ^ (c as u8);
                }
            }
            for i in 0..768 {
                s[6144 + i] = rng.u8();
            }
        }
        3 => {
            rng.fill(&mut s[..6144]);
            for i in 0..768 {
                s[6144 + i] = 0x80 | rng.u8(); // all flashing
            }
        }
        _ => {
            rng.fill(&mut s);
            for i in 0..768 {
                s[6144 + i] &= 0x7F; // no flash
            }
        }
    }
    s
}

fn phys_screen_page(m128: bool, shadow: bool) -> u8 {
    if m128 {
        if shadow {
            7
        } else {
            5
        }
    } else {
        0
    }
}

fn idle_cpu(e: &mut Emu) {
    write_mem(e, IDLE, &[0xF3, 0x18, 0xFE]);
    let mut st = CpuState::default();
    st.pc = IDLE;
    st.sp = 0x8FF0;
    st.to_impl(e.verif_cpu());
}

/// compares the delivered canvas with the decode of the displayed bank; returns the flash phase used
fn check_frame(e: &mut Emu, m128: bool, shadow: bool, path: &str, ctx: &mut RunCtx) -> Result<Option<bool>, Fail> {
    let page = phys_screen_page(m128, shadow);
    let mem: Vec<u8> = e.verif_ram_page(page)[..6912].to_vec();
    let got = &e.screen_buffer().px;
    let a = screen::decode(&mem, false);
    if &a == got {
        return Ok(if screen::has_visible_flash(&mem) { Some(false) } else { None });
    }
    let b = screen::decode(&mem, true);
    if &b == got {
        return Ok(Some(true));
    }
    // locate the first wrong pixel against the closer phase
    let da = a.iter().zip(got.iter()).filter(|(x, y)| x != y).count();
    let db = b.iter().zip(got.iter()).filter(|(x, y)| x != y).count();
    let r = if da <= db { &a } else { &b };
    let i = r.iter().zip(got.iter()).position(|(x, y)| x != y).unwrap();
    let (x, y) = (i % 256, i / 256);
    ctx.probe("mismatch_located");
    let third = y / 64;
    Err(Fail::new(
        "C08.picture",
        &format!("path={},machine={},shadow={}", path, if m128 { "128k" } else { "48k" }, shadow as u8),
        format!(
            "after writing the screen through '{}' ({} wrong pixels): pixel ({},{}) in third {} shows {:X}, the standard decode of display byte {:02X} / attribute {:02X} gives {:X}",
            path,
            da.min(db),
            x,
            y,
            third,
            got[i],
            mem[screen::bitmap_offset(y, x / 8)],
            mem[screen::attr_offset(y, x / 8)],
            r[i]
        ),
    ))
}

const PATHS: [&str; 11] = ["hook", "cpu_4000", "cpu_c000", "poke", "scr", "sna", "szx", "fastload", "poke_c000", "fastload_part", "cpu_words"];

impl Property for C08 {
    fn id(&self) -> &'static str {
        "C08"
    }
    fn runs(&self, tier: Tier) -> u64 {
        match tier {
            Tier::Quick => 1_600,
            Tier::Thorough => 48_000,
        }
    }
    fn rule(&self) -> &'static str {
        "kind 0: 6912-byte contents (random, single bits, per-third patterns, all-flash, no-flash) written through a seeded path (CPU LDIR via 0x4000, via 0xC000 with bank 5/7 paged, CPU 16-bit stores and pushes at seeded offsets, partial tape fast-loads through either window, pokes via 0x4000 / 0xC000, SCR load, SNA load, SZX load, tape fast-load, raw bus writes), 128K screen bit toggled, then quiet frames compared pixel-exact with RefScreen; kind 1: flash run-lengths over 50..70 frames, on the 128K with both screens flashing and the displayed one switched at seeded frame boundaries; kind 2: one byte written by the CPU at a T at least two lines before / after its beam position. distinct = (kind, path, machine, displayed bank, content style, third / beam side)"
    }
    fn state_measure(&self) -> &'static str {
        "distinct (machine, path, shadow, flash phase seen) combinations compared"
    }
    fn real_components(&self) -> Vec<&'static str> {
        vec!["ZXScreen (update, process_clocks, new_frame, flash, bank switch)", "ZXController::write_internal / write_7ffd / refresh_memory_dependent_devices", "Emulator::execute_poke, load_screen, load_snapshot (SNA, SZX), fast_load_tap", "Z80 (LDIR, LD (HL),A)"]
    }
    fn stub_components(&self) -> Vec<&'static str> {
        vec!["Host::FrameBuffer (recording)", "RefScreen decode (zxref::screen)", "independent SNA/SZX/SCR/TAP writers", "assets (chunked)"]
    }
    fn assumptions(&self) -> Vec<&'static str> {
        vec![
            "the oracle input is the actual content of the displayed RAM bank (read through the hook) - what the bytes should be after a loader ran is C14's business",
            "flash phase origin is not assumed; only that polarity runs last exactly 16 frames",
            "SCR load with the shadow screen displayed is asserted only against the displayed bank's actual bytes",
        ]
    }
    fn expected_probes(&self) -> Vec<&'static str> {
        vec!["path_cpu_c000_bank7", "shadow_displayed", "flash_runs_checked", "flash_across_screen_switch", "beam_before", "beam_after", "path_poke", "path_sna", "path_szx", "path_scr", "path_fastload", "path_fastload_part", "path_fastload_c000", "path_cpu_words", "first_frame_after_host_write", "snapshot_saved_with_sp_in_screen", "screen_selected_with_lock_bit", "beam_host_write", "beam_paging_write_same_frame", "beam_inside_attribute_row", "multi_frame_call_stopped_by_breakpoint"]
    }

    fn gen(&self, rng: &mut Rng, tier: Tier, idx: u64) -> Scenario {
        let mut sc = Scenario::new();
        let m128 = rng.bool();
        sc.set("m128", m128 as i64);
        let kind = match idx % 8 {
            0..=4 => 0,
            5 => 1,
            _ => 2,
        };
        sc.set("kind", kind);
        sc.set("content_seed", (rng.next() >> 2) as i64);
        match kind {
            0 => {
                let mut path = rng.range(0, 10);
                if !m128 && (path == 2 || path == 8) {
                    path = 1;
                }
                sc.set("path", path);
                sc.set("target7", (m128 && (path == 2 || path == 8 || path == 0 || path == 9 || path == 10) && rng.bool()) as i64);
                // partial fast load: window (0x4000 or, 128K, 0xC000 with bank 5/7 paged), offset and length
                sc.set("fl_c000", (m128 && rng.bool()) as i64);
                let (r1, r2, r3) = (rng.range(0, 0x1AFF), rng.range(1, 6912), rng.range(1, 300));
                sc.set("fl_off", *rng.pick(&[0i64, 0, 1, 0x17FF, 0x1800, 0x1AFF, r1]));
                sc.set("fl_len", *rng.pick(&[1i64, 2, 256, 6912, r2, r3]));
                sc.set("fl_lead", *rng.pick(&[0i64, 0, 1, 256]));
                sc.set("save_sna", if rng.chance(1, 4) { rng.range(1, 60000) } else { 0 });
                // the displayed screen may be selected together with the paging lock bit
                sc.set("shadow_lock", rng.chance(1, 4) as i64);
                sc.set("shadow", (m128 && rng.bool()) as i64);
                sc.set("chunk", *rng.pick(&[0i64, 1, 100, 4096]));
                sc.set("frames", rng.range(2, 5));
                sc.set("multi_stop", if rng.chance(1, 3) { rng.range(1, 12) } else { 0 });
                sc.set("szx_seed", (rng.next() >> 2) as i64);
            }
            1 => {
                // mostly a few flash periods; now and then past 256 frames (a frame counter kept in a byte)
                let long = rng.chance(1, 8);
                sc.set("frames", if long { rng.range(262, 300) } else if tier == Tier::Quick { rng.range(50, 60) } else { rng.range(50, 120) });
                // thorough tier: one run past 65536 frames (a 16-bit frame counter); only its last frames are observed
                if tier == Tier::Thorough && idx == 5 {
                    sc.set("frames", 65_536 + rng.range(40, 120));
                }
                sc.set("shadow", (m128 && rng.bool()) as i64);
                sc.set("warm", rng.range(0, 40));
                // 128K: both screens hold flashing cells and the program switches between them at seeded frame
                // boundaries; the polarity runs go on across the switches (one FLASH clock, not one per screen)
                sc.set("sw_seed", if m128 && rng.chance(2, 3) { (rng.next() >> 8) as i64 | 1 } else { 0 });
            }
            _ => {
                let y = rng.range(4, 187);
                sc.set("y", y);
                sc.set("col", rng.range(0, 31));
                sc.set("attr", rng.bool() as i64);
                sc.set("inside", rng.chance(1, 3) as i64);
                sc.set("before", rng.bool() as i64);
                sc.set("lines", rng.range(2, 40));
                sc.set("writer", rng.range(0, 2));
                sc.set("shadow", 0);
                // 128K: a paging write that leaves the displayed screen alone, in the same frame
                // (0 none, 1 right after the byte write, 2 right before it)
                sc.set("pg_when", if m128 { rng.range(0, 2) } else { 0 });
                sc.set("pg_val", *rng.pick(&[0x00i64, 0x01, 0x07, 0x10, 0x13, 0x05]));
            }
        }
        sc
    }

    fn exec(&self, sc: &Scenario, ctx: &mut RunCtx) -> Result<(), Fail> {
        let m128 = sc.get("m128") != 0;
        let cfg = MCfg { m128, fastload: true, ..Default::default() };
        let mut e = new_emu(&cfg);
        let mut rng = Rng::new(sc.get("content_seed") as u64);
        let scr = gen_screen(&mut rng);
        let shadow = m128 && sc.get("shadow") != 0;
        idle_cpu(&mut e);
        match sc.get("kind") {
            0 => {
                let path = sc.get("path").clamp(0, 10) as usize;
                let pname = PATHS[path];
                if !m128 && (path == 2 || path == 8) {
                    return Ok(());
                }
                let target7 = m128 && sc.get("target7") != 0 && (path == 0 || path == 2 || path == 8 || path == 9 || path == 10);
                let chunk = sc.get("chunk").max(0) as usize;
                let plan = AssetPlan { max_chunk: chunk, ..Default::default() };
                // other screen bank gets different recognisable content
                if m128 {
                    let other: Vec<u8> = scr.iter().map(|b| b.rotate_left(3) ^ 0x5A).collect();
                    let op = if target7 { 5 } else { 7 };
                    e.verif_ram_page(op)[..6912].copy_from_slice(&other);
                    e.verif_refresh_screen();
                }
                let page_at_c000: u8 = if target7 { 7 } else { 5 };
                match path {
                    0 => {
                        // raw bus writes through the window that maps the target bank
                        if target7 {
                            e.verif_bus().write_io(0x7FFD, 7);
                            write_mem(&mut e, 0xC000, &scr);
                            e.verif_bus().write_io(0x7FFD, 0);
                        } else {
                            write_mem(&mut e, 0x4000, &scr);
                        }
                    }
                    1 | 2 => {
                        let dst: u16 = if path == 1 { 0x4000 } else { 0xC000 };
                        if path == 2 {
                            e.verif_bus().write_io(0x7FFD, page_at_c000);
                            if target7 {
                                ctx.probe("path_cpu_c000_bank7");
                            }
                        }
                        write_mem(&mut e, SRC, &scr);
                        // LD HL,SRC; LD DE,dst; LD BC,6912; LDIR; DI; JR $
                        let prog = [0x21, SRC as u8, (SRC >> 8) as u8, 0x11, dst as u8, (dst >> 8) as u8, 0x01, 0x00, 0x1B, 0xED, 0xB0, 0xF3, 0x18, 0xFE];
                        write_mem(&mut e, 0x8100, &prog);
                        let mut st = cpu_state(&mut e);
                        st.pc = 0x8100;
                        st.to_impl(e.verif_cpu());
                        run_frames(&mut e, 4).map_err(|x| Fail::new("C08.run", "", x))?;
                        if path == 2 {
                            e.verif_bus().write_io(0x7FFD, 0);
                        }
                    }
                    3 | 8 => {
                        ctx.probe("path_poke");
                        let base: u16 = if path == 3 { 0x4000 } else { 0xC000 };
                        if path == 8 {
                            e.verif_bus().write_io(0x7FFD, page_at_c000);
                        }
                        let acts: Vec<PokeAction> = scr.iter().enumerate().map(|(i, b)| PokeAction::mem(base + i as u16, *b)).collect();
                        e.execute_poke(Pokes(acts));
                        if path == 8 {
                            e.verif_bus().write_io(0x7FFD, 0);
                        }
                    }
                    4 => {
                        ctx.probe("path_scr");
                        let (a, _) = SimAsset::new(write_scr(&scr), plan);
                        e.load_screen(Screen::Scr(a)).map_err(|x| Fail::new("C08.load_scr", "", format!("load_screen failed: {:?}", x)))?;
                    }
                    5 | 6 => {
                        let mut s = SnapState::new(m128);
                        s.banks[5][..6912].copy_from_slice(&scr);
                        for (i, b) in [0xF3u8, 0x18, 0xFE].iter().enumerate() {
                            s.banks[2][i] = *b;
                        }
                        s.cpu.pc = IDLE;
                        s.cpu.sp = 0x8FF0;
                        s.border = 3;
                        let bytes = if path == 5 {
                            ctx.probe("path_sna");
                            if m128 {
                                write_sna128(&s)
                            } else {
                                write_sna48(&s)
                            }
                        } else {
                            ctx.probe("path_szx");
                            let mut r2 = Rng::new(sc.get("szx_seed") as u64);
                            let opt = SzxOptions { compress: (0..8).map(|_| r2.bool()).collect(), order_seed: r2.next() | 1, unknown_chunks: r2.below(3) as usize, with_creator: r2.bool(), ..Default::default() };
                            write_szx(&s, &opt)
                        };
                        let (a, _) = SimAsset::new(bytes, plan);
                        let r = if path == 5 { e.load_snapshot(Snapshot::Sna(a)) } else { e.load_snapshot(Snapshot::Szx(a)) };
                        r.map_err(|x| Fail::new("C08.load_snapshot", &format!("path={}", pname), format!("loading a well-formed snapshot failed: {:?}", x)))?;
                    }
                    10 => {
                        // 16-bit stores and stack pushes by the CPU (LD (nn),HL / LD (nn),BC / LD (nn),IX / PUSH)
                        // at seeded display-file offsets, through 0x4000 or 0xC000 with a screen bank paged
                        // there, on top of a known picture
                        ctx.probe("path_cpu_words");
                        let via_c000 = m128 && sc.get("fl_c000") != 0;
                        let bank: u8 = if via_c000 { page_at_c000 } else { 5 };
                        e.verif_ram_page(phys_screen_page(m128, bank == 7))[..6912].copy_from_slice(&scr);
                        e.verif_refresh_screen();
                        if via_c000 {
                            e.verif_bus().write_io(0x7FFD, page_at_c000);
                        }
                        let base: u16 = if via_c000 { 0xC000 } else { 0x4000 };
                        let mut prog: Vec<u8> = vec![0xF3];
                        for _ in 0..400 {
                            let off = rng.below(6911) as u16;
                            // mostly inside the display file; now and then the word straddles its start (low byte in
                            // the window below, high byte on the first display byte), or the store goes to the ROM
                            // address with the same offset (nothing of the display changes then)
                            let a = match rng.below(12) {
                                0 => base.wrapping_sub(1),
                                1 => off,
                                _ => base + off,
                            };
                            let w = rng.u16();
                            match rng.below(4) {
                                0 => prog.extend_from_slice(&[0x21, w as u8, (w >> 8) as u8, 0x22, a as u8, (a >> 8) as u8]),
                                1 => prog.extend_from_slice(&[0x01, w as u8, (w >> 8) as u8, 0xED, 0x43, a as u8, (a >> 8) as u8]),
                                2 => prog.extend_from_slice(&[0xDD, 0x21, w as u8, (w >> 8) as u8, 0xDD, 0x22, a as u8, (a >> 8) as u8]),
                                _ => {
                                    let sp = a + 2;
                                    prog.extend_from_slice(&[0x31, sp as u8, (sp >> 8) as u8, 0x11, w as u8, (w >> 8) as u8, 0xD5]);
                                }
                            }
                        }
                        prog.extend_from_slice(&[0x31, 0xF0, 0x8F, 0x18, 0xFE]); // LD SP,8FF0 ; JR $
                        write_mem(&mut e, 0x9000, &prog);
                        let mut st = cpu_state(&mut e);
                        st.pc = 0x9000;
                        st.iff1 = false;
                        st.iff2 = false;
                        st.to_impl(e.verif_cpu());
                        run_frames(&mut e, 2).map_err(|x| Fail::new("C08.run", "", x))?;
                        if via_c000 {
                            e.verif_bus().write_io(0x7FFD, 0);
                        }
                    }
                    9 => {
                        // tape fast-load of a block that covers only a part of the display file (possibly
                        // starting below it), through 0x4000 or through 0xC000 with a screen bank paged there
                        ctx.probe("path_fastload_part");
                        let via_c000 = m128 && sc.get("fl_c000") != 0;
                        let bank: u8 = if via_c000 { page_at_c000 } else { 5 };
                        // known picture first (raw page write + refresh), then the block on top of it
                        e.verif_ram_page(phys_screen_page(m128, bank == 7))[..6912].copy_from_slice(&scr);
                        e.verif_refresh_screen();
                        let lead = sc.get("fl_lead").clamp(0, 1024) as u16;
                        let off = sc.get("fl_off").clamp(0, 0x1AFF) as u16;
                        let len = sc.get("fl_len").clamp(1, 6912 + 1024) as usize;
                        let base: u16 = if via_c000 { 0xC000 } else { 0x4000 };
                        // a block through 0x4000 may start in ROM (lead bytes are dropped there); through 0xC000 it
                        // starts in bank 2 below the window: keep clear of the stub / stack area at 0x8000-0x8FFF
                        let dest = (base + off).wrapping_sub(if via_c000 { 0 } else { lead });
                        let len = len.min(0x10000 - dest as usize);
                        let mut data = vec![0u8; len];
                        rng.fill(&mut data);
                        if m128 {
                            e.verif_bus().write_io(0x7FFD, 0x10 | if via_c000 { page_at_c000 } else { 0 });
                            if via_c000 {
                                ctx.probe("path_fastload_c000");
                            }
                        }
                        let blk = tape::std_block(0xFF, &data);
                        let img = tape::make_tap(&[blk]);
                        e.load_tape(Tape::Tap(AnyAsset::Sim(SimAsset::new(img, plan).0))).map_err(|x| Fail::new("C08.load_tape", "", format!("{:?}", x)))?;
                        let ok = call_ld_bytes(&mut e, 0xFF, true, dest, len as u16, 0x8FF0, 0x8200, 50).map_err(|x| Fail::new("C08.fastload", "", x))?;
                        if !ok {
                            return Err(Fail::new("C08.fastload_no_return", "", format!("fast load of a {}-byte block to {:04X} did not return", len, dest)));
                        }
                        idle_cpu(&mut e);
                        if m128 {
                            e.verif_bus().write_io(0x7FFD, 0x10);
                        }
                    }
                    _ => {
                        ctx.probe("path_fastload");
                        if m128 {
                            e.verif_bus().write_io(0x7FFD, 0x10); // 48K BASIC ROM
                        }
                        let blk = tape::std_block(0xFF, &scr);
                        let img = tape::make_tap(&[blk]);
                        e.load_tape(Tape::Tap(AnyAsset::Sim(SimAsset::new(img, plan).0))).map_err(|x| Fail::new("C08.load_tape", "", format!("{:?}", x)))?;
                        let ok = call_ld_bytes(&mut e, 0xFF, true, 0x4000, 6912, 0x8FF0, 0x8200, 50).map_err(|x| Fail::new("C08.fastload", "", x))?;
                        if !ok {
                            return Err(Fail::new("C08.fastload_no_return", "", "fast load of a 6912-byte block did not return".into()));
                        }
                        idle_cpu(&mut e);
                    }
                }
                // select the displayed bank
                let shadow_lock = m128 && sc.get("shadow_lock") != 0;
                if m128 {
                    let (latch, _, _) = e.verif_paging();
                    let v = (latch & !0x08) | if shadow { 0x08 } else { 0 } | if shadow_lock { 0x20 } else { 0 };
                    e.verif_bus().write_io(0x7FFD, v);
                    if shadow {
                        ctx.probe("shadow_displayed");
                    }
                    if shadow_lock {
                        ctx.probe("screen_selected_with_lock_bit");
                    }
                }
                if path != 1 && path != 2 && path != 7 && path != 9 && path != 10 {
                    idle_cpu_keep(&mut e);
                }
                // the host takes a snapshot while the stack pointer is inside the display file (the 48K SNA
                // format parks PC on the stack for the duration of the save): the picture stays the decode
                // of the - unchanged - screen memory
                if sc.get("save_sna") != 0 {
                    ctx.probe("snapshot_saved_with_sp_in_screen");
                    let mut st = cpu_state(&mut e);
                    st.sp = 0x4000 + 2 + (sc.get("save_sna") as u16 % 6908);
                    st.to_impl(e.verif_cpu());
                    let (rec, _out) = SimRecorder::new(RecorderPlan::default());
                    e.save_snapshot(rustzx_core::host::SnapshotRecorder::Sna(rec)).map_err(|x| Fail::new("C08.save_snapshot", "", format!("{:?}", x)))?;
                }
                // quiet frames
                let frames = sc.get("frames").clamp(2, 8) as usize;
                // host-side paths that finished before the beam reached the picture area: already the first
                // frame delivered afterwards is the decode
                let early = e.verif_frame_clocks() < 14000 && matches!(path, 0 | 3 | 4 | 5 | 6 | 8);
                // a host asking for several frames per call, stopped by a breakpoint in the middle of the run: the
                // picture presented at the stop is the last completed frame, i.e. (two frames or more after the
                // write) the decode of the screen memory
                if sc.get("multi_stop") != 0 {
                    let nth = [9000u64, 14000, 20000, 40000][(sc.get("multi_stop") as usize) % 4];
                    set_break_mode(&mut e, BreakMode::EveryNth(nth));
                    e.set_speed(rustzx_core::EmulationMode::FrameCount(3 + (sc.get("multi_stop") as usize / 4) % 3));
                    let mut passed = 0usize;
                    for _ in 0..40 {
                        let r = e.emulate_frames(LONG).map_err(|x| Fail::new("C08.run", "", format!("{:?}", x)))?;
                        passed += e.verif_passed_frames();
                        if r.stop_reason == rustzx_core::EmulationStopReason::Breakpoint {
                            if passed >= 2 && e.verif_passed_frames() >= 1 {
                                ctx.probe("multi_frame_call_stopped_by_breakpoint");
                                check_frame(&mut e, m128, shadow, pname, ctx)?;
                            }
                        } else {
                            break;
                        }
                    }
                    set_break_mode(&mut e, BreakMode::Never);
                }
                run_frames(&mut e, 1).map_err(|x| Fail::new("C08.run", "", x))?;
                if early {
                    ctx.probe("first_frame_after_host_write");
                    check_frame(&mut e, m128, shadow, pname, ctx)?;
                }
                for _ in 0..frames {
                    run_frames(&mut e, 1).map_err(|x| Fail::new("C08.run", "", x))?;
                    let ph = check_frame(&mut e, m128, shadow, pname, ctx)?;
                    let mut hs = Fnv::new();
                    hs.u8(m128 as u8);
                    hs.u64(path as u64);
                    hs.u8(shadow as u8);
                    hs.u8(match ph {
                        None => 0,
                        Some(false) => 1,
                        Some(true) => 2,
                    });
                    ctx.state(hs.get());
                    ctx.sim_t += cfg.frame_len() as u64;
                }
                // toggle the displayed screen once more and compare again (128K); a locked latch ignores the
                // write and keeps showing the same bank
                if m128 && shadow_lock {
                    let (latch, _, _) = e.verif_paging();
                    e.verif_bus().write_io(0x7FFD, latch ^ 0x08);
                    run_frames(&mut e, 2).map_err(|x| Fail::new("C08.run", "", x))?;
                    check_frame(&mut e, m128, shadow, pname, ctx)?;
                } else if m128 {
                    let (latch, _, _) = e.verif_paging();
                    e.verif_bus().write_io(0x7FFD, latch ^ 0x08);
                    run_frames(&mut e, 2).map_err(|x| Fail::new("C08.run", "", x))?;
                    check_frame(&mut e, m128, !shadow, pname, ctx)?;
                }
                let mut h = Fnv::new();
                h.u8(0);
                h.u64(path as u64);
                h.u8(m128 as u8);
                h.u8(shadow as u8);
                h.u8(target7 as u8);
                h.u64(sc.get("content_seed") as u64 % 5);
                ctx.cover(h.get());
                ctx.units += 1;
            }
            1 => {
                // flash run lengths
                let mut s2 = scr.clone();
                for i in 0..768 {
                    s2[6144 + i] = 0x80 | (i as u8 & 0x3F) | 0x01; // flashing, ink != paper mostly
                    if (s2[6144 + i] & 7) == ((s2[6144 + i] >> 3) & 7) {
                        s2[6144 + i] ^= 1;
                    }
                }
                let page = phys_screen_page(m128, shadow);
                e.verif_ram_page(page)[..6912].copy_from_slice(&s2);
                let sw_seed = if m128 { sc.get("sw_seed") } else { 0 };
                if sw_seed != 0 {
                    // the other screen: flashing cells too, another picture
                    let mut s3 = s2.clone();
                    for (i, b) in s3.iter_mut().enumerate() {
                        if i < 6144 {
                            *b = !*b ^ (i as u8);
                        } else {
                            *b ^= 0x40 | 0x12;
                            if (*b & 7) == ((*b >> 3) & 7) {
                                *b ^= 2;
                            }
                        }
                    }
                    e.verif_ram_page(phys_screen_page(m128, !shadow))[..6912].copy_from_slice(&s3);
                }
                e.verif_refresh_screen();
                if shadow {
                    e.verif_bus().write_io(0x7FFD, 0x08);
                }
                let mut shadow = shadow;
                let mut sw_rng = Rng::new(sw_seed as u64);
                let warm = sc.get("warm").clamp(0, 100) as usize;
                run_frames(&mut e, warm + 2).map_err(|x| Fail::new("C08.run", "", x))?;
                let n = sc.get("frames").clamp(40, 70_000) as usize;
                // very long runs: everything but the last 100 frames passes unobserved, in large host calls
                let n = if n > 1000 {
                    ctx.probe("flash_after_65536_frames");
                    let mut left = n - 100;
                    let mut r0 = Rng::new(1);
                    while left > 0 {
                        let k = left.min(500);
                        drive(&mut e, Slice::Count(k), &mut r0).map_err(|x| Fail::new("C08.run", "", x))?;
                        left -= k;
                    }
                    100
                } else {
                    n
                };
                let mut phases = vec![];
                for _ in 0..n {
                    if sw_seed != 0 && sw_rng.chance(1, 9) {
                        // (the frame has just begun: the beam is far above the picture)
                        ctx.probe("flash_across_screen_switch");
                        shadow = !shadow;
                        e.verif_bus().write_io(0x7FFD, if shadow { 0x08 } else { 0x00 });
                    }
                    run_frames(&mut e, 1).map_err(|x| Fail::new("C08.run", "", x))?;
                    match check_frame(&mut e, m128, shadow, "flash", ctx)? {
                        Some(p) => phases.push(p),
                        None => return Ok(()),
                    }
                    ctx.sim_t += cfg.frame_len() as u64;
                }
                // run lengths: interior runs exactly 16
                let mut runs = vec![];
                let mut cur = 1;
                for i in 1..phases.len() {
                    if phases[i] == phases[i - 1] {
                        cur += 1;
                    } else {
                        runs.push(cur);
                        cur = 1;
                    }
                }
                runs.push(cur);
                ctx.probe("flash_runs_checked");
                let bad = runs.len() < 3
                    || runs[1..runs.len() - 1].iter().any(|&r| r != 16)
                    || runs[0] > 16
                    || runs[runs.len() - 1] > 16;
                if bad {
                    return Err(Fail::new("C08.flash_period", &format!("machine={}", if m128 { "128k" } else { "48k" }), format!("FLASH polarity run lengths over {} frames: {:?} (must be 16 each, first/last partial)", n, runs)));
                }
                let mut h = Fnv::new();
                h.u8(1);
                h.u8(m128 as u8);
                h.u8(shadow as u8);
                h.u64(runs[0] as u64);
                ctx.cover(h.get());
                ctx.units += 1;
            }
            _ => {
                // beam-relative visibility of a single CPU write
                let y = sc.get("y").clamp(0, 191) as usize;
                let col = sc.get("col").clamp(0, 31) as usize;
                let is_attr = sc.get("attr") != 0;
                let before = sc.get("before") != 0;
                let lines = sc.get("lines").clamp(2, 60) as u64;
                let page = phys_screen_page(m128, false);
                // no flash so the phase cannot interfere
                let mut s2 = scr.clone();
                for i in 0..768 {
                    s2[6144 + i] &= 0x7F;
                    if (s2[6144 + i] & 7) == ((s2[6144 + i] >> 3) & 7) {
                        s2[6144 + i] ^= 7;
                    }
                }
                e.verif_ram_page(page)[..6912].copy_from_slice(&s2);
                e.verif_refresh_screen();
                run_frames(&mut e, 2).map_err(|x| Fail::new("C08.run", "", x))?;
                let off = if is_attr { screen::attr_offset(y, col) } else { screen::bitmap_offset(y, col) };
                let old = s2[off];
                let new = if is_attr { (old ^ 0x3F) & 0x7F } else { !old };
                let new = if is_attr && (new & 7) == ((new >> 3) & 7) { new ^ 7 } else { new };
                let line_t = cfg.line_len() as u64;
                let first = if m128 { 14362u64 } else { 14336 };
                // beam position of the affected cell(s): an attribute byte affects 8 pixel lines
                let (y_first, y_last) = if is_attr { ((y / 8) * 8, (y / 8) * 8 + 7) } else { (y, y) };
                // attribute bytes also change while the beam is inside their character row: the pixel lines still
                // at least two lines ahead show the new colours in this very frame
                let inside = is_attr && sc.get("inside") != 0;
                let t_w = if inside {
                    first + (y_first as u64 + (lines % 8)) * line_t + col as u64 * 4
                } else if before {
                    (first + y_first as u64 * line_t + col as u64 * 4).saturating_sub(lines * line_t + 8)
                } else {
                    first + y_last as u64 * line_t + col as u64 * 4 + lines * line_t
                };
                if t_w < 40 || t_w + 40 > cfg.frame_len() as u64 {
                    return Ok(());
                }
                // we are right after a frame boundary: forward jump only
                if e.verif_frame_clocks() as u64 > t_w {
                    return Ok(());
                }
                let writer = sc.get("writer").clamp(0, 2);
                let pg_when = if m128 { sc.get("pg_when").clamp(0, 2) } else { 0 };
                let pg_val = (sc.get("pg_val") & 0x17) as u8; // screen bit and lock bit stay clear
                if pg_when != 0 {
                    ctx.probe("beam_paging_write_same_frame");
                }
                if writer == 0 {
                    // program: [paging OUT] ; LD (HL),A ; [paging OUT] ; DI ; JR $
                    let out = [0x01u8, 0xFD, 0x7F, 0x3E, pg_val, 0xED, 0x79]; // LD BC,7FFD; LD A,v; OUT (C),A
                    let mut prog: Vec<u8> = vec![];
                    if pg_when == 2 {
                        prog.extend_from_slice(&out);
                    }
                    prog.extend_from_slice(&[0x3E, new, 0x77]); // LD A,new; LD (HL),A
                    if pg_when == 1 {
                        prog.extend_from_slice(&out);
                    }
                    prog.extend_from_slice(&[0xF3, 0x18, 0xFE]);
                    write_mem(&mut e, 0x8300, &prog);
                    let mut st = cpu_state(&mut e);
                    st.pc = 0x8300;
                    st.hl = 0x4000 + off as u16;
                    st.to_impl(e.verif_cpu());
                    e.verif_set_frame_clocks(t_w as usize);
                } else {
                    // host-side write while emulation is stopped in the middle of the frame: the machine
                    // first executes up to the write instant (one idle instruction after the clock jump)
                    ctx.probe("beam_host_write");
                    e.verif_set_frame_clocks(t_w as usize);
                    step_public(&mut e).map_err(|x| Fail::new("C08.step", "", x))?;
                    if pg_when == 2 {
                        e.verif_bus().write_io(0x7FFD, pg_val);
                    }
                    if writer == 1 {
                        e.execute_poke(Pokes(vec![PokeAction::mem(0x4000 + off as u16, new)]));
                    } else {
                        write_mem(&mut e, 0x4000 + off as u16, &[new]);
                    }
                    if pg_when == 1 {
                        e.verif_bus().write_io(0x7FFD, pg_val);
                    }
                }
                run_frames(&mut e, 1).map_err(|x| Fail::new("C08.run", "", x))?;
                let mut mem_old = s2.clone();
                let mut mem_new = s2.clone();
                mem_new[off] = new;
                mem_old[off] = old;
                let mut exp_now = screen::decode(if before { &mem_new } else { &mem_old }, false);
                if inside {
                    ctx.probe("beam_inside_attribute_row");
                    // per pixel line of the cell: new colours when its fetch lies two lines or more after the
                    // write, old ones when two lines or more before it, either in between
                    let (d_old, d_new) = (screen::decode(&mem_old, false), screen::decode(&mem_new, false));
                    let got = &e.screen_buffer().px;
                    for yy in y_first..=y_last {
                        let t_line = first + yy as u64 * line_t + col as u64 * 4;
                        for x in col * 8..col * 8 + 8 {
                            let i = yy * 256 + x;
                            exp_now[i] = if t_line >= t_w + 2 * line_t {
                                d_new[i]
                            } else if t_line + 2 * line_t <= t_w {
                                d_old[i]
                            } else {
                                got[i]
                            };
                        }
                    }
                } else if before {
                    ctx.probe("beam_before");
                } else {
                    ctx.probe("beam_after");
                }
                if exp_now != e.screen_buffer().px {
                    return Err(Fail::new(
                        "C08.beam_relative",
                        &format!("before={},attr={},writer={},inside={}", before as u8, is_attr as u8, sc.get("writer"), inside as u8),
                        if inside {
                            format!("the attribute of row {} column {} changed at T={} while the beam was on pixel line {} of that row: a pixel line two or more lines away from the beam shows the wrong colours in that frame", y / 8, col, t_w, lines % 8)
                        } else {
                            format!("a byte at line {} column {} changed {} lines {} the beam position (T={}) {} in the frame in which it was written", y, col, lines, if before { "before" } else { "after" }, t_w, if before { "did not appear" } else { "already appeared" })
                        },
                    ));
                }
                run_frames(&mut e, 1).map_err(|x| Fail::new("C08.run", "", x))?;
                if screen::decode(&mem_new, false) != e.screen_buffer().px {
                    return Err(Fail::new("C08.beam_relative_next", &format!("before={},attr={}", before as u8, is_attr as u8), "the changed byte is not shown in the following frame".into()));
                }
                let mut h = Fnv::new();
                h.u8(2);
                h.u8(m128 as u8);
                h.u8(before as u8);
                h.u8(is_attr as u8);
                h.u64((y / 64) as u64);
                ctx.cover(h.get());
                ctx.units += 1;
                ctx.sim_t += 4 * cfg.frame_len() as u64;
            }
        }
        Ok(())
    }
}

/// make sure the CPU idles (loaders may have moved PC); keeps everything else
fn idle_cpu_keep(e: &mut Emu) {
    write_mem(e, IDLE, &[0xF3, 0x18, 0xFE]);
    let mut st = cpu_state(e);
    st.pc = IDLE;
    st.iff1 = false;
    st.iff2 = false;
    st.halted = false;
    st.to_impl(e.verif_cpu());
}
