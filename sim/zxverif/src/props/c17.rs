//! C17 — input ports reflect exactly the controls held, for every event history.
//! World B: seeded histories of key / compound / Sinclair / Kempston / mouse events; after every
//! event the ports are read back by `IN A,(C)` executed by the emulated CPU and compared with the
//! `RefInputs` set model.

use crate::cpustate::CpuState;
use crate::inputs::*;
use crate::machine::*;
use crate::prng::{Fnv, Rng};
use crate::runner::{Fail, Property, RunCtx, Tier};
use crate::scenario::Scenario;

pub struct C17;

#[derive(Clone)]
struct RefInputs {
    keys: [bool; 40],
    compound: [bool; 7],
    /// matrix positions held by the Sinclair source under the property's mapping / the known alternative
    sinclair: [bool; 40],
    sinclair_alt: [bool; 40],
    kempston: u8,
    buttons: u8, // held set, bit per button
    wheel: i64,
    x: i64,
    y: i64,
    /// alternative mapping of Sinclair joystick 2 'down' (known finding): key 2 instead of key 3
    s2_down_alt: bool,
}

impl Default for RefInputs {
    fn default() -> Self {
        RefInputs { keys: [false; 40], compound: [false; 7], sinclair: [false; 40], sinclair_alt: [false; 40], kempston: 0, buttons: 0, wheel: 0, x: 0, y: 0, s2_down_alt: false }
    }
}

impl RefInputs {
    /// which sources hold matrix position p
    fn holders(&self, p: usize) -> (bool, bool, bool) {
        let k = self.keys[p];
        let any_comp = self.compound.iter().any(|&c| c);
        let c = (p == CAPS_POS && any_comp) || (0..7).any(|i| self.compound[i] && COMPOUND_POS[i] == p);
        let s = if self.s2_down_alt { self.sinclair_alt[p] } else { self.sinclair[p] };
        (k, c, s)
    }
    fn row_bits(&self, row: usize) -> u8 {
        let mut v = 0x1Fu8;
        for bit in 0..5 {
            let (k, c, s) = self.holders(row * 5 + bit);
            if k || c || s {
                v &= !(1 << bit);
            }
        }
        v
    }
    fn scan(&self, selector: u8) -> u8 {
        let mut v = 0x1F;
        for row in 0..8 {
            if selector & (1 << row) == 0 {
                v &= self.row_bits(row);
            }
        }
        v
    }
}

fn cpu_in(e: &mut Emu, port: u16) -> Result<u8, Fail> {
    let mut st = CpuState::default();
    st.pc = 0x8000;
    st.sp = 0x9000;
    st.bc = port;
    st.to_impl(e.verif_cpu());
    step_public(e).map_err(|x| Fail::new("C17.step", "", x))?;
    Ok((cpu_state(e).af >> 8) as u8)
}

impl Property for C17 {
    fn id(&self) -> &'static str {
        "C17"
    }
    fn runs(&self, tier: Tier) -> u64 {
        match tier {
            Tier::Quick => 8_000,
            Tier::Thorough => 200_000,
        }
    }
    fn rule(&self) -> &'static str {
        "seeded histories (20..300 events) over 40 keys, 7 compound keys, 2x5 Sinclair controls, 8 Kempston bits, 4 mouse buttons, wheel and motion deltas (incl. +-127/-128), biased to overlap several sources on one matrix position, double presses and releases of unheld controls; after every event a scan by IN A,(C) through the emulated CPU of seeded half-row selectors, 0x1F and the mouse ports; distinct = (matrix position, set of holding sources, selector class) + (device, value class) Long bursts (1 in 90 events): 258..560 equal motion events of +-127, or exactly 255..257 / 511..513 / 768 key events between two scans ending in a state change."
    }
    fn state_measure(&self) -> &'static str {
        "distinct (matrix row, 5-bit row value, multi-source overlap present) combinations read back"
    }
    fn real_components(&self) -> Vec<&'static str> {
        vec!["Emulator::send_key/send_compound_key/send_sinclair_key/send_kempston_key/send_mouse_*", "ZXController::read_io (keyboard matrix AND, Kempston, mouse ports)", "Z80 IN A,(C)"]
    }
    fn stub_components(&self) -> Vec<&'static str> {
        vec!["RefInputs set model", "host event source (seeded history)"]
    }
    fn assumptions(&self) -> Vec<&'static str> {
        vec!["only bits 0-4 of the ULA read are compared here (EAR bit 6 belongs to C07/C11)", "mouse wheel and X/Y are compared as deltas from the first read (mod 16 / mod 256)"]
    }
    fn expected_probes(&self) -> Vec<&'static str> {
        vec!["overlap_two_sources", "release_unheld", "double_press", "caps_kept_by_other_compound", "multi_row_selector", "mouse_extreme_delta", "kempston_read", "mouse_read", "machine_without_embedded_rom", "host_action_between_events", "tape_inserted_with_autoload", "other_instances_alive", "scenario_in_a_process_of_its_own"]
    }

    fn gen(&self, rng: &mut Rng, tier: Tier, idx: u64) -> Scenario {
        let mut sc = Scenario::new();
        sc.set("m128", rng.bool() as i64);
        sc.set("mouse", rng.chance(3, 4) as i64);
        sc.set("kempston", rng.chance(7, 8) as i64);
        sc.set("no_rom", rng.chance(1, 4) as i64);
        sc.set("others", if rng.chance(1, 4) { rng.range(1, 1000) } else { 0 });
        sc.set("fresh", (idx % 1000 == 333) as i64);
        if idx % 1000 == 333 {
            sc.set("kempston", 1);
            sc.set("mouse", 1);
        }
        sc.set("autoload", rng.chance(1, 2) as i64);
        let host_actions = rng.chance(1, 3);
        let avoid_known = idx % 4 == 3;
        sc.set("avoid_known", avoid_known as i64);
        let n = if tier == Tier::Quick { rng.range(20, 120) } else { rng.range(20, 300) };
        // hot positions: number row keys 0..9 are shared by keys, compound keys and Sinclair controls
        for _ in 0..n {
            let kind = *rng.pick(&[0i64, 0, 0, 1, 1, 2, 2, 2, 3, 4, 5, 6]);
            let pressed = rng.chance(3, 5) as i64;
            let a = match kind {
                0 => {
                    if rng.chance(2, 3) {
                        *rng.pick(&[0i64, 15, 16, 17, 18, 19, 20, 21, 22, 23, 24, 35])
                    } else {
                        rng.range(0, 39)
                    }
                }
                1 => rng.range(0, 6),
                2 => {
                    let mut v = rng.range(0, 9);
                    if avoid_known && v == 7 {
                        v = 8; // joystick 2 'down' (index 5+2) is a known finding: excluded in this mode
                    }
                    v
                }
                3 => rng.range(0, 7),
                4 => rng.range(0, 3),
                5 => rng.range(0, 1),
                _ => *rng.pick(&[0i64, 1, -1, 5, -7, 127, -128, 100, -100]),
            };
            let b = if kind == 6 { *rng.pick(&[0i64, 1, -1, 9, -3, 127, -128, 64]) } else { pressed };
            sc.op("ev", &[kind, a, b]);
            // counters are read modulo 16 / 256: now and then a burst of equal events takes one of them
            // round its range
            if (kind == 5 || kind == 6) && rng.chance(1, 12) {
                for _ in 0..rng.range(17, 40) {
                    sc.op("ev", &[kind, a, b]);
                }
            }
            // wider counters behind the 8-bit ports / per-event revision stamps: a long run of travel in one
            // direction (beyond 16-bit totals), or exactly 255..257 / 511..513 key events between two scans with
            // a state change at the end
            if rng.chance(1, 90) {
                if rng.bool() {
                    let d = *rng.pick(&[127i64, -128, 127, -127, 100]);
                    let (dx, dy) = match rng.below(3) {
                        0 => (d, 0),
                        1 => (0, d),
                        _ => (d, -d.max(-127)),
                    };
                    for _ in 0..rng.range(258, 560) {
                        sc.op("ev", &[6, dx, dy]);
                    }
                } else {
                    let total = *rng.pick(&[255i64, 256, 256, 257, 511, 512, 512, 513, 768]);
                    let k = *rng.pick(&[0i64, 1, 2]);
                    let (key, last) = match k {
                        0 => (rng.range(0, 39), rng.range(0, 39)),
                        1 => (rng.range(0, 6), rng.range(0, 6)),
                        _ => (rng.range(0, 4), 8),
                    };
                    // the key toggles (it ends released when the number of toggles is even), then one more key goes
                    // down or up: the matrix differs from the one of the previous scan
                    for i in 0..total - 1 {
                        sc.op("ev", &[k, key, (i % 2 == 0) as i64]);
                    }
                    sc.op("ev", &[*rng.pick(&[0i64, 1, 2]), last, rng.chance(3, 4) as i64]);
                }
            }
            if host_actions && rng.chance(1, 10) {
                sc.op("host", &[rng.range(0, 4), rng.range(0, 3)]);
            }
            // scans
            let scans = rng.range(1, 3);
            for _ in 0..scans {
                let sel = match rng.below(4) {
                    0 => !(1u8 << rng.below(8)),
                    1 => 0x00,
                    2 => rng.u8(),
                    _ => !(1u8 << rng.below(8)) & !(1u8 << rng.below(8)),
                };
                sc.op("scan", &[sel as i64]);
            }
            if rng.chance(1, 3) {
                sc.op("joy", &[]);
            }
            if rng.chance(1, 3) {
                sc.op("mouse", &[rng.range(0, 255)]);
            }
        }
        sc
    }

    fn exec(&self, sc: &Scenario, ctx: &mut RunCtx) -> Result<(), Fail> {
        let m128 = sc.get("m128") != 0;
        let mouse = sc.get("mouse") != 0;
        let kemp = sc.get("kempston") != 0;
        // machines built without the embedded ROM (the host supplies its own later, or none at all: the stub
        // runs from RAM) have the same devices; autoload makes load_tape() restore a loader snapshot
        let no_rom = sc.get("no_rom") != 0;
        let autoload = sc.get("autoload") != 0;
        if no_rom {
            ctx.probe("machine_without_embedded_rom");
        }
        let cfg = MCfg { m128, kempston: kemp, mouse, rom: !no_rom, autoload, ..Default::default() };
        // other emulator instances in the same process are other machines: one without any input device that has
        // polled the device ports before this one was built, and one with all devices whose user holds other
        // controls while this one runs
        if sc.get("fresh") != 0 {
            // (in a process of its own, so that the device-less machine really is the first to touch the ports)
            ctx.probe("scenario_in_a_process_of_its_own");
            let mut child = sc.clone();
            child.set("fresh", 0);
            if child.get("others") == 0 {
                child.set("others", 77);
            }
            let r = crate::runner::run_in_fresh_process("C17", &child).map_err(|x| Fail::new("C17.harness_fresh_process", "", x))?;
            if let Some((site, witness, detail)) = r.fails.into_iter().next() {
                return Err(Fail::new(&site, &format!("{},own_process=1", witness), format!("in a process of its own, after a machine without input devices polled the ports: {}", detail)));
            }
            return Ok(());
        }
        let others = sc.get("others") != 0;
        let mut other: Option<Emu> = None;
        if others {
            ctx.probe("other_instances_alive");
            let mut bare = new_emu(&MCfg { m128: !m128, ..Default::default() });
            write_mem(&mut bare, 0x8000, &[0xED, 0x78]);
            for port in [0x001Fu16, 0xFADF, 0xFBDF, 0xFFDF, 0x7FFE, 0x00DF] {
                let _ = cpu_in(&mut bare, port)?;
            }
            let mut o = new_emu(&MCfg { m128, kempston: true, mouse: true, ..Default::default() });
            o.send_kempston_key(KEMPSTON[(sc.get("others") as usize) % 8], true);
            o.send_kempston_key(KEMPSTON[(sc.get("others") as usize / 8) % 8], true);
            o.send_mouse_button(MOUSE_BUTTONS[(sc.get("others") as usize) % 4], true);
            o.send_mouse_pos_diff(33, -77);
            o.send_key(KEYS[(sc.get("others") as usize) % 40], true);
            other = Some(o);
        }
        let mut e = new_emu(&cfg);
        write_mem(&mut e, 0x8000, &[0xED, 0x78]); // IN A,(C)
        let mut m = RefInputs::default();
        let mut mouse_base: Option<(u8, u8, u8)> = None; // first read (buttons port, x, y)
        let mut m_at_base = (0i64, 0i64, 0i64);
        for op in &sc.ops {
            match op.k.as_str() {
                "ev" => {
                    let (kind, a, b) = (op.arg(0), op.arg(1), op.arg(2));
                    if let Some(o) = other.as_mut() {
                        // the other machine's user is busy too
                        if (a + b + kind) % 3 == 0 {
                            o.send_kempston_key(KEMPSTON[(a.rem_euclid(8)) as usize], b != 0);
                            o.send_mouse_pos_diff((a % 100) as i8, (b % 50) as i8);
                            o.send_mouse_button(MOUSE_BUTTONS[(a.rem_euclid(4)) as usize], b == 0);
                        }
                    }
                    let pressed = b != 0;
                    match kind {
                        0 => {
                            let i = (a.rem_euclid(40)) as usize;
                            if pressed && m.keys[i] {
                                ctx.probe("double_press");
                            }
                            if !pressed && !m.keys[i] {
                                ctx.probe("release_unheld");
                            }
                            m.keys[i] = pressed;
                            e.send_key(KEYS[i], pressed);
                        }
                        1 => {
                            let i = a.rem_euclid(7) as usize;
                            if !pressed && m.compound[i] && m.compound.iter().filter(|&&c| c).count() > 1 {
                                ctx.probe("caps_kept_by_other_compound");
                            }
                            if !pressed && !m.compound[i] {
                                ctx.probe("release_unheld");
                            }
                            m.compound[i] = pressed;
                            e.send_compound_key(COMPOUND[i], pressed);
                        }
                        2 => {
                            let i = a.rem_euclid(10) as usize;
                            m.sinclair[SINCLAIR_POS[i / 5][i % 5]] = pressed;
                            let alt_pos = if i == 7 { 16 } else { SINCLAIR_POS[i / 5][i % 5] };
                            m.sinclair_alt[alt_pos] = pressed;
                            e.send_sinclair_key(SINCLAIR_NUM[i / 5], SINCLAIR_KEYS[i % 5], pressed);
                        }
                        3 => {
                            let i = a.rem_euclid(8) as usize;
                            if kemp {
                                if pressed {
                                    m.kempston |= 1 << i;
                                } else {
                                    m.kempston &= !(1 << i);
                                }
                            }
                            e.send_kempston_key(KEMPSTON[i], pressed);
                        }
                        4 => {
                            let i = a.rem_euclid(4) as usize;
                            if mouse {
                                if pressed {
                                    m.buttons |= 1 << i;
                                } else {
                                    m.buttons &= !(1 << i);
                                }
                            }
                            e.send_mouse_button(MOUSE_BUTTONS[i], pressed);
                        }
                        5 => {
                            let i = a.rem_euclid(2) as usize;
                            if mouse {
                                m.wheel += if i == 0 { 1 } else { -1 };
                            }
                            e.send_mouse_wheel(WHEEL[i]);
                        }
                        _ => {
                            let dx = a.clamp(-128, 127);
                            let dy = b.clamp(-128, 127);
                            if dx.abs() >= 127 || dy.abs() >= 127 {
                                ctx.probe("mouse_extreme_delta");
                            }
                            if mouse {
                                m.x += dx;
                                m.y -= dy;
                            }
                            e.send_mouse_pos_diff(dx as i8, dy as i8);
                        }
                    }
                    ctx.units += 1;
                }
                "host" => {
                    // host actions that are no input events: what the controls hold stays what it is
                    use rustzx_core::host::{Screen, Snapshot, Tape};
                    ctx.probe("host_action_between_events");
                    let r: Result<(), String> = match op.arg(0).rem_euclid(5) {
                        0 => {
                            if autoload {
                                ctx.probe("tape_inserted_with_autoload");
                            }
                            let tap = zxref::tape::make_tap(&[zxref::tape::std_block(0xFF, &[1, 2, 3])]);
                            e.load_tape(Tape::Tap(crate::host::AnyAsset::Sim(crate::host::SimAsset::plain(tap)))).map_err(|x| format!("load_tape: {:?}", x))
                        }
                        1 => {
                            let sn = crate::snapfmt::SnapState::new(m128);
                            let bytes = if m128 { crate::snapfmt::write_sna128(&sn) } else { crate::snapfmt::write_sna48(&sn) };
                            e.load_snapshot(Snapshot::Sna(crate::host::SimAsset::plain(bytes))).map_err(|x| format!("load_snapshot: {:?}", x))
                        }
                        2 => {
                            let _ = e.load_snapshot(Snapshot::Sna(crate::host::SimAsset::plain(vec![0u8; 77])));
                            Ok(())
                        }
                        3 => e.load_screen(Screen::Scr(crate::host::SimAsset::plain(vec![0x55u8; 6912]))).map_err(|x| format!("load_screen: {:?}", x)),
                        _ => {
                            e.set_fast_load(op.arg(1) & 1 == 1);
                            e.set_sound(op.arg(1) & 2 == 2);
                            Ok(())
                        }
                    };
                    r.map_err(|x| Fail::new("C17.host_action", "", x))?;
                    write_mem(&mut e, 0x8000, &[0xED, 0x78]);
                }
                "scan" => {
                    let sel = op.arg(0) as u8;
                    let port = (sel as u16) << 8 | 0xFE;
                    let got = cpu_in(&mut e, port)? & 0x1F;
                    let mut exp = m.scan(sel);
                    if got != exp && !m.s2_down_alt {
                        // does the known alternative mapping explain the whole scan?
                        let mut alt = m.clone();
                        alt.s2_down_alt = true;
                        if alt.scan(sel) == got {
                            ctx.report(Fail::new(
                                "C17.sinclair_map",
                                "joy=2,key=Down",
                                format!("selector {:02X} reads {:05b}; Sinclair joystick 2 'down' is held and shows as key 2 instead of key 3", sel, got),
                            ));
                            m.s2_down_alt = true;
                            exp = got;
                        }
                    }
                    if sel.count_zeros() > 1 {
                        ctx.probe("multi_row_selector");
                    }
                    if got != exp {
                        // find the offending position for the witness
                        let mut pos = 99;
                        let mut holders = (false, false, false);
                        for row in 0..8 {
                            if sel & (1 << row) == 0 {
                                for bit in 0..5 {
                                    let h = m.holders(row * 5 + bit);
                                    let held = h.0 || h.1 || h.2;
                                    if ((got >> bit) & 1 == 0) != held && ((exp >> bit) & 1) != ((got >> bit) & 1) {
                                        pos = row * 5 + bit;
                                        holders = h;
                                    }
                                }
                            }
                        }
                        return Err(Fail::new(
                            "C17.matrix",
                            &format!("key={},comp={},sinclair={}", holders.0 as u8, holders.1 as u8, holders.2 as u8),
                            format!("IN from {:04X} reads bits {:05b}, the controls held give {:05b} (matrix position {}: key held {}, compound held {}, Sinclair held {})", port, got, exp, pos, holders.0, holders.1, holders.2),
                        ));
                    }
                    for row in 0..8 {
                        if sel & (1 << row) == 0 {
                            let mut overlap = false;
                            for bit in 0..5 {
                                let h = m.holders(row * 5 + bit);
                                let n = h.0 as u8 + h.1 as u8 + h.2 as u8;
                                if n >= 2 {
                                    overlap = true;
                                    ctx.probe("overlap_two_sources");
                                }
                                let mut hh = Fnv::new();
                                hh.u64((row * 5 + bit) as u64);
                                hh.u8(h.0 as u8 | (h.1 as u8) << 1 | (h.2 as u8) << 2);
                                hh.u8((sel.count_zeros() > 1) as u8);
                                ctx.cover(hh.get());
                            }
                            let mut hs = Fnv::new();
                            hs.u64(row as u64);
                            hs.u8(m.row_bits(row));
                            hs.u8(overlap as u8);
                            ctx.state(hs.get());
                        }
                    }
                    ctx.sim_t += 12;
                }
                "joy" => {
                    if !kemp {
                        continue;
                    }
                    ctx.probe("kempston_read");
                    let got = cpu_in(&mut e, 0x001F)?;
                    if got != m.kempston {
                        return Err(Fail::new(
                            "C17.kempston",
                            &format!("mouse={}", mouse as u8),
                            format!("IN from 001F reads {:02X}, the Kempston controls held give {:02X} (mouse enabled: {})", got, m.kempston, mouse),
                        ));
                    }
                    let mut hh = Fnv::new();
                    hh.u8(0xAA);
                    hh.u8(m.kempston);
                    ctx.cover(hh.get());
                }
                "mouse" => {
                    if !mouse {
                        continue;
                    }
                    ctx.probe("mouse_read");
                    // canonical ports, or aliases keeping A0=1, A5=0, A7=1 and the A8/A10 selection
                    let hi_noise = (op.arg(0) as u16 & 0xFA) << 8;
                    let alias = op.arg(0) & 1 != 0;
                    let mk = |base: u16| -> u16 {
                        if alias {
                            (base & 0x05FF) | hi_noise
                        } else {
                            base
                        }
                    };
                    let b = cpu_in(&mut e, mk(0xFADF))?;
                    let x = cpu_in(&mut e, mk(0xFBDF))?;
                    let y = cpu_in(&mut e, mk(0xFFDF))?;
                    let exp_btn = !m.buttons & 0x0F;
                    if b & 0x0F != exp_btn {
                        return Err(Fail::new("C17.mouse_buttons", "", format!("mouse button port reads {:02X}, expected low nibble {:X} (active low)", b, exp_btn)));
                    }
                    match mouse_base {
                        None => {
                            mouse_base = Some((b, x, y));
                            m_at_base = (m.wheel, m.x, m.y);
                        }
                        Some((b0, x0, y0)) => {
                            let dw = (m.wheel - m_at_base.0).rem_euclid(16) as u8;
                            let dx = (m.x - m_at_base.1).rem_euclid(256) as u8;
                            let dy = (m.y - m_at_base.2).rem_euclid(256) as u8;
                            if (b >> 4).wrapping_sub(b0 >> 4) & 0x0F != dw {
                                return Err(Fail::new("C17.mouse_wheel", "", format!("wheel counter moved from {:X} to {:X}, expected a change of {} (mod 16)", b0 >> 4, b >> 4, dw)));
                            }
                            if x.wrapping_sub(x0) != dx {
                                return Err(Fail::new("C17.mouse_x", "", format!("X counter moved from {:02X} to {:02X}, expected +{} (mod 256)", x0, x, dx)));
                            }
                            if y.wrapping_sub(y0) != dy {
                                return Err(Fail::new("C17.mouse_y", "", format!("Y counter moved from {:02X} to {:02X}, expected +{} (mod 256; vertical delta is subtracted)", y0, y, dy)));
                            }
                        }
                    }
                    let mut hh = Fnv::new();
                    hh.u8(0xBB);
                    hh.u8(exp_btn);
                    hh.u8(alias as u8);
                    ctx.cover(hh.get());
                }
                _ => {}
            }
        }
        Ok(())
    }
}
