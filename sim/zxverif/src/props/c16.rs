//! C16 — emulation is deterministic and independent of how the host drives it.
//! One scenario (machine + content + frame-keyed input script) is executed under several
//! *drivings*: call slicing, speed mode with scripted stopwatch readings, breakpoint stops,
//! sound on/off, drain policy, asset implementation. State/video/audio hashes must agree.

use crate::host::*;
use crate::inputs::*;
use crate::machine::*;
use crate::prng::{Fnv, Rng};
use crate::runner::{Fail, Property, RunCtx, Tier};
use crate::scenario::{Op, Scenario};
use rustzx_core::host::{Snapshot, Tape};
use rustzx_core::poke::{Poke, PokeAction};
use rustzx_core::{EmulationMode, EmulationStopReason};
use rustzx_z80::Z80Bus;
use std::time::Duration;
use zxref::tape;

pub struct C16;

struct OnePoke([PokeAction; 1]);
impl Poke for OnePoke {
    fn actions(&self) -> &[PokeAction] {
        &self.0
    }
}

pub const REPO_SNAS_48K: [&str; 4] = ["kempston_joy.48k.sna.gz", "keyboard.48k.sna.gz", "mouse.48k.sna.gz", "sound.48k.sna.gz"];
pub const REPO_SNAS_128K: [&str; 2] = ["sound.128k.sna.gz", "diag_rom_v56_started.128k.sna.gz"];

pub fn read_repo_gz(name: &str) -> Option<Vec<u8>> {
    use std::io::Read;
    let f = std::fs::File::open(format!("/repo/rustzx-test/test_data/{}", name)).ok()?;
    let mut v = vec![];
    flate2::read::GzDecoder::new(f).read_to_end(&mut v).ok()?;
    Some(v)
}

pub fn apply_event(e: &mut Emu, kind: i64, a: i64, b: i64, tape_img: &[u8], asset_kind: i64, chunk: usize) -> Result<(), String> {
    match kind {
        0 => e.send_key(KEYS[(a as usize) % 40], b != 0),
        1 => e.send_compound_key(COMPOUND[(a as usize) % 7], b != 0),
        2 => e.send_sinclair_key(SINCLAIR_NUM[(a as usize / 5) % 2], SINCLAIR_KEYS[a as usize % 5], b != 0),
        3 => e.send_kempston_key(KEMPSTON[(a as usize) % 8], b != 0),
        4 => e.send_mouse_button(MOUSE_BUTTONS[(a as usize) % 4], b != 0),
        5 => e.send_mouse_wheel(WHEEL[(a as usize) % 2]),
        6 => e.send_mouse_pos_diff(a as i8, b as i8),
        7 => e.play_tape(),
        8 => e.stop_tape(),
        9 => e.rewind_tape().map_err(|x| format!("rewind_tape: {:?}", x))?,
        10 => e.execute_poke(OnePoke([PokeAction::mem(a as u16, b as u8)])),
        11 => e.load_tape(Tape::Tap(make_asset(asset_kind, tape_img, chunk))).map_err(|x| format!("load_tape: {:?}", x))?,
        12 => {
            // a (second) snapshot loaded at a frame boundary in the middle of the run
            let names: &[&str] = if b != 0 { &REPO_SNAS_128K } else { &REPO_SNAS_48K };
            let name = names[(a as usize) % names.len()];
            if let Some(bytes) = read_repo_gz(name) {
                e.load_snapshot(Snapshot::Sna(make_asset(asset_kind, &bytes, chunk))).map_err(|x| format!("load_snapshot: {:?}", x))?;
            }
        }
        13 => e.set_fast_load(a != 0),
        _ => {}
    }
    Ok(())
}

struct Driving {
    mode: i64,
    p1: i64,
    p2: i64,
    asset_kind: i64,
    sound: bool,
    drain: i64,
    seed: u64,
    /// in-frame clock the machine starts with (frame phase; the same for every driving of a scenario)
    r0: usize,
    /// calibration run: stop at the first arrival at 0x056A and report where in the frame it happened
    calib: bool,
}

struct Trace {
    hashes: Vec<(usize, u64)>,
    audio: Option<u64>,
    samples: usize,
    /// AY register file as the CPU would read it back at the end of the run (selected register first)
    ay_final: u64,
    /// calibration: (frames completed, in-frame clock) at the first arrival at 0x056A
    hit: Option<(usize, usize)>,
}

impl C16 {
    fn run_driving(&self, sc: &Scenario, d: &Driving, ctx: &mut RunCtx) -> Result<Trace, Fail> {
        let m128 = sc.get("m128") != 0;
        let k = sc.get("frames").clamp(1, 2000) as usize;
        // "sound off" is reached either through the settings or, in half of those drivings, by switching
        // sound generation off and on through set_sound() at host-call boundaries; the same goes for the
        // fast-load setting, which may be given in the settings or applied by set_fast_load() afterwards
        let sound_toggle = !d.sound && (d.seed >> 20) & 1 == 1;
        let fastload = sc.get("fastload") != 0;
        let fastload_late = (d.seed >> 21) & 1 == 1;
        // a host that has no debugger at all (no debug interface installed) in a part of the drivings that never stop
        let no_debug = d.mode != 3 && !d.calib && (d.seed >> 22) & 1 == 1;
        let cfg = MCfg { m128, kempston: true, mouse: sc.get("mouse") != 0, ay: true, ay_mode: 1, sound: d.sound || sound_toggle, fastload: if fastload_late { !fastload } else { fastload }, debug: !no_debug, ..Default::default() };
        let mut e = new_emu(&cfg);
        if no_debug {
            ctx.probe("host_without_debug_interface");
        }
        if fastload_late {
            ctx.probe("fastload_set_after_construction");
            e.set_fast_load(fastload);
        }
        if sound_toggle {
            ctx.probe("sound_toggled_by_setter");
            e.set_sound(false);
        }
        let big = sc.get("big") != 0 && sc.get("content") == 3;
        let tape_img = if big {
            // a tape longer than 256 KiB (seven blocks of 40000 bytes), generated from the content seed
            let mut r = Rng::new(sc.get("content_seed") as u64 ^ 0xB16);
            let blocks: Vec<Vec<u8>> = (0..7).map(|k| tape::std_block(0xFF, &{ let mut v = r.bytes(40000); v[0] = k as u8; v })).collect();
            tape::make_tap(&blocks)
        } else {
            sc.ops.iter().find(|o| o.k == "tape").map(|o| o.b.clone()).unwrap_or_default()
        };
        // read sizes of the chunking asset: mostly small (short reads inside every buffer refill)
        let chunk = [1usize, 2, 3, 5, 7, 13, 23, 32, 46, 64, 100, 127, 129, 1000, 4096, 40000][(d.seed % 16) as usize];
        // content
        match sc.get("content") {
            1 => {
                let mut r = Rng::new(sc.get("content_seed") as u64);
                for p in 0..ram_pages(m128) {
                    r.fill(e.verif_ram_page(p));
                }
                e.verif_refresh_screen();
                let st = crate::cpustate::CpuState::random(&mut r);
                let mut st = st;
                st.pc = 0x8000 | (st.pc & 0x3FFF);
                st.to_impl(e.verif_cpu());
            }
            3 => {
                // a program that calls the ROM tape loader twice (fast load trap / real-time loader)
                let mut r = Rng::new(sc.get("content_seed") as u64);
                for p in 0..ram_pages(m128) {
                    r.fill(e.verif_ram_page(p));
                }
                e.verif_refresh_screen();
                let (blocks, _) = tape::tap_blocks(&tape_img);
                let mut prog: Vec<u8> = vec![];
                if m128 {
                    prog.extend_from_slice(&[0x01, 0xFD, 0x7F, 0x3E, 0x10, 0xED, 0x79]); // LD BC,7FFD; LD A,10; OUT (C),A
                }
                if big {
                    ctx.probe("tape_longer_than_256k");
                    // program and stack below the load area 0x6000..0xFC40, every block loaded over the previous one
                    // one request per frame (EI ; HALT between them), over and over: a host rewind on the way makes the
                    // following requests get the first blocks again
                    let head = prog.len();
                    for _ in 0..7 {
                        prog.extend_from_slice(&[0xDD, 0x21, 0x00, 0x60, 0x11, 0x40, 0x9C, 0x3E, 0xFF, 0x37, 0xCD, 0x56, 0x05, 0xFB, 0x76]);
                    }
                    let back = 0x5D00u16 + head as u16;
                    prog.extend_from_slice(&[0xC3, back as u8, (back >> 8) as u8]);
                    write_mem(&mut e, 0x5D00, &prog);
                    let mut st = crate::cpustate::CpuState::default();
                    st.pc = 0x5D00;
                    st.sp = 0x5FF0;
                    st.im = 1;
                    st.to_impl(e.verif_cpu());
                    prog.clear();
                }
                let mut dest = 0x9000u16;
                for b in blocks.iter().take(if big { 0 } else { 3 }) {
                    let len = b.len().saturating_sub(2) as u16;
                    let flag = b.first().copied().unwrap_or(0xFF);
                    prog.extend_from_slice(&[0xDD, 0x21, dest as u8, (dest >> 8) as u8]); // LD IX,dest
                    prog.extend_from_slice(&[0x11, len as u8, (len >> 8) as u8]); // LD DE,len
                    prog.extend_from_slice(&[0x3E, flag, 0x37, 0xCD, 0x56, 0x05]); // LD A,flag; SCF; CALL 0556
                    dest = dest.wrapping_add(0x400);
                }
                if !big {
                    prog.extend_from_slice(&[0x18, 0xFE]); // JR $
                    write_mem(&mut e, 0x8000, &prog);
                    let mut st = crate::cpustate::CpuState::default();
                    st.pc = 0x8000;
                    st.sp = 0x8F00;
                    st.im = 1;
                    st.to_impl(e.verif_cpu());
                }
            }
            2 => {
                let names: &[&str] = if m128 { &REPO_SNAS_128K } else { &REPO_SNAS_48K };
                let name = names[(sc.get("content_seed") as usize) % names.len()];
                let Some(bytes) = read_repo_gz(name) else {
                    return Err(Fail::new("C16.harness_asset", "", format!("cannot read repo asset {}", name)));
                };
                if let Err(x) = e.load_snapshot(Snapshot::Sna(make_asset(d.asset_kind, &bytes, chunk))) {
                    return Err(Fail::new("C16.load", &format!("asset_kind={}", d.asset_kind), format!("loading {} through asset kind {} failed: {:?}", name, d.asset_kind, x)));
                }
            }
            _ => {}
        }
        if sc.get("iso") >= 2 {
            // isolation runs: a program that looks at everything position- and model-dependent the machine offers -
            // the floating bus, the ULA port, the AY and joystick ports - and keeps what it saw in RAM
            let prog = [
                0xDB, 0xFF, 0x77, 0x2C, // IN A,(FF) ; LD (HL),A ; INC L
                0xDB, 0xFE, 0xAE, 0x77, 0x2C, // IN A,(FE) ; XOR (HL) ; LD (HL),A ; INC L
                0x01, 0xFD, 0xFF, 0xED, 0x78, 0x86, 0x77, 0x2C, // LD BC,FFFD ; IN A,(C) ; ADD A,(HL) ; LD (HL),A ; INC L
                0xDB, 0x1F, 0x86, 0x77, 0x2C, // IN A,(1F) ; ADD A,(HL) ; LD (HL),A ; INC L
                0x3A, 0x00, 0x40, 0x3C, 0x32, 0x00, 0x40, // LD A,(4000) ; INC A ; LD (4000),A  (contended access)
                0x01, 0xFF, 0x40, 0xED, 0x78, 0x86, 0x77, 0x2C, // LD BC,40FF ; IN A,(C) (port with a contended high byte) ; ADD A,(HL) ; LD (HL),A ; INC L
                0x18, 0xD9, // JR to the start
            ];
            write_mem(&mut e, 0x8000, &prog);
            let mut st = crate::cpustate::CpuState::default();
            st.pc = 0x8000;
            st.sp = 0x8F00;
            st.hl = 0x9000;
            st.im = 1;
            st.to_impl(e.verif_cpu());
            // ... started from an SZX snapshot of itself taken near the end of a frame (loaders are code too)
            let mut sn = crate::snapfmt::SnapState::new(m128);
            for b in 0..8u8 {
                if let Some(pg) = phys_page(m128, b) {
                    sn.banks[b as usize].copy_from_slice(e.verif_ram_page(pg));
                }
            }
            sn.cpu = cpu_state(&mut e);
            sn.port_7ffd = if m128 { 0x10 } else { 0 };
            sn.frame_t = cfg.frame_len() as u32 - 100;
            let bytes = crate::snapfmt::write_szx(&sn, &crate::snapfmt::SzxOptions::default());
            e.load_snapshot(Snapshot::Szx(make_asset(0, &bytes, 0))).map_err(|x| Fail::new("C16.load", "", format!("{:?}", x)))?;
        }
        if d.r0 > 0 {
            e.verif_set_frame_clocks(d.r0.min(cfg.frame_len() - 1));
        }
        // events sorted by frame
        let mut evs: Vec<&Op> = sc.ops.iter().filter(|o| o.k == "ev").collect();
        evs.sort_by_key(|o| o.arg(0));
        let mut ei = 0usize;
        let mut frame = 0usize;
        let mut trace = Trace { hashes: vec![], audio: None, samples: 0, ay_final: 0, hit: None };
        let mut audio_h = Fnv::new();
        let mut audio: Vec<(f32, f32)> = vec![];
        let mut drng = Rng::new(d.seed);
        let always_drain = d.drain == 0 && (d.mode == 0 || d.mode == 3) && !sound_toggle;
        // driving-specific set-up
        match d.mode {
            3 if d.calib => set_break_mode(&mut e, BreakMode::Set(vec![0x056A])),
            3 => set_break_mode(
                &mut e,
                if d.p1 == 1_000_001 {
                    BreakMode::Set(vec![0x056B, 0x0556, 0x053F, 0x8000, 0x0038])
                } else if d.p1 > 0 {
                    BreakMode::EveryNth(d.p1 as u64)
                } else {
                    BreakMode::Always
                },
            ),
            _ => set_break_mode(&mut e, BreakMode::Never),
        }
        while frame < k {
            if sound_toggle {
                e.set_sound(drng.bool());
            }
            // apply the events of this frame boundary
            let mut had_event = false;
            while ei < evs.len() && (evs[ei].arg(0) as usize) <= frame {
                let o = evs[ei];
                apply_event(&mut e, o.arg(1), o.arg(2), o.arg(3), &tape_img, d.asset_kind, chunk).map_err(|x| Fail::new("C16.event_err", "", x))?;
                ei += 1;
                had_event = true;
            }
            if had_event || frame == 0 {
                trace.hashes.push((frame, state_hash(&mut e, m128, true)));
            }
            let next_ev = if ei < evs.len() { (evs[ei].arg(0) as usize).min(k) } else { k };
            let room = next_ev.max(frame + 1) - frame;
            // one host call (or several for breakpoint stops) covering `n` frames
            let n = match d.mode {
                1 => (1 + drng.below(d.p1.max(1) as u64) as usize).min(room),
                2 => (1 + drng.below(d.p1.max(1) as u64) as usize).min(room),
                _ => 1,
            };
            match d.mode {
                0 | 3 => e.set_speed(EmulationMode::FrameCount(1)),
                1 => {
                    e.set_speed(EmulationMode::FrameCount(n));
                    ctx.fault("host_slice(n)");
                    // a frame-count request is not a timed one: whatever the host stopwatch reads (also far
                    // beyond the limit passed along), exactly n frames are emulated
                    if d.p2 != 0 {
                        ctx.fault("stopwatch_jump");
                        let readings: Vec<u64> = (0..n + 2).map(|_| *drng.pick(&[0u64, 999, 1001, 5_000_000, 3_600_000_000])).collect();
                        set_clock_script(ClockScript::List(readings));
                    }
                }
                _ => {
                    e.set_speed(EmulationMode::Max);
                    // stopwatch: the n-th end-of-frame check exceeds the limit; earlier readings are
                    // arbitrary below it (zero, jumping, non-monotone)
                    let limit_us = 1000u64;
                    let mut readings = vec![];
                    for _ in 0..n - 1 {
                        readings.push(match d.p2 {
                            0 => 0,
                            1 => drng.below(limit_us),
                            _ => *drng.pick(&[0u64, 999, 1, 500, 1000]),
                        });
                    }
                    readings.push(limit_us + 1 + drng.below(1_000_000));
                    set_clock_script(ClockScript::List(readings));
                    ctx.fault("speed_max(stop after k checks)");
                    if d.p2 != 0 {
                        ctx.fault("stopwatch_jump");
                    }
                }
            }
            let mut done = 0usize;
            let mut guard = 0u64;
            while done < n {
                let limit = if d.mode == 2 || (d.mode == 1 && d.p2 != 0) { Duration::from_micros(1000) } else { LONG };
                let r = e.emulate_frames(limit);
                guard += 1;
                match r {
                    Err(x) => {
                        if sc.get("zero_tail") != 0 {
                            // a tape image ending in an item of length zero may legitimately make the deck report an
                            // error: whatever happens must happen under every driving and asset implementation alike
                            let mut h = Fnv::new();
                            h.str(&format!("{:?}", x));
                            trace.hashes.push((usize::MAX, h.get()));
                            trace.hashes.push((usize::MAX - 1, state_hash(&mut e, m128, true)));
                            return Ok(trace);
                        }
                        return Err(Fail::new("C16.emulate_err", "", format!("emulate_frames failed at frame {}: {:?}", frame + done, x)));
                    }
                    Ok(info) => match info.stop_reason {
                        EmulationStopReason::Completed => done += if d.mode == 1 { n } else { 1 },
                        EmulationStopReason::Timeout => {
                            if d.mode != 2 {
                                return Err(Fail::new("C16.timeout", "", "Timeout stop reason outside Max mode".into()));
                            }
                            done += n;
                        }
                        EmulationStopReason::Breakpoint => {
                            ctx.fault("breakpoint_stop");
                            done += e.verif_passed_frames();
                            if d.calib {
                                trace.hit = Some((frame + done, e.verif_frame_clocks()));
                                return Ok(trace);
                            }
                        }
                    },
                }
                if guard > 50_000_000 {
                    return Err(Fail::new("C16.no_progress", "", "host loop made no progress".into()));
                }
            }
            if d.mode == 3 && done != n {
                return Err(Fail::new("C16.harness_frames", "", "frame accounting mismatch".into()));
            }
            frame += n;
            ctx.sim_t += (n * cfg.frame_len()) as u64;
            // drain policy at the host-visible boundary
            let drain_now = match d.drain {
                0 => true,
                1 => frame % (2 + d.p2.max(0) as usize) == 0,
                _ => false,
            };
            if drain_now {
                audio.clear();
                let got = drain_audio(&mut e, &mut audio);
                trace.samples += got;
                for s in &audio {
                    audio_h.u32(s.0.to_bits());
                    audio_h.u32(s.1.to_bits());
                }
            } else {
                ctx.fault("drain_skip");
            }
        }
        trace.hashes.push((k, state_hash(&mut e, m128, true)));
        {
            // CPU-visible AY state (read after everything else: the port reads advance the clock)
            let mut h = Fnv::new();
            h.u8(e.verif_bus().read_io(0xFFFD));
            for r in 0..16u8 {
                e.verif_bus().write_io(0xFFFD, r);
                h.u8(e.verif_bus().read_io(0xFFFD));
            }
            trace.ay_final = h.get();
        }
        if always_drain {
            trace.audio = Some(audio_h.get());
        }
        ctx.units += k as u64;
        Ok(trace)
    }
}

impl Property for C16 {
    fn id(&self) -> &'static str {
        "C16"
    }
    fn runs(&self, tier: Tier) -> u64 {
        match tier {
            Tier::Quick => 480,
            Tier::Thorough => 12_000,
        }
    }
    fn rule(&self) -> &'static str {
        "scenario = machine + initial content (ROM boot / random program / repository snapshot) + frame-keyed input script (keys, joysticks, mouse, deck commands, pokes, tape insertion) + K frames, executed under 3-5 drivings (FrameCount(1); FrameCount(n_i); Max mode with scripted stopwatch readings; breakpoint stops every n-th instruction with resume; sound off (by settings or toggled through set_sound at host-call boundaries); fast-load setting given in the settings or through set_fast_load; drain always/sometimes/never; asset delivered by BufferCursor / chunking asset / GzipAsset / FileAsset / 1-byte reads); distinct = (content kind, machine, driving mode, parameter bucket, asset kind, drain, sound) Drivings that never stop may have no debug interface at all; event 13 = set_fast_load between frames; event 12 = a second snapshot mid-run."
    }
    fn state_measure(&self) -> &'static str {
        "distinct full-state hashes (registers, hidden CPU state, all RAM, paging, clock, border, both frame buffers) observed at compared frame boundaries"
    }
    fn real_components(&self) -> Vec<&'static str> {
        vec!["rustzx_core::Emulator (emulate_frames, speed modes, breakpoints, events)", "ZXController + all devices", "Z80", "Tap", "sna loader", "rustzx_utils GzipAsset / FileAsset, rustzx_core BufferCursor"]
    }
    fn stub_components(&self) -> Vec<&'static str> {
        vec!["Host::EmulationStopwatch (scripted readings)", "Host::DebugInterface (every n-th instruction)", "Host::FrameBuffer (recording)", "chunking SimAsset", "audio consumer (drain policy)"]
    }
    fn assumptions(&self) -> Vec<&'static str> {
        vec!["host inputs are applied only at frame boundaries (as the property states)", "audio streams are compared only between drivings that drain at every frame boundary"]
    }
    fn expected_probes(&self) -> Vec<&'static str> {
        vec!["cmp_framecount_n", "cmp_max_mode", "cmp_breakpoints", "cmp_sound_off", "cmp_asset_kind", "cmp_repeat", "audio_compared", "loader_program", "sound_toggled_by_setter", "fastload_set_after_construction", "trap_at_frame_end", "tape_longer_than_256k", "host_without_debug_interface", "instance_isolation_in_fresh_processes"]
    }

    fn gen(&self, rng: &mut Rng, tier: Tier, _idx: u64) -> Scenario {
        let mut sc = Scenario::new();
        let m128 = rng.bool();
        sc.set("m128", m128 as i64);
        let content = *rng.pick(&[0i64, 1, 1, 2, 2, 2, 3, 3]);
        sc.set("content", content);
        sc.set("content_seed", (rng.next() >> 2) as i64);
        sc.set("mouse", rng.bool() as i64);
        sc.set("fastload", rng.bool() as i64);
        let k = match tier {
            Tier::Quick => rng.range(3, 40),
            Tier::Thorough => rng.range(3, 160),
        };
        sc.set("frames", k);
        // tape (small) for insertion events
        let blocks = if content == 3 { super::c12::gen_tape(rng, 3, 302) } else { super::c12::gen_tape(rng, 2, 60) };
        let mut img = tape::make_tap(&blocks);
        if content == 3 && rng.chance(1, 5) {
            // the image ends in an item of length zero (the last request of the program meets it)
            let keep = blocks.len().min(2);
            img = tape::make_tap(&blocks[..keep]);
            img.extend_from_slice(&[0x00, 0x00]);
            sc.set("zero_tail", 1);
        }
        sc.push(Op::blob("tape", &[], img));
        if content == 3 {
            // the tape is in the deck from the start; in half of the runs it also plays (real-time loader);
            // in a third the frame phase is calibrated so that the first fast-load trap is raised by the
            // instruction that completes a frame
            sc.op("ev", &[0, 11, 0, 0]);
            if rng.chance(1, 3) {
                sc.set("align", rng.range(1, 3));
                sc.set("fastload", 1);
            } else if rng.chance(1, 4) {
                // a tape longer than 256 KiB, fast-loaded block by block; in half of the runs the host rewinds it
                // somewhere on the way (the following requests get the first blocks again)
                sc.set("big", 1);
                sc.set("fastload", 1);
                if rng.bool() {
                    sc.op("ev", &[rng.range(1, (k - 1).max(1)), 9, 0, 0]);
                }
            } else if rng.chance(1, 4) {
                // the ROM loader waits for a stopped tape with fast loading off; the host switches fast loading on
                // later, between two frames
                sc.set("fastload", 0);
                sc.op("ev", &[rng.range(1, (k - 1).max(1)), 13, 1, 0]);
            } else if rng.bool() {
                sc.op("ev", &[0, 7, 0, 0]);
            }
        }
        if content == 2 && rng.chance(1, 3) {
            sc.op("ev", &[rng.range(1, (k - 1).max(1)), 12, rng.range(0, 5), sc.get("m128")]);
        }
        let n_ev = rng.range(0, 14);
        let mut tape_loaded = false;
        for _ in 0..n_ev {
            let f = rng.range(0, k - 1);
            let kind = *rng.pick(&[0i64, 0, 0, 1, 2, 3, 4, 5, 6, 7, 8, 9, 10, 11, 13]);
            let (a, b) = match kind {
                0 => (rng.range(0, 39), rng.range(0, 1)),
                1 => (rng.range(0, 6), rng.range(0, 1)),
                2 => (rng.range(0, 9), rng.range(0, 1)),
                3 => (rng.range(0, 7), rng.range(0, 1)),
                4 => (rng.range(0, 3), rng.range(0, 1)),
                5 => (rng.range(0, 1), 0),
                6 => (rng.range(-128, 127), rng.range(-128, 127)),
                10 => (rng.range(0x4000, 0xFFFF), rng.range(0, 255)),
                13 => (rng.range(0, 1), 0),
                _ => (0, 0),
            };
            if kind == 11 {
                tape_loaded = true;
            }
            sc.op("ev", &[f, kind, a, b]);
        }
        if !tape_loaded && rng.bool() {
            sc.op("ev", &[0, 11, 0, 0]);
            sc.op("ev", &[rng.range(0, k - 1), 7, 0, 0]);
        }
        if _idx % 40 == 13 {
            sc.set("iso", 1);
            sc.set("content", 1);
            sc.set("big", 0);
        }
        // drivings: baseline first
        sc.op("drive", &[0, 0, 0, 0, 1, 0, 1]);
        let n_dr = rng.range(2, 4);
        for _ in 0..n_dr {
            let mode = *rng.pick(&[0i64, 1, 1, 2, 2, 3, 3]);
            let p1 = match mode {
                1 | 2 => rng.range(1, 6),
                3 => *rng.pick(&[0i64, 0, 1, 2, 3, 7, 100, 1000, 69888 / 4, 1_000_001, 1_000_001]),
                _ => 0,
            };
            let p2 = rng.range(0, 2);
            let asset = rng.range(0, 4);
            let sound = rng.chance(2, 3) as i64;
            let drain = *rng.pick(&[0i64, 0, 1, 2]);
            sc.op("drive", &[mode, p1, p2, asset, sound, drain, (rng.next() >> 8) as i64]);
        }
        sc
    }

    fn exec(&self, sc: &Scenario, ctx: &mut RunCtx) -> Result<(), Fail> {
        // ---- independence of other emulator instances in the same process. Anything process-wide (a lazily built
        // static table, a cache keyed too coarsely) is invisible from inside a worker that has run hundreds of
        // machines of both models: the scenario is executed in two fresh processes - alone, and after a machine of
        // the *other* model has run a program of its own - and the two traces must be identical.
        match sc.get("iso") {
            1 => {
                ctx.probe("instance_isolation_in_fresh_processes");
                let mut a = sc.clone();
                a.set("iso", 2);
                let mut b = sc.clone();
                b.set("iso", 3);
                let ra = crate::runner::run_in_fresh_process("C16", &a).map_err(|x| Fail::new("C16.harness_fresh_process", "", x))?;
                let rb = crate::runner::run_in_fresh_process("C16", &b).map_err(|x| Fail::new("C16.harness_fresh_process", "", x))?;
                if ra.traces.is_empty() || ra.traces != rb.traces {
                    return Err(Fail::new(
                        "C16.instance_isolation",
                        &format!("machine={}", if sc.get("m128") != 0 { "128k" } else { "48k" }),
                        format!("the same scenario run alone in a fresh process and run after an emulator of the other model had been used in that process gives different traces: {:?} vs {:?}", ra.traces, rb.traces),
                    ));
                }
                ctx.units += 1;
                return Ok(());
            }
            role @ (2 | 3) => {
                let base = Driving { mode: 0, p1: 0, p2: 0, asset_kind: 0, sound: true, drain: 0, seed: 1, r0: 0, calib: false };
                if role == 3 {
                    let mut other = sc.clone();
                    other.set("m128", (sc.get("m128") == 0) as i64);
                    other.set("content", 1);
                    other.set("content_seed", sc.get("content_seed") ^ 0x5A5A);
                    other.set("frames", 4);
                    other.ops.retain(|o| o.k != "ev");
                    let _ = self.run_driving(&other, &base, ctx)?;
                }
                let t = self.run_driving(sc, &base, ctx)?;
                println!("TRACE {:?} {:?} {} {:016x}", t.hashes, t.audio, t.samples, t.ay_final);
                return Ok(());
            }
            _ => {}
        }
        let drives: Vec<Driving> = sc
            .ops
            .iter()
            .filter(|o| o.k == "drive")
            .map(|o| Driving { mode: o.arg(0).clamp(0, 3), p1: o.arg(1).max(0), p2: o.arg(2).clamp(0, 2), asset_kind: o.arg(3).clamp(0, 4), sound: o.arg(4) != 0, drain: o.arg(5).clamp(0, 2), seed: o.arg(6) as u64, r0: 0, calib: false })
            .collect();
        if drives.len() < 2 {
            return Ok(());
        }
        if sc.get("content") == 3 {
            ctx.probe("loader_program");
        }
        // frame phase: the loader program's fast-load trap is placed so that the instruction raising it is
        // the one that completes a frame (an event raised by the last instruction of a host call)
        let mut drives = drives;
        let align = sc.get("align");
        if sc.get("content") == 3 && align > 0 && sc.get("fastload") != 0 {
            let f = if sc.get("m128") != 0 { 70908usize } else { 69888 };
            let want = f - (1 + (align as usize - 1) % 3); // CP A at 0x056A starts 1..3 T before the frame end
            let mut r0 = 0usize;
            let mut ok = false;
            for _ in 0..3 {
                let cd = Driving { mode: 3, p1: 0, p2: 0, asset_kind: 0, sound: true, drain: 0, seed: 1, r0, calib: true };
                match self.run_driving(sc, &cd, ctx)?.hit {
                    Some((_, clk)) if clk == want => {
                        ok = true;
                        break;
                    }
                    Some((_, clk)) => r0 = (r0 + want + f - clk) % f,
                    None => break,
                }
            }
            if ok {
                ctx.probe("trap_at_frame_end");
                for d in drives.iter_mut() {
                    d.r0 = r0;
                }
            }
        }
        let mut base: Option<Trace> = None;
        for (di, d) in drives.iter().enumerate() {
            let t = self.run_driving(sc, d, ctx)?;
            let mut h = Fnv::new();
            h.u64(sc.get("content") as u64);
            h.u64(sc.get("m128") as u64);
            h.u64(d.mode as u64);
            h.u64(match d.p1 {
                0 => 0,
                1 => 1,
                2..=7 => 2,
                _ => 3,
            });
            h.u64(d.asset_kind as u64);
            h.u64(d.drain as u64);
            h.u8(d.sound as u8);
            ctx.cover(h.get());
            for (_, s) in &t.hashes {
                ctx.state(*s);
            }
            if let Some(b) = &base {
                match d.mode {
                    1 => ctx.probe("cmp_framecount_n"),
                    2 => ctx.probe("cmp_max_mode"),
                    3 => ctx.probe("cmp_breakpoints"),
                    _ => ctx.probe("cmp_repeat"),
                }
                if !d.sound {
                    ctx.probe("cmp_sound_off");
                }
                if d.asset_kind != 0 {
                    ctx.probe("cmp_asset_kind");
                }
                // compare at common frames
                let ended_in_error = |t: &Trace| t.hashes.iter().any(|x| x.0 == usize::MAX);
                if ended_in_error(b) != ended_in_error(&t) {
                    return Err(Fail::new(
                        "C16.state_differs",
                        &format!("mode={},asset={},error_in_one_driving=1", d.mode, d.asset_kind),
                        format!("driving #{} (mode {} asset {}) {} with an error from emulate_frames, the one-frame-per-call driving {}", di, d.mode, d.asset_kind, if ended_in_error(&t) { "ended" } else { "did not end" }, if ended_in_error(b) { "did" } else { "did not" }),
                    ));
                }
                for (f, hv) in &t.hashes {
                    if let Some((_, bv)) = b.hashes.iter().find(|x| x.0 == *f) {
                        if bv != hv {
                            return Err(Fail::new(
                                "C16.state_differs",
                                &format!("mode={},asset={},sound={},drain={}", d.mode, d.asset_kind, d.sound as u8, d.drain),
                                format!("driving #{} (mode {} p1 {} p2 {} asset {} sound {} drain {}) differs from the one-frame-per-call driving at frame {}: state/video hash {:016x} vs {:016x}", di, d.mode, d.p1, d.p2, d.asset_kind, d.sound, d.drain, f, hv, bv),
                            ));
                        }
                    }
                }
                if b.ay_final != t.ay_final {
                    return Err(Fail::new(
                        "C16.ay_state_differs",
                        &format!("mode={},sound={}", d.mode, d.sound as u8),
                        format!("the AY registers read back at the end of driving #{} (mode {} sound {} drain {}) differ from the one-frame-per-call driving", di, d.mode, d.sound, d.drain),
                    ));
                }
                if let (Some(a1), Some(a2)) = (b.audio, t.audio) {
                    ctx.probe("audio_compared");
                    if a1 != a2 || b.samples != t.samples {
                        return Err(Fail::new(
                            "C16.audio_differs",
                            &format!("mode={},asset={},sound={}", d.mode, d.asset_kind, d.sound as u8),
                            format!("PCM stream of driving #{} differs from the baseline ({} vs {} samples)", di, t.samples, b.samples),
                        ));
                    }
                }
            } else {
                base = Some(t);
            }
        }
        Ok(())
    }
}
