//! C11 — a playing tape presents each TAP block as the standard loader waveform.
//! Component level: the real `Tap` stepped with seeded partitions of time into 1..16 T waits,
//! every pulse compared with `RefTape`. System level: twin machines on the same tape and request
//! list — one with fast loading, one running the real ROM loader in real time on the played
//! waveform — must end with the same memory, IX, DE and carry (and agree with `RefLdBytes`).

use super::c10::gen_block;
use super::c12::Steps;
use crate::host::*;
use crate::machine::*;
use crate::prng::{Fnv, Rng};
use crate::runner::{Fail, Property, RunCtx, Tier};
use crate::scenario::{Op, Scenario};
use rustzx_core::host::Tape;
use rustzx_core::verif::{Tap, TapeImpl};
use rustzx_z80::Z80Bus;
use zxref::ldbytes::ld_bytes;
use zxref::tape::{self, BlockEnd, PulseClass};

pub struct C11;

const PAUSE_MIN: u64 = 3_150_000;
const PAUSE_MAX: u64 = 3_850_000;

impl C11 {
    fn component(&self, sc: &Scenario, ctx: &mut RunCtx) -> Result<(), Fail> {
        let mut img = sc.ops.iter().find(|o| o.k == "tape").map(|o| o.b.clone()).unwrap_or_default();
        if sc.get("long_tape") != 0 {
            // more than 2^32 T-states (20.5 minutes) of playing: three blocks of 65533 bytes of 0xFF
            ctx.probe("tape_longer_than_2_pow_32_t");
            let payload = vec![0xFFu8; 65533];
            img = tape::make_tap(&[tape::std_block(0xFF, &payload), tape::std_block(0xFF, &payload), tape::std_block(0xFF, &payload)]);
        }
        let (mut blocks, tail) = tape::tap_blocks(&img);
        if tail.is_some() || blocks.iter().any(|b| b.is_empty()) {
            return Ok(());
        }
        let plan = AssetPlan { max_chunk: sc.get("chunk").max(0) as usize, eof: if sc.get("eof_err") != 0 { EofStyle::Err } else { EofStyle::Ok0 }, ..Default::default() };
        let (asset, stats) = SimAsset::new(img.clone(), plan);
        let mut tap = Tap::from_asset(asset).map_err(|e| Fail::new("C11.load", "", format!("{:?}", e)))?;
        let mode = sc.get("step_mode");
        let mut steps = Steps::new(sc.get("step_seed"), mode);
        // total nominal duration + slack
        let total: u64 = blocks.iter().map(|b| tape::block_duration(b) + 3_500_000).sum::<u64>();
        let budget = total + total / 40 + 2_000_000;
        // the fast loader has taken (a part of) the first block before PLAY is pressed: the deck plays the
        // following blocks, each from its start
        let fl_pre = sc.get("fl_pre");
        if fl_pre > 0 && blocks.len() >= 2 {
            ctx.probe("play_after_partial_fast_load");
            let ok = tap.next_block().map_err(|e| Fail::new("C11.process_err", "", format!("next_block failed on a well-formed tape: {:?}", e)))?;
            if !ok {
                return Err(Fail::new("C11.block_count", "", "next_block() reports the end of a tape of two blocks at its start".into()));
            }
            let k = match fl_pre {
                1 => 1,
                2 => blocks[0].len() / 2,
                3 => blocks[0].len().saturating_sub(1),
                4 => 129.min(blocks[0].len()),
                _ => blocks[0].len(),
            };
            for i in 0..k {
                let b = tap.next_block_byte().map_err(|e| Fail::new("C11.process_err", "", format!("next_block_byte failed on a well-formed tape: {:?}", e)))?;
                if b != Some(blocks[0][i]) {
                    return Err(Fail::new("C11.fast_load_byte", "", format!("byte {} of block 0 through the fast-load interface is {:?}, the tape has {:02X}", i, b, blocks[0][i])));
                }
            }
            blocks.remove(0);
        }
        tap.play();
        let mut t = 0u64;
        let mut level = tap.current_bit();
        let mut last_edge = 0u64;
        let mut pulses: Vec<u64> = vec![];
        let mut stopped_at: Option<u64> = None;
        let mut zero_runs = sc.get("zero_steps");
        while t < budget {
            // runs of zero-length steps must not disturb anything
            if zero_runs > 0 && steps.next() == 1 {
                zero_runs -= 1;
                tap.process_clocks(0).map_err(|e| Fail::new("C11.process_err", "", format!("{:?}", e)))?;
                ctx.fault("wait_step(0)");
                // observe after the zero-length step as well (the level may change with no time passing)
                let now = tap.current_bit();
                if now != level {
                    pulses.push(t - last_edge);
                    last_edge = t;
                    level = now;
                }
            }
            let s = steps.next();
            tap.process_clocks(s as usize).map_err(|e| Fail::new("C11.process_err", "", format!("process_clocks failed on a well-formed tape: {:?}", e)))?;
            t += s;
            let now = tap.current_bit();
            if now != level {
                pulses.push(t - last_edge);
                last_edge = t;
                level = now;
            }
            if tap.can_fast_load() {
                stopped_at = Some(t);
                break;
            }
        }
        ctx.sim_t += t;
        ctx.fault_n("wait_step(1..16)", t / 8);
        ctx.fault_n("short_read(n)", stats.borrow().short_reads);
        // 1. every pulse within [nominal, nominal+32), except the start-up interval and pauses
        for (i, &p) in pulses.iter().enumerate() {
            let c = tape::classify(p);
            if c == PulseClass::Bad && i != 0 {
                return Err(Fail::new("C11.pulse_length", &format!("step_mode={}", mode), format!("pulse #{} lasts {} T: not within [nominal, nominal+32) of any standard pulse (2168, 667, 735, 855, 1710)", i, p)));
            }
        }
        // 2. decoded blocks
        let dec = tape::decode(&pulses);
        if dec.len() != blocks.len() {
            return Err(Fail::new("C11.block_count", "", format!("{} blocks decoded from the waveform, the tape has {}", dec.len(), blocks.len())));
        }
        for (i, (d, b)) in dec.iter().zip(blocks.iter()).enumerate() {
            let last = i + 1 == blocks.len();
            let end_ok = d.end == BlockEnd::Pause || (last && d.end == BlockEnd::StreamEnd);
            if !end_ok || d.bytes != *b {
                let pos = d.bytes.iter().zip(b.iter()).position(|(x, y)| x != y).unwrap_or(d.bytes.len().min(b.len()));
                return Err(Fail::new(
                    "C11.block_data",
                    &format!("len_class={}", if b.len() > 128 { "over128" } else { "small" }),
                    format!("block {} ({} bytes): waveform carries {} bytes, first difference at byte {} (end {:?}, offending pulse {} T)", i, b.len(), d.bytes.len(), pos, d.end, d.bad_len),
                ));
            }
            let nom = tape::pilot_count(b);
            let ok = if nom == tape::PILOT_HEADER { d.pilot == nom || d.pilot + 1 == nom } else { d.pilot + 1 >= nom };
            if !ok {
                return Err(Fail::new("C11.pilot", &format!("flag0={}", (b[0] == 0) as u8), format!("block {} (flag {:02X}) has a pilot of {} pulses, nominal {}", i, b[0], d.pilot, nom)));
            }
            if d.end == BlockEnd::Pause && (d.pause_len < PAUSE_MIN || d.pause_len > PAUSE_MAX + tape::PILOT + tape::TOL) {
                return Err(Fail::new("C11.pause", "", format!("pause after block {} lasts {} T (about one second = 3.5M T expected)", i, d.pause_len)));
            }
            // coverage: byte values x refill-offset class x step mode
            for (k, &v) in b.iter().enumerate() {
                let cls = match k % 128 {
                    0 => 0,
                    127 => 1,
                    _ => 2,
                } + if k >= 128 { 3 } else { 0 };
                let mut h = Fnv::new();
                h.u8(v);
                h.u8(cls as u8);
                h.u64(mode as u64);
                ctx.cover(h.get());
            }
            if b.len() > 128 {
                ctx.probe("block_crosses_refill");
            }
            if b[0] == 0 {
                ctx.probe("header_pilot");
            }
            ctx.units += 1;
        }
        // 3. the deck stops after the last block's pause
        match stopped_at {
            None => return Err(Fail::new("C11.no_stop", "", format!("the deck is still playing {} T after the nominal end of the tape", budget - total))),
            Some(ts) => {
                let since = ts - last_edge;
                if !blocks.is_empty() && (since < PAUSE_MIN || since > PAUSE_MAX + 2200) {
                    return Err(Fail::new("C11.final_pause", "", format!("the deck stopped {} T after the last edge", since)));
                }
                ctx.probe("deck_stopped_at_end");
            }
        }
        Ok(())
    }

    fn system(&self, sc: &Scenario, ctx: &mut RunCtx) -> Result<(), Fail> {
        let m128 = sc.get("m128") != 0;
        let img = sc.ops.iter().find(|o| o.k == "tape").map(|o| o.b.clone()).unwrap_or_default();
        let (blocks, tail) = tape::tap_blocks(&img);
        if tail.is_some() || blocks.iter().any(|b| b.is_empty()) {
            return Ok(());
        }
        let machine = if m128 { "128k" } else { "48k" };
        let mk = |fast: bool| -> Result<Emu, Fail> {
            let cfg = MCfg { m128, fastload: fast, sound: false, ..Default::default() };
            let mut e = new_emu(&cfg);
            let mut r = Rng::new(sc.get("mem_seed") as u64);
            for p in 0..ram_pages(m128) {
                r.fill(e.verif_ram_page(p));
            }
            e.verif_refresh_screen();
            if m128 {
                e.verif_bus().write_io(0x7FFD, 0x10);
            }
            let plan = AssetPlan { max_chunk: sc.get("chunk").max(0) as usize, ..Default::default() };
            e.load_tape(Tape::Tap(AnyAsset::Sim(SimAsset::new(img.clone(), plan).0))).map_err(|x| Fail::new("C11.load_tape", "", format!("{:?}", x)))?;
            Ok(e)
        };
        let mut a = mk(true)?;
        // the real-time machine may well have the fast-load setting enabled: a playing deck is never
        // fast-loaded from
        let rt_fast = sc.get("rt_fastload") != 0;
        if rt_fast {
            ctx.probe("realtime_with_fastload_setting");
        }
        let mut b = mk(rt_fast)?;
        b.play_tape();
        let mut next_block = 0usize;
        for op in sc.ops.iter().filter(|o| o.k == "req") {
            let (acc, load, ix, de) = (op.arg(0) as u8, op.arg(1) != 0, op.arg(2) as u16, op.arg(3) as u16);
            let Some(block) = blocks.get(next_block) else { break };
            let sp = 0xBFF0u16;
            let ret = 0xBF00u16;
            // keep the load area away from the stack page
            let end = ix as u32 + (de as u32).min(block.len() as u32) + 2;
            if ix < 0x5B00 || end > 0xBE00 {
                continue;
            }
            let mut model: Vec<u8> = (0..=0xFFFFu16).map(|x| a.peek(x)).collect();
            let exp = {
                let snapshot = model.clone();
                let mut rd = |x: u16| snapshot[x as usize];
                let mut writes: Vec<(u16, u8)> = vec![];
                let mut wr = |x: u16, v: u8| {
                    if x >= 0x4000 {
                        writes.push((x, v));
                    }
                };
                let r = ld_bytes(acc, load, ix, de, Some(&block[..]), &mut rd, &mut wr).unwrap();
                for (x, v) in writes {
                    model[x as usize] = v;
                }
                r
            };
            let ra = call_ld_bytes(&mut a, acc, load, ix, de, sp, ret, 5).map_err(|x| Fail::new("C11.fast", "", x))?;
            // real time: pilot (5 s for headers) + data + time-out margin
            let frames = ((tape::block_duration(block) + 3_600_000 + 3_500_000) / 69888 + 60) as usize;
            let rb = call_ld_bytes(&mut b, acc, load, ix, de, sp, ret, frames).map_err(|x| Fail::new("C11.realtime", "", x))?;
            ctx.sim_t += tape::block_duration(block) + 3_500_000;
            if !ra || !rb {
                return Err(Fail::new(
                    "C11.no_return",
                    &format!("machine={},fast={}", machine, (!ra) as u8),
                    format!("request for block {} ({} bytes) did not return: fast-load machine {}, real-time machine {}", next_block, block.len(), ra, rb),
                ));
            }
            let (sa, sb) = (cpu_state(&mut a), cpu_state(&mut b));
            let got = |s: &crate::cpustate::CpuState| (s.af & 1 != 0, s.ix, s.de);
            if got(&sb) != (exp.carry, exp.ix, exp.de) || got(&sa) != got(&sb) {
                return Err(Fail::new(
                    "C11.rom_load_result",
                    &format!("machine={},load={}", machine, load as u8),
                    format!(
                        "block {} ({} bytes, flag {:02X}) requested with A={:02X} {} IX={:04X} DE={:04X}: real-time ROM load gives (carry, IX, DE) = {:?}, fast load {:?}, RefLdBytes ({}, {:04X}, {:04X})",
                        next_block,
                        block.len(),
                        block[0],
                        acc,
                        if load { "LOAD" } else { "VERIFY" },
                        ix,
                        de,
                        got(&sb),
                        got(&sa),
                        exp.carry,
                        exp.ix,
                        exp.de
                    ),
                ));
            }
            for x in 0x4000..=0xFFFFu16 {
                let d = sp.wrapping_sub(x);
                if (1..=24).contains(&d) {
                    continue;
                }
                // system variables: the ROM re-enables interrupts before it returns, so its frame
                // interrupt handler (FRAMES counter, keyboard state) may run in either machine
                if (0x5C00..0x5CC0).contains(&x) {
                    continue;
                }
                if b.peek(x) != model[x as usize] || a.peek(x) != model[x as usize] {
                    return Err(Fail::new(
                        "C11.rom_load_memory",
                        &format!("machine={},load={}", machine, load as u8),
                        format!("after loading block {} address {:04X}: real-time {:02X}, fast load {:02X}, RefLdBytes {:02X}", next_block, x, b.peek(x), a.peek(x), model[x as usize]),
                    ));
                }
            }
            ctx.probe("system_block_loaded");
            if exp.carry {
                ctx.probe("system_success");
            } else {
                ctx.probe("system_failure_outcome");
            }
            let mut h = Fnv::new();
            h.u8(0xEE);
            h.u8(m128 as u8);
            h.u8(exp.carry as u8);
            h.u8(load as u8);
            h.u64((block.len() / 64) as u64);
            ctx.cover(h.get());
            ctx.units += 1;
            next_block += 1;
        }
        Ok(())
    }
}

impl C11 {
    /// kind 2: the waveform seen through the ULA port while the CPU executes code full of contended
    /// internal cycles (or uncontended code, as control): the pilot's average pulse length must stay
    /// within [2168, 2200].
    /// kind 3: the tape runs on emulated time whatever the CPU does meanwhile. Twin machines without any debug
    /// interface play the same tape for k frames driven by plain `emulate_frames` calls - on one the CPU spins in a
    /// `DI ; JR $` loop, on the other it sleeps in `EI ; HALT` between the frame interrupts. Then the host polls the
    /// EAR bit on both until the first block is over: the block must end at the same emulated time, up to the 32 T
    /// every pulse may be late (pulse boundaries are noticed at bus-wait granularity, which depends on the program).
    fn halted_cpu_twin(&self, sc: &Scenario, ctx: &mut RunCtx) -> Result<(), Fail> {
        use rustzx_z80::Z80Bus;
        let m128 = sc.get("m128") != 0;
        let k = sc.get("frames").clamp(2, 100) as usize;
        let cfg = MCfg { m128, fastload: false, sound: false, debug: false, ..Default::default() };
        let f = cfg.frame_len() as u64;
        let mut rng = Rng::new(sc.get("mem_seed") as u64);
        let len = *rng.pick(&[10usize, 30, 60]);
        let blk = tape::std_block(0xFF, &rng.bytes(len));
        let pulses = tape::pilot_count(&blk) + 2 + 16 * blk.len() as u64;
        let img = tape::make_tap(&[blk.clone(), blk]);
        let mut ends: Vec<(u64, u64)> = vec![];
        for halted in [false, true] {
            let mut e = new_emu(&cfg);
            if m128 {
                e.verif_bus().write_io(0x7FFD, 0x10);
            }
            if halted {
                write_mem(&mut e, 0x8000, &[0xFB, 0x76, 0x18, 0xFC]); // EI ; HALT ; JR back
            } else {
                write_mem(&mut e, 0x8000, &[0xF3, 0x18, 0xFE]); // DI ; JR $
            }
            let mut st = crate::cpustate::CpuState::default();
            st.pc = 0x8000;
            st.sp = 0x8FF0;
            st.im = 1;
            st.to_impl(e.verif_cpu());
            e.load_tape(Tape::Tap(AnyAsset::Sim(SimAsset::plain(img.clone())))).map_err(|x| Fail::new("C11.load_tape", "", format!("{:?}", x)))?;
            e.play_tape();
            e.set_speed(rustzx_core::EmulationMode::FrameCount(1));
            for _ in 0..k {
                e.emulate_frames(LONG).map_err(|x| Fail::new("C11.run", "", format!("{:?}", x)))?;
            }
            let mut st = cpu_state(&mut e);
            st.pc = 0x8000;
            st.iff1 = false;
            st.iff2 = false;
            st.halted = false;
            st.to_impl(e.verif_cpu());
            let mut t = k as u64 * f + e.verif_frame_clocks() as u64;
            let limit = t + 260 * f;
            let mut level = (e.verif_bus().read_io(0x7FFE) >> 6) & 1;
            let mut last = e.verif_frame_clocks() as u64;
            let mut last_edge = t;
            let mut n_edges = 0u64;
            while t < limit {
                let v = (e.verif_bus().read_io(0x7FFE) >> 6) & 1;
                let now = e.verif_frame_clocks() as u64;
                t += if now >= last { now - last } else { now + f - last };
                last = now;
                if v != level {
                    last_edge = t;
                    n_edges += 1;
                    level = v;
                } else if n_edges > 0 && t - last_edge > 20_000 {
                    break; // the pause behind the block
                }
            }
            ctx.sim_t += t;
            ends.push((last_edge, n_edges));
        }
        ctx.probe("tape_time_with_halted_cpu");
        let (a, b) = (ends[0], ends[1]);
        if a.0.abs_diff(b.0) > 32 * pulses + 64 {
            return Err(Fail::new(
                "C11.tape_time_depends_on_cpu",
                &format!("machine={}", if m128 { "128k" } else { "48k" }),
                format!(
                    "the first block ({} pulses) ends at T={} on a machine whose CPU was busy for the first {} frames and at T={} on one whose CPU slept in HALT (allowed: 32 T per pulse)",
                    pulses, a.0, k, b.0
                ),
            ));
        }
        ctx.units += 1;
        Ok(())
    }

    fn system_waveform(&self, sc: &Scenario, ctx: &mut RunCtx) -> Result<(), Fail> {
        let m128 = sc.get("m128") != 0;
        let contended = sc.get("contended") != 0;
        let cfg = MCfg { m128, fastload: false, sound: false, ..Default::default() };
        let mut e = new_emu(&cfg);
        let base: u16 = if contended { 0x6000 } else { 0x8000 };
        let data: u16 = if contended { 0x5800 } else { 0x9000 };
        // LD HL,data ; l: INC (HL) ; DEC (HL) ; DJNZ l ; JR l
        let prog = [0x21, data as u8, (data >> 8) as u8, 0x34, 0x35, 0x10, 0xFC, 0x18, 0xFA];
        write_mem(&mut e, base, &prog);
        let mut st = crate::cpustate::CpuState::default();
        st.pc = base;
        st.sp = 0x8FF0;
        st.i = if contended { 0x40 } else { 0x80 };
        st.to_impl(e.verif_cpu());
        let blk = tape::std_block(0x00, &[0u8; 17]);
        e.load_tape(Tape::Tap(AnyAsset::Sim(SimAsset::plain(tape::make_tap(&[blk]))))).map_err(|x| Fail::new("C11.load_tape", "", format!("{:?}", x)))?;
        e.play_tape();
        // whatever the program last wrote to the ULA (border, MIC, speaker bit), the EAR input is the tape
        e.verif_bus().write_io(0x00FE, (sc.get("port") as u8).wrapping_mul(29) & 0x1F);
        let f = cfg.frame_len() as u64;
        let frames = sc.get("frames").clamp(4, 60) as u64;
        let nth = sc.get("nth").clamp(2, 40) as u64;
        set_break_mode(&mut e, BreakMode::EveryNth(nth));
        e.set_speed(rustzx_core::EmulationMode::FrameCount(1));
        let port = (sc.get("port") as u16) & 0xFFFE;
        let mut frame_no = 0u64;
        let mut level = 2u8;
        let mut edges: Vec<u64> = vec![];
        let mut guard = 0u64;
        while frame_no < frames && guard < 5_000_000 {
            guard += 1;
            match e.emulate_frames(LONG) {
                Ok(i) => match i.stop_reason {
                    rustzx_core::EmulationStopReason::Completed => frame_no += 1,
                    rustzx_core::EmulationStopReason::Breakpoint => frame_no += e.verif_passed_frames() as u64,
                    _ => {}
                },
                Err(x) => return Err(Fail::new("C11.emulate_err", "", format!("{:?}", x))),
            }
            // sample EAR through the ULA port (takes a few T-states of emulated time like any port read)
            let before = e.verif_frame_clocks() as u64;
            let v = e.verif_bus().read_io(port);
            let after = e.verif_frame_clocks() as u64;
            if after < before {
                frame_no += 1;
            }
            let now = (v >> 6) & 1;
            if level != 2 && now != level {
                edges.push(frame_no * f + after);
            }
            level = now;
        }
        ctx.sim_t += frames * f;
        ctx.units += 1;
        if edges.len() < 50 {
            return Err(Fail::new("C11.system_waveform", &format!("contended={}", contended as u8), format!("only {} EAR edges seen in {} frames of a playing pilot tone polled through port {:04X}", edges.len(), frames, port)));
        }
        let n = edges.len() as u64 - 1;
        let avg = (edges[edges.len() - 1] - edges[0]) as f64 / n as f64;
        // sampling jitter: each edge is observed at most one sampling interval late
        let jitter = (nth as f64 * 30.0 + 40.0) / n as f64;
        ctx.probe(if contended { "system_waveform_contended_cpu" } else { "system_waveform_plain_cpu" });
        if avg < 2168.0 - jitter || avg > 2200.0 + jitter {
            return Err(Fail::new(
                "C11.system_waveform",
                &format!("contended={}", contended as u8),
                format!("pilot pulses seen by the machine while the CPU runs {} code average {:.1} T over {} pulses (must lie in [2168, 2200])", if contended { "contended-memory" } else { "uncontended" }, avg, n),
            ));
        }
        let mut h = Fnv::new();
        h.u8(0xED);
        h.u8(m128 as u8);
        h.u8(contended as u8);
        ctx.cover(h.get());
        Ok(())
    }
}

impl Property for C11 {
    fn id(&self) -> &'static str {
        "C11"
    }
    fn runs(&self, tier: Tier) -> u64 {
        match tier {
            Tier::Quick => 416,
            Tier::Thorough => 26_000,
        }
    }
    fn rule(&self) -> &'static str {
        "component runs: TAP images (all byte values, blocks crossing the 128-byte refill at every offset class, flag 0x00 and others, chunking asset) played on the real Tap with time partitioned into seeded 1..16 T steps (plus constant-step and zero-step runs), every pulse and block compared with RefTape; system runs (1 in 26): twin machines, fast load vs real ROM loader in real time, each request issued in the pause before its block; component runs may take part of the first block through next_block/next_block_byte before PLAY; one run per batch plays three 64 KiB blocks (more than 2^32 T); distinct = (byte value, refill-offset class, step pattern class) + (system outcome classes)"
    }
    fn state_measure(&self) -> &'static str {
        "none (see distinct)"
    }
    fn real_components(&self) -> Vec<&'static str> {
        vec!["Tap::process_clocks / next_block / next_block_byte (waveform state machine, buffer refill)", "system runs: ZXController::wait_internal -> tape stepping, read_io EAR bit, the 48K ROM LD-BYTES code on the real Z80, fast_load_tap"]
    }
    fn stub_components(&self) -> Vec<&'static str> {
        vec!["tape asset (chunking SimAsset)", "RefTape pulse classifier/decoder", "RefLdBytes"]
    }
    fn assumptions(&self) -> Vec<&'static str> {
        vec!["'about one second' is taken as 3.15M..3.85M T (plus one merged pilot pulse)", "component runs observe the EAR level after every step; pulse length = time between observed level changes", "system runs use blocks of at most 300 bytes"]
    }
    fn expected_probes(&self) -> Vec<&'static str> {
        vec!["block_crosses_refill", "header_pilot", "deck_stopped_at_end", "system_block_loaded", "system_success", "system_failure_outcome", "system_waveform_contended_cpu", "realtime_with_fastload_setting", "play_after_partial_fast_load", "tape_longer_than_2_pow_32_t", "tape_time_with_halted_cpu"]
    }

    fn gen(&self, rng: &mut Rng, tier: Tier, idx: u64) -> Scenario {
        let mut sc = Scenario::new();
        if idx % 52 == 38 {
            sc.set("kind", 3);
            sc.set("m128", rng.bool() as i64);
            sc.set("frames", *rng.pick(&[5i64, 20, 60, 90]));
            sc.set("mem_seed", (rng.next() >> 8) as i64);
            return sc;
        }
        if idx % 26 == 12 {
            sc.set("kind", 2);
            sc.set("m128", rng.bool() as i64);
            sc.set("contended", rng.chance(3, 4) as i64);
            sc.set("frames", rng.range(6, 14));
            sc.set("nth", rng.range(3, 12));
            // the even port the machine code would poll: any high byte (no key is held, so every half-row
            // selection reads the same), any even low byte
            let hi = if rng.bool() { *rng.pick(&[0xFFi64, 0x7F, 0x00, 0xFE, 0xBF]) } else { rng.range(0, 255) };
            let lo = if rng.chance(3, 4) { 0xFE } else { rng.range(0, 127) * 2 };
            sc.set("port", hi << 8 | lo);
            return sc;
        }
        let system = idx % 26 == 25;
        sc.set("kind", system as i64);
        sc.set("chunk", *rng.pick(&[0i64, 1, 3, 127, 128, 129]));
        sc.set("eof_err", rng.bool() as i64);
        if !system {
            let nb = rng.range(1, if tier == Tier::Quick { 2 } else { 3 });
            let mut blocks = vec![];
            for _ in 0..nb {
                let len = *rng.pick(&[1usize, 2, 19, 100, 126, 127, 128, 129, 130, 200, 255, 256, 257, 300, 400]);
                let flag = match rng.below(3) {
                    0 => 0,
                    1 => 0xFF,
                    _ => rng.u8(),
                };
                let payload: Vec<u8> = match rng.below(4) {
                    0 => (0..len).map(|i| (i as u8).wrapping_add(rng.u8() & 0)).collect(),
                    1 => vec![*rng.pick(&[0u8, 0xFF, 0x55, 0xAA, 0x80, 0x01]); len],
                    _ => rng.bytes(len),
                };
                blocks.push(tape::std_block(flag, &payload));
            }
            sc.push(Op::blob("tape", &[], tape::make_tap(&blocks)));
            sc.set("step_mode", *rng.pick(&[0i64, 0, 0, 1, 2, 3, 4]));
            sc.set("step_seed", (rng.next() >> 8) as i64);
            sc.set("zero_steps", if rng.chance(1, 4) { rng.range(1, 50) } else { 0 });
            sc.set("fl_pre", if nb >= 2 && rng.chance(1, 3) { rng.range(1, 5) } else { 0 });
            if idx % 2600 == 107 {
                sc.set("long_tape", 1);
                sc.set("step_mode", 1);
                sc.set("zero_steps", 0);
                sc.set("fl_pre", 0);
            }
        } else {
            sc.set("m128", rng.bool() as i64);
            sc.set("mem_seed", (rng.next() >> 8) as i64);
            sc.set("rt_fastload", rng.bool() as i64);
            let nb = 2;
            let mut blocks = vec![];
            for _ in 0..nb {
                let mut b = gen_block(rng);
                while b.len() > 300 || b.is_empty() {
                    b = gen_block(rng);
                }
                blocks.push(b);
            }
            sc.push(Op::blob("tape", &[], tape::make_tap(&blocks)));
            for b in &blocks {
                let a = if rng.chance(5, 6) { b[0] } else { b[0] ^ 1 };
                let load = rng.chance(3, 4);
                let de = match rng.below(5) {
                    0 => (b.len() as i64 - 2).max(0) + 1,
                    1 => (b.len() as i64 - 2).max(1) - 1,
                    _ => (b.len() as i64 - 2).max(0),
                };
                sc.op("req", &[a as i64, load as i64, rng.range(0x6000, 0xB000), de]);
            }
        }
        sc
    }

    fn exec(&self, sc: &Scenario, ctx: &mut RunCtx) -> Result<(), Fail> {
        match sc.get("kind") {
            0 => self.component(sc, ctx),
            2 => self.system_waveform(sc, ctx),
            3 => self.halted_cpu_twin(sc, ctx),
            _ => self.system(sc, ctx),
        }
    }
    fn minimise_budget(&self) -> usize {
        40
    }
}
