//! C07 — port addresses reach the right device under Spectrum partial decoding.
//! World B: seeded device configuration, then a stratified sample of the 65536 port addresses as
//! IN and as OUT executed by the emulated CPU at a seeded beam position; `RefPorts` (strict
//! reading of the property) says which single device is selected; every other device's canary
//! must stay unchanged; unclaimed reads return the floating bus.

use crate::cpustate::CpuState;
use crate::host::*;
use crate::inputs::*;
use crate::machine::*;
use crate::prng::{Fnv, Rng};
use crate::runner::{Fail, Property, RunCtx, Tier};
use crate::scenario::Scenario;
use rustzx_z80::Z80Bus;
use zxref::ula::RefUla;

pub struct C07;

#[derive(Clone, Copy, PartialEq, Eq, Debug)]
enum Dev {
    Ula,
    Paging,
    AySel,
    AyData,
    Kempston,
    MouseButtons,
    MouseX,
    MouseY,
}

struct Conf {
    m128: bool,
    kempston: bool,
    mouse: bool,
}

/// devices selected by `port` for a read / write under the strict decode; `None` in the second
/// slot = the strict reading leaves the mouse sub-selection open (don't-care)
fn selected(c: &Conf, port: u16, write: bool) -> (Vec<Dev>, bool) {
    let bit = |n: u32| port & (1 << n) != 0;
    let mut v = vec![];
    let mut dontcare = false;
    if !bit(0) {
        v.push(Dev::Ula);
    }
    if c.m128 && !bit(15) && !bit(1) && write {
        v.push(Dev::Paging);
    }
    if bit(15) && bit(14) && !bit(1) {
        v.push(Dev::AySel);
    }
    if bit(15) && !bit(14) && !bit(1) && write {
        v.push(Dev::AyData);
    }
    if c.kempston && port & 0x00E0 == 0 && !write {
        v.push(Dev::Kempston);
    }
    if c.mouse && !write && bit(0) && !bit(5) && bit(7) {
        match (bit(8), bit(10)) {
            (false, false) => v.push(Dev::MouseButtons),
            (true, false) => v.push(Dev::MouseX),
            (true, true) => v.push(Dev::MouseY),
            (false, true) => dontcare = true,
        }
    }
    // addresses a looser decode could claim with only the mouse present (A7=0, A5=0, A0=1)
    if c.mouse && !write && bit(0) && !bit(5) && !bit(7) && !(c.kempston && port & 0x00E0 == 0) {
        dontcare = true;
    }
    // reads of the AY data port and of the paging port are not described by the property
    if !write && bit(15) && !bit(14) && !bit(1) {
        dontcare = true;
    }
    (v, dontcare)
}

const AY_MASK: [u8; 16] = [0xFF, 0x0F, 0xFF, 0x0F, 0xFF, 0x0F, 0x1F, 0xFF, 0x1F, 0x1F, 0x1F, 0xFF, 0xFF, 0x0F, 0xFF, 0xFF];

fn cpu_io(e: &mut Emu, port: u16, out: Option<u8>) -> Result<u8, Fail> {
    let mut st = CpuState::default();
    st.pc = if out.is_some() { 0x8002 } else { 0x8000 };
    st.sp = 0x9000;
    st.bc = port;
    st.af = (out.unwrap_or(0) as u16) << 8;
    st.to_impl(e.verif_cpu());
    step_public(e).map_err(|x| Fail::new("C07.step", "", x))?;
    Ok((cpu_state(e).af >> 8) as u8)
}

fn goto_t(e: &mut Emu, t: u64, frame: u64) {
    let c = e.verif_frame_clocks() as u64;
    if t < c {
        e.verif_bus().wait_internal((frame - c) as usize);
    }
    e.verif_set_frame_clocks(t as usize);
}

fn screen_byte(line: usize, col: usize) -> u8 {
    (0x80 | ((line * 5 + col * 3) & 0x7F)) as u8 ^ 0x55
}
fn attr_byte(row: usize, col: usize) -> u8 {
    (((row * 7 + col * 11) & 0x3F) | 0x40) as u8
}

impl Property for C07 {
    fn id(&self) -> &'static str {
        "C07"
    }
    fn runs(&self, tier: Tier) -> u64 {
        match tier {
            Tier::Quick => 2_400,
            Tier::Thorough => 80_000,
        }
    }
    fn rule(&self) -> &'static str {
        "per run: configuration (machine, Kempston joystick, mouse, extender with a seeded claimed set incl. canonical ports and their neighbours, held keys/controls, AY register contents), then 120 port accesses stratified over the decode bits {A0,A1,A5-A7,A8,A10,A14,A15}, each as IN or OUT executed by the emulated CPU at a beam position in {border, retrace, picture fetch window}; distinct = (decode-bit pattern, direction, device configuration, beam class, selected-device set)"
    }
    fn state_measure(&self) -> &'static str {
        "distinct (machine, devices enabled, selected device or floating bus, direction) combinations asserted"
    }
    fn real_components(&self) -> Vec<&'static str> {
        vec!["ZXController::read_io / write_io (decode chain, floating bus, keyboard AND, AY, Kempston, mouse, extender)", "Z80 IN A,(C) / OUT (C),A", "Emulator input and extender API"]
    }
    fn stub_components(&self) -> Vec<&'static str> {
        vec!["Host::IoExtender (SimExtender with seeded claimed set and access log)", "RefPorts strict decode model", "screen memory pre-filled with position-specific bytes"]
    }
    fn assumptions(&self) -> Vec<&'static str> {
        vec![
            "a port is asserted only if exactly one device is selected under the strict reading, or none (floating bus); multi-device addresses and addresses the strict reading leaves open are don't-care (counted in truncated_ambiguous)",
            "floating bus inside the fetch window: value must be 0xFF or a display/attribute byte of the current picture line within +-4 columns of the beam; on the 128K either screen bank is accepted",
            "EAR (bit 6) is asserted as 0 with no tape inserted; AY read-back may be masked to the register's implemented bits",
            "a port claimed by the extender belongs to the extender alone: the access reaches it and no built-in device, even where the address would otherwise select one (reading of 'receives exactly the ports it claims' together with the decode chain, which asks the extender first)",
        ]
    }
    fn expected_probes(&self) -> Vec<&'static str> {
        vec!["ula_read", "ula_write", "paging_write", "ay_select", "ay_data", "ay_read", "kempston_read", "mouse_read", "extender_read", "extender_write", "floating_border", "floating_fetch", "unclaimed_write", "multi_device_skipped", "paging_alias", "ay_alias", "ear_follows_tape", "floating_exact", "extender_installed_late", "extender_replaced", "extender_claims_changed", "snapshot_loaded_midrun", "ula_same_value_again", "ay_disabled_in_settings", "ay_toggled_by_setter", "extender_only_port", "extender_overrides_builtin", "szx_loaded_midrun", "paging_write_while_locked", "floating_exact_stretched_cycle"]
    }

    fn gen(&self, rng: &mut Rng, _tier: Tier, _idx: u64) -> Scenario {
        let mut sc = Scenario::new();
        sc.set("m128", rng.bool() as i64);
        sc.set("kempston", rng.bool() as i64);
        sc.set("mouse", rng.bool() as i64);
        sc.set("extender", rng.chance(1, 3) as i64);
        sc.set("tape", rng.chance(1, 4) as i64);
        // host actions in the middle of the access history: snapshot loads; extender installed late,
        // replaced, or changing its claims
        // the AY is part of the machine whether or not the host mixes its sound: enabled in the settings
        // or not, and switched through set_ay_enabled() while running
        sc.set("ay", rng.chance(2, 3) as i64);
        sc.set("ay_toggle", rng.chance(1, 3) as i64);
        sc.set("snap_every", *rng.pick(&[0i64, 0, 25, 60]));
        sc.set("ext_dyn", rng.chance(1, 2) as i64);
        sc.set("may_lock", rng.chance(1, 3) as i64);
        sc.set("seed", (rng.next() >> 2) as i64);
        sc.set("n", if sc.get("tape") != 0 { 260 } else { 120 });
        sc
    }

    fn exec(&self, sc: &Scenario, ctx: &mut RunCtx) -> Result<(), Fail> {
        let m128 = sc.get("m128") != 0;
        let conf = Conf { m128, kempston: sc.get("kempston") != 0, mouse: sc.get("mouse") != 0 };
        let ay_on = sc.get("ay") != 0;
        let ay_toggle = sc.get("ay_toggle") != 0;
        if !ay_on {
            ctx.probe("ay_disabled_in_settings");
        }
        let cfg = MCfg { m128, kempston: conf.kempston, mouse: conf.mouse, ay: ay_on, ..Default::default() };
        let ula = RefUla::new(m128);
        let f = ula.frame;
        let mut e = new_emu(&cfg);
        let mut rng = Rng::new(sc.get("seed") as u64);
        let machine = if m128 { "128k" } else { "48k" };
        // stub: IN A,(C) at 0x8000, OUT (C),A at 0x8002
        write_mem(&mut e, 0x8000, &[0xED, 0x78, 0xED, 0x79]);
        // bank markers at 0xC000 (128K): first byte of every bank = bank number + 0xB0
        if m128 {
            for b in 0..8u8 {
                e.verif_ram_page(b)[0x3FF0] = 0xB0 + b;
            }
        }
        // screen memory with position-specific bytes (both screens on the 128K)
        let screens: &[u8] = if m128 { &[5, 7] } else { &[0] };
        for &p in screens {
            let page = e.verif_ram_page(p);
            for line in 0..192usize {
                let addr = ((line & 0xC0) << 5) | ((line & 7) << 8) | ((line & 0x38) << 2);
                for col in 0..32 {
                    page[addr + col] = screen_byte(line, col);
                }
            }
            for row in 0..24 {
                for col in 0..32 {
                    page[0x1800 + row * 32 + col] = attr_byte(row, col);
                }
            }
        }
        e.verif_refresh_screen();
        // extender: installed here, or (ext_dyn) only later in the history
        let mut claimed: Vec<u16> = vec![];
        let has_ext = sc.get("extender") != 0;
        let ext_dyn = has_ext && sc.get("ext_dyn") != 0;
        let mut ext_installed = false;
        fn gen_claims(rng: &mut Rng) -> Vec<u16> {
            let mut claimed = vec![];
            for _ in 0..rng.range(1, 6) {
                claimed.push(match rng.below(6) {
                    0 => 0x7FFD,
                    1 => 0xFFFD,
                    2 => 0x00FE,
                    3 => 0x001F,
                    4 => *rng.pick(&[0x7FFCu16, 0x7FFF, 0xBFFD, 0xFADF, 0xFFDF, 0x00FF]),
                    _ => rng.u16(),
                });
            }
            claimed
        }
        let ext_install_at = if ext_dyn && rng.bool() { rng.range(1, 60) } else { -1 };
        // a playing tape (pilot tone) in a share of runs: bit 6 of ULA reads must follow it
        let tape_playing = sc.get("tape") != 0;
        if tape_playing {
            let blk = zxref::tape::std_block(0x00, &[0u8; 17]);
            let img = zxref::tape::make_tap(&[blk]);
            e.load_tape(rustzx_core::host::Tape::Tap(AnyAsset::Sim(SimAsset::plain(img)))).map_err(|x| Fail::new("C07.load_tape", "", format!("{:?}", x)))?;
            e.play_tape();
        }
        let mut ear_seen = [0u32; 2];
        let mut ear_first_t: Option<u64> = None;
        let mut ear_last_t = 0u64;
        let mut abs_t = 0u64;
        // model state
        let mut keys = [false; 40];
        for _ in 0..rng.range(0, 4) {
            let k = rng.below(40) as usize;
            keys[k] = true;
            e.send_key(KEYS[k], true);
        }
        let mut kemp = 0u8;
        if conf.kempston {
            for _ in 0..rng.range(0, 3) {
                let k = rng.below(8) as usize;
                kemp |= 1 << k;
                e.send_kempston_key(KEMPSTON[k], true);
            }
        }
        if conf.mouse {
            e.send_mouse_pos_diff(rng.range(-100, 100) as i8, rng.range(-100, 100) as i8);
            e.send_mouse_button(MOUSE_BUTTONS[rng.below(4) as usize], true);
        }
        // canonical reference values of the mouse ports (trusted addresses), read before any extender
        // is installed
        let (mb, mx, my) = if conf.mouse { (cpu_io(&mut e, 0xFADF, None)?, cpu_io(&mut e, 0xFBDF, None)?, cpu_io(&mut e, 0xFFDF, None)?) } else { (0, 0, 0) };
        let mouse_ref_ok = conf.mouse;
        if has_ext && ext_install_at < 0 {
            claimed = gen_claims(&mut rng);
            e.set_io_extender(SimExtender { claimed: claimed.clone(), log: vec![], read_xor: rng.u8() });
            ext_installed = true;
        }
        // instrument port for AY canary reads: canonical, or an alias the extender does not claim
        const AY_INSTR: [u16; 5] = [0xFFFD, 0xFEFD, 0xFDFD, 0xF7FD, 0xFBFD];
        let pick_ayp = |claimed: &Vec<u16>| *AY_INSTR.iter().find(|p| !claimed.contains(p)).unwrap_or(&0xEFFD);
        let mut ayp = pick_ayp(&claimed);
        let mut last_port: u16 = 0x00FE;
        let mut last_ula_v: Option<u8> = None;
        let mut force_port: Option<(u16, Option<u8>)> = None;
        let snap_every = sc.get("snap_every").clamp(0, 1000) as u64;
        let may_lock = sc.get("may_lock") != 0;
        let mut ay_regs = [0u8; 16];
        let mut ay_sel = 0usize;
        let mut border = e.border_color() as u8;
        let mut latch = 0u8;
        let mut ext_log_len = 0usize;
        let n = sc.get("n").clamp(0, 5000);
        for idx in 0..n {
            if ay_toggle && rng.below(30) == 0 {
                ctx.probe("ay_toggled_by_setter");
                e.set_ay_enabled(rng.bool());
            }
            // ---- host actions between two accesses
            if has_ext && ext_dyn {
                let ev = if idx == ext_install_at { 0 } else if ext_installed { rng.below(24) } else { 99 };
                match ev {
                    0 | 1 => {
                        // the extender is installed after the machine has been running, or replaced by another one
                        ctx.probe(if ext_installed { "extender_replaced" } else { "extender_installed_late" });
                        claimed = gen_claims(&mut rng);
                        if rng.bool() && !AY_INSTR.contains(&last_port) {
                            claimed.push(last_port);
                        }
                        e.set_io_extender(SimExtender { claimed: claimed.clone(), log: vec![], read_xor: rng.u8() });
                        ext_installed = true;
                        ext_log_len = 0;
                        ayp = pick_ayp(&claimed);
                        if rng.chance(3, 4) {
                            force_port = Some((last_port, None));
                        }
                    }
                    2 | 3 => {
                        // the extender changes what it claims (e.g. enabled / disabled by its own control register)
                        if !AY_INSTR.contains(&last_port) {
                            ctx.probe("extender_claims_changed");
                            if let Some(k) = claimed.iter().position(|p| *p == last_port) {
                                claimed.retain(|p| *p != last_port);
                                let _ = k;
                            } else {
                                claimed.push(last_port);
                            }
                            e.io_extender().unwrap().claimed = claimed.clone();
                            if rng.chance(3, 4) {
                                force_port = Some((last_port, None));
                            }
                        }
                    }
                    _ => {}
                }
            }
            if snap_every > 0 && rng.below(snap_every) == 0 {
                // the host loads a snapshot of the running machine (same memory, paging and stub) whose
                // border differs from the last value written; the ULA must obey the next write whatever
                // was written before the load
                ctx.probe("snapshot_loaded_midrun");
                let mut s = crate::snapfmt::SnapState::new(m128);
                for b in 0..8u8 {
                    if let Some(pg) = phys_page(m128, b) {
                        s.banks[b as usize].copy_from_slice(e.verif_ram_page(pg));
                    }
                }
                s.port_7ffd = latch;
                s.border = match last_ula_v {
                    Some(v) => (v & 7) ^ (1 + rng.below(7) as u8),
                    None => rng.u8() & 7,
                };
                s.cpu.pc = 0x8000;
                s.cpu.sp = 0x9000;
                // SNA, or an SZX that carries no joystick / mouse chunks (the devices the host enabled stay)
                if rng.bool() {
                    let bytes = if m128 { crate::snapfmt::write_sna128(&s) } else { crate::snapfmt::write_sna48(&s) };
                    e.load_snapshot(rustzx_core::host::Snapshot::Sna(SimAsset::plain(bytes))).map_err(|x| Fail::new("C07.load_snapshot", "", format!("{:?}", x)))?;
                } else {
                    ctx.probe("szx_loaded_midrun");
                    // ... or carries them describing the devices as they are (keyboard flags 0 = not an issue 2
                    // board, a last OUT with the speaker / MIC bits set): bit 6 of the ULA port stays the tape's
                    // (no mouse chunk: it would legitimately replace the mouse, counters included)
                    s.kempston = conf.kempston;
                    let opt = crate::snapfmt::SzxOptions { compress: vec![false; 8], with_keyb: rng.bool(), fe_hi: rng.u8() & 0x18, ..Default::default() };
                    e.load_snapshot(rustzx_core::host::Snapshot::Szx(SimAsset::plain(crate::snapfmt::write_szx(&s, &opt)))).map_err(|x| Fail::new("C07.load_snapshot", "", format!("{:?}", x)))?;
                }
                border = e.border_color() as u8;
                if border != s.border {
                    // C09's matter; keep the canary in step with the machine
                    ctx.probe("snapshot_border_differs");
                }
                latch = e.verif_paging().0;
                // inputs are host state, not snapshot state: present them again
                for k in 0..40 {
                    if keys[k] {
                        e.send_key(KEYS[k], true);
                    }
                }
                for k in 0..8 {
                    if kemp & (1 << k) != 0 {
                        e.send_kempston_key(KEMPSTON[k], true);
                    }
                }
                ay_resync(&mut e, &mut ay_regs, &mut ay_sel, ayp);
                if let (Some(v), true) = (last_ula_v, rng.chance(2, 3)) {
                    // an even port that selects only the ULA, written with the same value as before the load
                    let p = (rng.u16() & 0xFFFE) | 0x0002;
                    force_port = Some((p, Some(v)));
                }
            }
            // stratified port: decode bits drawn independently, the rest uniform
            let mut port = rng.u16();
            for b in [0u32, 1, 5, 6, 7, 8, 10, 14, 15] {
                if rng.bool() {
                    port |= 1 << b;
                } else {
                    port &= !(1 << b);
                }
            }
            match rng.below(12) {
                0 => port = *rng.pick(&[0x7FFDu16, 0xFFFD, 0xBFFD, 0x00FE, 0x001F, 0xFADF, 0xFBDF, 0xFFDF, 0xFEFE, 0x7FFE]),
                1 => port &= !0x00E0, // Kempston-style low byte
                3 => port = (port & 0x00FF) | (*rng.pick(&[0xFFu16, 0xFF, 0x00, 0x7F, 0xFE]) << 8), // no / every / one half-row
                2 => {
                    if !claimed.is_empty() {
                        port = *rng.pick(&claimed) ^ *rng.pick(&[0u16, 0, 1, 2, 0x100, 0x8000]);
                    }
                }
                _ => {}
            }
            let mut write = rng.bool();
            // (in a third of the runs the program may lock paging; every later paging write is then ignored)
            let mut v = if may_lock { rng.u8() } else { rng.u8() & !0x20 };
            if let Some((p, fv)) = force_port.take() {
                port = p;
                if let Some(fv) = fv {
                    write = true;
                    v = fv;
                }
            }
            last_port = port;
            // beam position
            let beam = rng.below(3);
            let t = match beam {
                0 => rng.below(ula.t0 - 200), // top border / retrace
                1 => ula.t0 + rng.below(192) * ula.line + 130 + rng.below(ula.line - 150), // right border / retrace of a picture line
                _ => {
                    if rng.chance(1, 6) {
                        // the bus sample (start + 11) lands on the first / last fetch slots of a line
                        let line = *rng.pick(&[0u64, 0, 1, 95, 190, 191, 191]);
                        let slot = *rng.pick(&[0u64, 0, 1, 2, 3, 4, 120, 123, 124, 127, 128]);
                        (ula.t0 + 3 + line * ula.line + slot + rng.below(3)).saturating_sub(11 + 1)
                    } else {
                        (ula.t0 + rng.below(192) * ula.line + rng.below(130)).saturating_sub(10) // fetch window
                    }
                }
            };
            goto_t(&mut e, t, f);
            abs_t += 12 + 4000; // accesses are spread over the frame(s); exact spacing is irrelevant here
            let is_ext = claimed.contains(&port);
            let (devs, dontcare) = selected(&conf, port, write);
            let got = cpu_io(&mut e, port, if write { Some(v) } else { None })?;
            let t_end = e.verif_frame_clocks() as u64;
            ctx.units += 1;
            ctx.sim_t += 12;
            let mut h = Fnv::new();
            h.u64((port & 0xC5E3) as u64);
            h.u8(write as u8);
            h.u8(conf.m128 as u8 | (conf.kempston as u8) << 1 | (conf.mouse as u8) << 2 | (is_ext as u8) << 3);
            h.u8(beam as u8);
            ctx.cover(h.get());
            let describe = |d: &Vec<Dev>| format!("{:?}", d);
            if is_ext {
                // the extender receives exactly the ports it claims
                let log = &e.io_extender().unwrap().log;
                let ok = log.len() == ext_log_len + 1 && log.last().map(|a| a.write == write && a.port == port && (!write || a.data == v)) == Some(true);
                if !ok {
                    return Err(Fail::new("C07.extender_missed", &format!("machine={},write={}", machine, write as u8), format!("port {:04X} is claimed by the I/O extender but the access ({}) did not reach it", port, if write { "OUT" } else { "IN" })));
                }
                if !write {
                    let expv = e.io_extender().unwrap().read_value(port);
                    if got != expv {
                        return Err(Fail::new("C07.extender_value", &format!("machine={}", machine), format!("IN {:04X} returned {:02X}, the extender supplied {:02X}", port, got, expv)));
                    }
                    ctx.probe("extender_read");
                } else {
                    ctx.probe("extender_write");
                }
                ext_log_len += 1;
                {
                    // a claimed port is the extender's: no built-in device may see the access, whether or not
                    // the address would select one without the extender (the decode chain asks the extender
                    // first; hosts rely on it, e.g. an even debug port must not reach the ULA)
                    if devs.is_empty() && !dontcare {
                        ctx.probe("extender_only_port");
                    } else {
                        ctx.probe("extender_overrides_builtin");
                    }
                    let ay_now = e.verif_bus().read_io(ayp);
                    let expv = ay_regs[ay_sel];
                    if e.border_color() as u8 != border || (m128 && e.verif_paging().0 != latch) || (ay_now != expv && ay_now != expv & AY_MASK[ay_sel]) {
                        return Err(Fail::new(
                            "C07.extender_side_effect",
                            &format!("machine={},write={}", machine, write as u8),
                            format!("port {:04X} is claimed by the extender (built-in devices the address would otherwise select: {}), yet the {} changed the border colour, the paging latch or the AY register read-back", port, describe(&devs), if write { "OUT" } else { "IN" }),
                        ));
                    }
                    continue;
                }
            }
            // an unclaimed port must never reach the extender
            if let Some(x) = e.io_extender() {
                if x.log.len() != ext_log_len {
                    return Err(Fail::new("C07.extender_extra", &format!("machine={}", machine), format!("port {:04X} is not claimed by the extender but reached it", port)));
                }
            }
            if dontcare || devs.len() > 1 {
                ctx.ambiguous += 1;
                ctx.probe("multi_device_skipped");
                // resynchronise every canary from the machine
                border = e.border_color() as u8;
                latch = e.verif_paging().0;
                ay_resync(&mut e, &mut ay_regs, &mut ay_sel, ayp);
                continue;
            }
            let mut hs = Fnv::new();
            hs.u8(conf.m128 as u8 | (conf.kempston as u8) << 1 | (conf.mouse as u8) << 2);
            hs.str(&describe(&devs));
            hs.u8(write as u8);
            ctx.state(hs.get());
            if write {
                // expected effect on exactly one device
                match devs.first() {
                    Some(Dev::Ula) => {
                        ctx.probe("ula_write");
                        border = v & 7;
                        if last_ula_v == Some(v) {
                            ctx.probe("ula_same_value_again");
                        }
                        last_ula_v = Some(v);
                    }
                    Some(Dev::Paging) => {
                        ctx.probe("paging_write");
                        if port != 0x7FFD {
                            ctx.probe("paging_alias");
                        }
                        if latch & 0x20 == 0 {
                            latch = v;
                        } else {
                            ctx.probe("paging_write_while_locked");
                        }
                    }
                    Some(Dev::AySel) => {
                        ctx.probe("ay_select");
                        if port != 0xFFFD {
                            ctx.probe("ay_alias");
                        }
                        ay_sel = (v & 0x0F) as usize;
                    }
                    Some(Dev::AyData) => {
                        ctx.probe("ay_data");
                        if port != 0xBFFD {
                            ctx.probe("ay_alias");
                        }
                        ay_regs[ay_sel] = v;
                    }
                    _ => ctx.probe("unclaimed_write"),
                }
                // all canaries
                let b = e.border_color() as u8;
                if b != border {
                    return Err(Fail::new(
                        "C07.border",
                        &format!("machine={},sel={}", machine, describe(&devs)),
                        format!("after OUT ({:04X}),{:02X} the border colour is {} but should be {} (selected: {})", port, v, b, border, describe(&devs)),
                    ));
                }
                if m128 {
                    let l = e.verif_paging().0;
                    let top = e.peek(0xFFF0);
                    if l != latch || top != 0xB0 + (latch & 7) {
                        return Err(Fail::new(
                            "C07.paging",
                            &format!("machine={},sel={}", machine, describe(&devs)),
                            format!("after OUT ({:04X}),{:02X} the paging latch is {:02X} (bank marker {:02X}) but should be {:02X} (selected: {})", port, v, l, top, latch, describe(&devs)),
                        ));
                    }
                }
                let ay_now = e.verif_bus().read_io(ayp);
                let expv = ay_regs[ay_sel];
                if ay_now != expv && ay_now != expv & AY_MASK[ay_sel] {
                    return Err(Fail::new(
                        "C07.ay",
                        &format!("machine={},sel={}", machine, describe(&devs)),
                        format!("after OUT ({:04X}),{:02X} the AY read-back (register {}) is {:02X} but should be {:02X} (selected: {})", port, v, ay_sel, ay_now, expv, describe(&devs)),
                    ));
                }
            } else {
                let exp: Option<u8> = match devs.first() {
                    Some(Dev::Ula) => {
                        ctx.probe("ula_read");
                        let sel = (port >> 8) as u8;
                        let mut bits = 0x1Fu8;
                        for row in 0..8 {
                            if sel & (1 << row) == 0 {
                                for bit in 0..5 {
                                    if keys[row * 5 + bit] {
                                        bits &= !(1 << bit);
                                    }
                                }
                            }
                        }
                        // bit 6 = EAR (low: no tape); bits 5 and 7 are not specified
                        if tape_playing {
                            // whatever even address is used, bit 6 is the deck's level: compare with an
                            // immediate read of the canonical port (an edge may fall between the two reads,
                            // never between three successive pairs: pulses last at least 667 T)
                            let canon = *[0x7FFEu16, 0xBFFE, 0xDFFE, 0xEFFE, 0xF7FE, 0xFBFE].iter().find(|p| !claimed.contains(p)).unwrap_or(&0xFDFE);
                            let mut agree = ((e.verif_bus().read_io(canon) ^ got) >> 6) & 1 == 0;
                            for _ in 0..2 {
                                if agree {
                                    break;
                                }
                                let x = cpu_io(&mut e, port, None)?;
                                let y = e.verif_bus().read_io(canon);
                                agree = ((x ^ y) >> 6) & 1 == 0;
                            }
                            if !agree {
                                return Err(Fail::new("C07.ear_port", &format!("machine={},hi_ff={}", machine, (port >> 8 == 0xFF) as u8), format!("while a pilot tone plays, bit 6 of IN {:04X} disagrees with bit 6 of IN {:04X} in three successive pairs of reads", port, canon)));
                            }
                            ear_seen[((got >> 6) & 1) as usize] += 1;
                            if ear_first_t.is_none() {
                                ear_first_t = Some(abs_t);
                            }
                            ear_last_t = abs_t;
                        }
                        let cmp_mask = if tape_playing { 0x1F } else { 0x5F };
                        if got & cmp_mask != bits {
                            return Err(Fail::new("C07.ula_read", &format!("machine={}", machine), format!("IN {:04X} returned {:02X}; keyboard rows give bits {:05b} and EAR is low", port, got, bits)));
                        }
                        None
                    }
                    Some(Dev::AySel) => {
                        ctx.probe("ay_read");
                        let expv = ay_regs[ay_sel];
                        if got != expv && got != expv & AY_MASK[ay_sel] {
                            return Err(Fail::new("C07.ay_read", &format!("machine={}", machine), format!("IN {:04X} returned {:02X}, AY register {} holds {:02X}", port, got, ay_sel, expv)));
                        }
                        None
                    }
                    Some(Dev::Kempston) => {
                        ctx.probe("kempston_read");
                        Some(kemp)
                    }
                    Some(Dev::MouseButtons) if mouse_ref_ok => {
                        ctx.probe("mouse_read");
                        Some(mb)
                    }
                    Some(Dev::MouseX) if mouse_ref_ok => {
                        ctx.probe("mouse_read");
                        Some(mx)
                    }
                    Some(Dev::MouseY) if mouse_ref_ok => {
                        ctx.probe("mouse_read");
                        Some(my)
                    }
                    Some(_) => None,
                    None if {
                        // exact floating-bus model when nothing delays the port cycle: IN A,(C) from
                        // uncontended code on a port whose high byte is not in contended RAM samples the bus in
                        // the last T-state of its port cycle (start + 11). The ULA fetches display byte,
                        // attribute, display byte + 1, attribute + 1 in the T-states T0+3 .. T0+6 of every
                        // 8-T group of the 128-T window, and idles (0xFF) in the other four.
                        let hi = (port >> 8) as u8;
                        let contended_hi = (0x40..0x80).contains(&hi) || (m128 && hi >= 0xC0 && (latch & 1 == 1));
                        !contended_hi
                    } =>
                    {
                        ctx.probe("floating_exact");
                        let ts = t + 11;
                        let first = ula.t0 + 3;
                        let mut expv = 0xFFu8;
                        if ts >= first {
                            let x = ts - first;
                            let line = (x / ula.line) as usize;
                            let c = x % ula.line;
                            if line < 192 && c < 128 && c & 4 == 0 {
                                let col = ((c / 8) * 2 + (c % 8) / 2) as usize;
                                expv = if c % 2 == 0 { screen_byte(line, col) } else { attr_byte(line / 8, col) };
                                ctx.probe("floating_fetch");
                            } else {
                                ctx.probe("floating_border");
                            }
                        } else {
                            ctx.probe("floating_border");
                        }
                        if got != expv {
                            return Err(Fail::new(
                                "C07.floating_bus",
                                &format!("machine={},beam={},exact=1", machine, beam),
                                format!("IN {:04X} (no device selected) started at T={} (bus sampled at T={}): returned {:02X}, the ULA fetch schedule gives {:02X}", port, t, ts, got, expv),
                            ));
                        }
                        None
                    }
                    None => {
                        // floating bus
                        let tr = t + 8; // the port cycle of IN A,(C) starts after the two opcode fetches
                        let mut allowed: Vec<u8> = vec![0xFF];
                        let mut in_fetch = false;
                        for dt in 0..=32u64 {
                            let tt = tr + dt;
                            if tt >= ula.t0 {
                                let d = tt - ula.t0;
                                let line = (d / ula.line) as usize;
                                let x = d % ula.line;
                                if line < 192 && x < 128 + 8 {
                                    in_fetch = x < 128;
                                    let col = (x / 4) as i64;
                                    for dc in -4i64..=4 {
                                        let c = col + dc;
                                        if (0..32).contains(&c) {
                                            allowed.push(screen_byte(line, c as usize));
                                            allowed.push(attr_byte(line / 8, c as usize));
                                        }
                                    }
                                }
                            }
                        }
                        if beam == 2 {
                            ctx.probe("floating_fetch");
                        } else {
                            ctx.probe("floating_border");
                        }
                        let _ = in_fetch;
                        if beam != 2 {
                            // at least 8 T away from any fetch window
                            let d = (tr + f - ula.t0) % f;
                            let x = d % ula.line;
                            let far = tr + 12 < ula.t0 || d / ula.line >= 192 || (x >= 128 + 8 && x + 12 + 8 < ula.line);
                            if far {
                                allowed = vec![0xFF];
                            }
                        }
                        // a port cycle the ULA stretches (contended high byte) still samples the bus in its last T-state:
                        // that moment is known from the machine's own clock at the end of the instruction (the length
                        // of such cycles is C04's matter), and the ULA's fetch schedule says what is on the bus then
                        if t_end > t + 11 && t_end < f {
                            ctx.probe("floating_exact_stretched_cycle");
                            let ts = t_end - 1;
                            let first = ula.t0 + 3;
                            let mut expv = 0xFFu8;
                            if ts >= first {
                                let x = ts - first;
                                let line = (x / ula.line) as usize;
                                let c = x % ula.line;
                                if line < 192 && c < 128 && c & 4 == 0 {
                                    let col = ((c / 8) * 2 + (c % 8) / 2) as usize;
                                    expv = if c % 2 == 0 { screen_byte(line, col) } else { attr_byte(line / 8, col) };
                                }
                            }
                            if got != expv {
                                return Err(Fail::new(
                                    "C07.floating_bus",
                                    &format!("machine={},beam={},exact=2", machine, beam),
                                    format!("IN {:04X} (no device selected, port cycle stretched by the ULA) started at T={} and ended at T={} (bus sampled at T={}): returned {:02X}, the ULA fetch schedule gives {:02X}", port, t, t_end, ts, got, expv),
                                ));
                            }
                        }
                        if !allowed.contains(&got) {
                            return Err(Fail::new(
                                "C07.floating_bus",
                                &format!("machine={},beam={}", machine, beam),
                                format!("IN {:04X} (no device selected) at T={} returned {:02X}; allowed here: 0xFF{}", port, t, got, if allowed.len() > 1 { " or a display/attribute byte of the line being fetched" } else { " only (ULA is not fetching)" }),
                            ));
                        }
                        None
                    }
                };
                if let Some(x) = exp {
                    if got != x {
                        return Err(Fail::new(
                            "C07.device_read",
                            &format!("machine={},sel={}", machine, describe(&devs)),
                            format!("IN {:04X} returned {:02X}, the selected device ({}) holds {:02X}", port, got, describe(&devs), x),
                        ));
                    }
                }
                // reads never change a canary
                if e.border_color() as u8 != border || (m128 && e.verif_paging().0 != latch) {
                    return Err(Fail::new("C07.read_side_effect", &format!("machine={}", machine), format!("IN {:04X} changed the border colour or the paging latch", port)));
                }
            }
        }
        if tape_playing && ear_seen[0] + ear_seen[1] >= 34 {
            ctx.probe("ear_follows_tape");
            if ear_seen[0] == 0 || ear_seen[1] == 0 {
                return Err(Fail::new(
                    "C07.ear_bit",
                    &format!("machine={}", machine),
                    format!("a pilot tone is playing, yet bit 6 of {} ULA reads spread over the frame was always {}", ear_seen[0] + ear_seen[1], if ear_seen[0] == 0 { 1 } else { 0 }),
                ));
            }
        }
        let _ = (ear_first_t, ear_last_t);
        Ok(())
    }
}

/// re-reads all AY registers through the canonical ports and restores the selection
fn ay_resync(e: &mut Emu, regs: &mut [u8; 16], sel: &mut usize, ayp: u16) {
    // the selection itself cannot be read: probe it by writing through the canonical select port
    let keep = *sel;
    for r in 0..16 {
        e.verif_bus().write_io(ayp, r as u8);
        regs[r] = e.verif_bus().read_io(ayp);
    }
    e.verif_bus().write_io(ayp, keep as u8);
    *sel = keep;
}
