//! C12 — play / stop / rewind behave like a cassette deck for every command history.
//! Component level: the real `Tap` state machine on a simulated asset; time advanced in bus-wait
//! sized steps; commands land at arbitrary waveform phases.

use crate::host::{AssetPlan, EofStyle, SimAsset};
use crate::prng::{Fnv, Rng};
use crate::runner::{Fail, Property, RunCtx, Tier};
use crate::scenario::{Op, Scenario};
use rustzx_core::verif::{Tap, TapeImpl};
use zxref::tape::{self, BlockEnd};

pub struct C12;

pub const PAUSE_MIN: u64 = 3_150_000;
pub const PAUSE_MAX: u64 = 3_850_000 + tape::PILOT + tape::TOL;

/// Generates a small random tape (blocks short so that a run stays cheap).
pub fn gen_tape(rng: &mut Rng, max_blocks: usize, max_len: usize) -> Vec<Vec<u8>> {
    let n = rng.range(1, max_blocks as i64) as usize;
    let mut blocks = vec![];
    for _ in 0..n {
        let flag = match rng.below(4) {
            0 => 0x00,
            1 => 0xFF,
            _ => rng.u8(),
        };
        let len = *rng.pick(&[0usize, 1, 2, 5, 17, 19, 40, 125, 126, 127, 128, 129, 130, 200, 254, 255, 256, 257, 300]);
        let len = len.min(max_len);
        let payload = match rng.below(4) {
            0 => vec![0u8; len],
            1 => vec![0xFFu8; len],
            _ => rng.bytes(len),
        };
        blocks.push(tape::std_block(flag, &payload));
    }
    blocks
}

/// Deterministic step-size source for `adv` ops (derived from the op's own argument, not from
/// the run PRNG, so that an op list replays identically).
pub struct Steps {
    rng: Rng,
    mode: i64,
}
impl Steps {
    pub fn new(seed: i64, mode: i64) -> Steps {
        Steps { rng: Rng::new(seed as u64 ^ 0x5151), mode }
    }
    #[inline]
    pub fn next(&mut self) -> u64 {
        match self.mode {
            0 => 1 + self.rng.below(16),
            1 => 16,
            2 => 1,
            3 => 1 + self.rng.below(8),
            4 => *self.rng.pick(&[3u64, 4, 4, 4, 7, 10, 11, 13]),
            _ => 1 + self.rng.below(16),
        }
    }
}


/// Everything observed during a deck history (times are *playing* time: it stands still while stopped)
pub struct Observed {
    pub pulses: Vec<u64>,
    pub pulse_end: Vec<u64>,
    pub resets: Vec<(u64, &'static str)>,
    pub disc: Vec<usize>,
    pub cause_log: Vec<(u64, &'static str)>,
    pub play_time: u64,
    pub last_edge: u64,
    pub playing: bool,
    /// observation tolerance of pulse lengths (early, late) in T-states
    pub tol: (u64, u64),
}

/// The oracle over a recorded deck history: the blocks decoded from the concatenated playing
/// intervals are the tape's blocks, each once and in order, restarting after every rewind / end of tape.
pub fn evaluate(o: &Observed, blocks: &[Vec<u8>], ctx: &mut RunCtx) -> Result<(), Fail> {
    let (pulses, pulse_end, resets, disc, cause_log, play_time, last_edge, playing) = (&o.pulses, &o.pulse_end, &o.resets, &o.disc, &o.cause_log, o.play_time, o.last_edge, o.playing);
    // ---- evaluate the decoded blocks
    let dec = tape::decode_tol(pulses, o.tol.0, o.tol.1);
    if std::env::var("VERIF_DEBUG").is_ok() {
        for d in &dec {
            eprintln!("decoded: {} bytes pilot={} first={} endp={} end={:?} bad={} pause={}", d.bytes.len(), d.pilot, d.first_pulse, d.end_pulse, d.end, d.bad_len, d.pause_len);
        }
        eprintln!("resets: {:?} pulses={} play_time={}", resets, pulses.len(), play_time);
    }
    let pulse_start = |i: usize| -> u64 {
        if i == 0 {
            0
        } else {
            pulse_end[i - 1]
        }
    };
    let mut expect = 0usize;
    let mut ri = 0usize;
    let cause_for = |t0: u64, t1: u64| -> &'static str {
        // most recent logged pattern before the end of the block
        cause_log.iter().rev().find(|c| c.0 <= t1 && c.0 + 40_000_000 >= t0).map(|c| c.1).unwrap_or("none")
    };
    for d in &dec {
        let t_first = pulse_start(d.first_pulse);
        // a block belongs to the tape position in force when its sync starts: a rewind during the
        // leader only restarts the leader
        let sync_idx = (d.first_pulse + d.pilot as usize).min(pulses.len());
        let t_start = pulse_start(sync_idx).max(t_first);
        let t_end = if d.end_pulse < pulse_end.len() { pulse_end[d.end_pulse] } else { play_time };
        let mut pilot_clean = d.pilot;
        while ri < resets.len() && resets[ri].0 <= t_start {
            if resets[ri].0 > t_first {
                // leader pulses that started after this reset
                pilot_clean = (d.first_pulse..sync_idx).filter(|&i| pulse_start(i) >= resets[ri].0).count() as u64;
            }
            if resets[ri].1 == "end" && expect != blocks.len() {
                return Err(Fail::new(
                    "C12.spontaneous_stop",
                    &format!("cause={}", cause_for(0, resets[ri].0)),
                    format!("deck stopped by itself at play time {} after {} of {} blocks", resets[ri].0, expect, blocks.len()),
                ));
            }
            expect = 0;
            ri += 1;
        }
        // reset inside the block: exempt
        if ri < resets.len() && resets[ri].0 <= t_end && resets[ri].1 == "rewind" {
            continue;
        }
        match d.end {
            BlockEnd::Cut if disc.contains(&d.end_pulse) => {
                // cut by the rewind itself
            }
            BlockEnd::Cut => {
                return Err(Fail::new(
                    "C12.block_cut",
                    &format!("cause={}", cause_for(t_start, t_end)),
                    format!(
                        "block {} was cut after {} bytes by a pulse of {} T at play time {} (no rewind in between); expected {} bytes",
                        expect,
                        d.bytes.len(),
                        d.bad_len,
                        t_end,
                        blocks.get(expect).map(|b| b.len()).unwrap_or(0)
                    ),
                ));
            }
            BlockEnd::StreamEnd => {
                let exp = blocks.get(expect);
                let ok = match exp {
                    Some(e) => e.len() >= d.bytes.len() && e[..d.bytes.len()] == d.bytes[..],
                    None => false,
                };
                if !ok {
                    return Err(Fail::new(
                        "C12.block_sequence",
                        &format!("cause={}", cause_for(t_start, t_end)),
                        format!("in-progress block {} carries bytes that are not a prefix of the tape's block (got {} bytes)", expect, d.bytes.len()),
                    ));
                }
                // the last block before the deck ran off the end is followed by silence only
                if exp.map(|e| e.len()) == Some(d.bytes.len()) {
                    expect += 1;
                    ctx.probe("block_decoded");
                }
            }
            BlockEnd::Pause => {
                let exp = blocks.get(expect);
                if exp.map(|e| e[..] == d.bytes[..]) != Some(true) {
                    return Err(Fail::new(
                        "C12.block_sequence",
                        &format!("cause={}", cause_for(t_start, t_end)),
                        format!(
                            "decoded block #{} since the last rewind/end has {} bytes {:02x?}..., tape block has {} bytes",
                            expect,
                            d.bytes.len(),
                            &d.bytes[..d.bytes.len().min(4)],
                            exp.map(|e| e.len()).unwrap_or(0)
                        ),
                    ));
                }
                let nom = tape::pilot_count(&d.bytes);
                let bad_pilot = if nom == tape::PILOT_HEADER && pilot_clean == d.pilot { d.pilot + 1 < nom || d.pilot > nom } else { pilot_clean + 1 < nom };
                if bad_pilot {
                    return Err(Fail::new(
                        "C12.pilot",
                        &format!("cause={}", cause_for(t_start, t_end)),
                        format!("block {} has a pilot of {} pulses ({} since the last rewind/end), nominal {}", expect, d.pilot, pilot_clean, nom),
                    ));
                }
                if d.pause_len < PAUSE_MIN || d.pause_len > PAUSE_MAX {
                    // a long pulse that ends the run (deck stopped at the end) may be shorter: only
                    // judge pauses that were terminated by a real edge
                    if d.end_pulse < pulses.len() {
                        return Err(Fail::new("C12.pause", "", format!("pause after block {} lasted {} T", expect, d.pause_len)));
                    }
                }
                expect += 1;
                ctx.probe("block_decoded");
            }
        }
    }
    while ri < resets.len() {
        if resets[ri].1 == "end" && expect != blocks.len() {
            return Err(Fail::new(
                "C12.spontaneous_stop",
                &format!("cause={}", cause_for(0, resets[ri].0)),
                format!("deck stopped by itself at play time {} after {} of {} blocks", resets[ri].0, expect, blocks.len()),
            ));
        }
        expect = 0;
        ri += 1;
    }
    // liveness: while playing, silence never exceeds a pause
    for (i, &p) in pulses.iter().enumerate() {
        if p > PAUSE_MAX {
            return Err(Fail::new("C12.no_progress", "", format!("no edge for {} T of playing time (pulse #{})", p, i)));
        }
    }
    if playing && play_time - last_edge > PAUSE_MAX {
        return Err(Fail::new("C12.no_progress", "", format!("deck playing but silent for {} T at the end of the run", play_time - last_edge)));
    }
    Ok(())
}

impl C12 {
    /// System level: the same command histories through `Emulator::play_tape / stop_tape / rewind_tape`,
    /// the EAR level observed through the ULA port (every port read takes 4..10 T of emulated time,
    /// which is also what advances the tape), histories kept inside the tape's duration.
    fn exec_system(&self, sc: &Scenario, ctx: &mut RunCtx) -> Result<(), Fail> {
        use crate::machine::*;
        use rustzx_z80::Z80Bus;
        let img = sc.ops.iter().find(|o| o.k == "tape").map(|o| o.b.clone()).unwrap_or_default();
        let (blocks, tail) = tape::tap_blocks(&img);
        if tail.is_some() || blocks.iter().any(|b| b.is_empty()) || blocks.is_empty() {
            return Ok(());
        }
        let m128 = sc.get("m128") != 0;
        let cfg = MCfg { m128, sound: false, ..Default::default() };
        let mut e = new_emu(&cfg);
        let plan = AssetPlan { max_chunk: sc.get("chunk").max(0) as usize, ..Default::default() };
        e.load_tape(rustzx_core::host::Tape::Tap(crate::host::AnyAsset::Sim(SimAsset::new(img.clone(), plan).0))).map_err(|x| Fail::new("C12.load", "", format!("{:?}", x)))?;
        let f = cfg.frame_len() as u64;
        let port = 0xBFFEu16;
        let mut o = Observed { pulses: vec![], pulse_end: vec![], resets: vec![], disc: vec![], cause_log: vec![], play_time: 0, last_edge: 0, playing: false, tol: (12, tape::TOL + 12) };
        let mut level = (e.verif_bus().read_io(port) >> 6) & 1;
        let mut just_stopped = false;
        let total: u64 = blocks.iter().map(|b| tape::block_duration(b) + 3_500_000).sum::<u64>();
        for op in &sc.ops {
            match op.k.as_str() {
                "play" => {
                    e.play_tape();
                    o.playing = true;
                    ctx.fault("deck_play@phase");
                }
                "stop" => {
                    e.stop_tape();
                    if o.playing {
                        just_stopped = true;
                    }
                    o.playing = false;
                    ctx.fault("deck_stop@phase");
                }
                "rewind" => {
                    if e.rewind_tape().is_err() {
                        return Err(Fail::new("C12.rewind_err", "system=1", "rewind_tape failed on a healthy asset".into()));
                    }
                    ctx.fault("deck_rewind@phase");
                    if o.playing {
                        o.pulses.push(o.play_time - o.last_edge);
                        o.pulse_end.push(o.play_time);
                        o.disc.push(o.pulses.len() - 1);
                        o.last_edge = o.play_time;
                    }
                    o.disc.push(o.pulses.len());
                    o.resets.push((o.play_time, "rewind"));
                    level = (e.verif_bus().read_io(port) >> 6) & 1;
                }
                "adv" => {
                    let mut left = op.arg(0).max(0) as u64;
                    // stay inside the tape: running off the end cannot be observed at this level
                    if o.playing && o.play_time + left + 4_000_000 > total {
                        left = (total.saturating_sub(o.play_time + 4_000_000)).min(left);
                    }
                    let mut wr = Rng::new(op.arg(1) as u64 ^ 0x0F7E);
                    while left > 0 {
                        let before = e.verif_frame_clocks() as u64;
                        // the program also writes the ULA port now and then (border, speaker, MIC): the EAR input is
                        // the tape's level whatever was written
                        if wr.below(48) == 0 {
                            ctx.probe("system_ula_write_between_reads");
                            e.verif_bus().write_io(0x00FE, wr.u8() & 0x1F);
                        }
                        let v = (e.verif_bus().read_io(port) >> 6) & 1;
                        let after = e.verif_frame_clocks() as u64;
                        let dt = if after >= before { after - before } else { after + f - before };
                        left = left.saturating_sub(dt);
                        ctx.sim_t += dt;
                        let first_after_stop = just_stopped;
                        just_stopped = false;
                        if o.playing {
                            o.play_time += dt;
                            if v != level {
                                o.pulses.push(o.play_time - o.last_edge);
                                o.pulse_end.push(o.play_time);
                                o.last_edge = o.play_time;
                                level = v;
                            }
                        } else if v != level && first_after_stop {
                            // the port read samples the EAR bit one T-state before its cycle ends: an edge produced in
                            // that last T-state of the last read before the stop command is seen only now
                            o.pulses.push(o.play_time - o.last_edge);
                            o.pulse_end.push(o.play_time);
                            o.last_edge = o.play_time;
                            level = v;
                        } else if v != level {
                            return Err(Fail::new("C12.edge_while_stopped", "system=1", format!("EAR bit of the ULA port changed while the deck was stopped (play time {})", o.play_time)));
                        }
                    }
                    ctx.units += 1;
                }
                _ => {}
            }
        }
        ctx.probe("system_history");
        evaluate(&o, &blocks, ctx)?;
        // ---- and through the public deck controls: the tape is played off its end (the deck stops by itself), PLAY
        // is pressed again, and the pilot tone of the first block must be back within a few frames
        if img.len() % 2 == 0 {
            ctx.probe("system_play_after_running_off_the_end");
            e.play_tape();
            let mut left = total + 8_000_000;
            while left > 0 {
                e.verif_bus().wait_internal(16);
                left = left.saturating_sub(16);
            }
            e.play_tape();
            let mut level = (e.verif_bus().read_io(port) >> 6) & 1;
            let mut edges = 0u32;
            for _ in 0..60_000 {
                let v = (e.verif_bus().read_io(port) >> 6) & 1;
                if v != level {
                    edges += 1;
                    level = v;
                }
            }
            if edges < 40 {
                return Err(Fail::new("C12.play_after_end_ignored", "system=1", format!("after the tape ran off its end PLAY was pressed again: {} EAR edges in the next 240000 T (a pilot tone has about 110)", edges)));
            }
        }
        Ok(())
    }
}

impl Property for C12 {
    fn id(&self) -> &'static str {
        "C12"
    }
    fn runs(&self, tier: Tier) -> u64 {
        match tier {
            Tier::Quick => 400,
            Tier::Thorough => 30_000,
        }
    }
    fn rule(&self) -> &'static str {
        "seeded histories over {play, stop, rewind, advance n T (in 1..16 T bus-wait steps)} on the real Tap \
         state machine with commands aimed at waveform phases (pilot, sync, mid-byte, 128-byte refill, pause, after \
         end); a third of the histories aim the first stop by counting edges (last pilot pulse / sync 1 / sync 2 / first bit); two per batch use tapes of 258..515 blocks rewound inside block 256 or 512; distinct = (command, waveform phase class at the command, deck state before, avoid-known mode)"
    }
    fn state_measure(&self) -> &'static str {
        "distinct (deck playing?, phase class, blocks emitted since reset) triples observed at command time"
    }
    fn real_components(&self) -> Vec<&'static str> {
        vec!["rustzx_core::zx::tape::Tap (TapeImpl: play/stop/rewind/process_clocks/current_bit/can_fast_load)"]
    }
    fn stub_components(&self) -> Vec<&'static str> {
        vec!["tape asset (SimAsset: chunked reads, read counter)", "RefTape decoder (zxref::tape)", "CPU/ULA (time advanced directly by process_clocks)"]
    }
    fn assumptions(&self) -> Vec<&'static str> {
        vec![
            "tapes are well-formed TAP images with blocks of 2..302 bytes",
            "time steps are 1..16 T-states as in the property text; the deck is observed after every step",
            "can_fast_load() is taken as the deck's 'stopped' indicator",
        ]
    }
    fn expected_probes(&self) -> Vec<&'static str> {
        vec!["stop_mid_pilot", "stop_mid_byte", "stop_in_pause", "stop_while_stopped", "play_after_end", "rewind_while_playing", "rewind_while_stopped", "ran_off_end", "stop_at_refill", "system_history", "stop_aimed_by_edge_count", "system_ula_write_between_reads", "system_play_after_running_off_the_end"]
    }

    fn gen(&self, rng: &mut Rng, _tier: Tier, idx: u64) -> Scenario {
        let mut sc = Scenario::new();
        let avoid_known = idx % 4 == 3;
        sc.set("avoid_known", avoid_known as i64);
        sc.set("system", (idx % 10 == 9) as i64);
        sc.set("m128", rng.bool() as i64);
        if idx % 200 == 151 {
            // a tape of more than 256 (or 512) blocks, rewound while the block behind a multiple of 256 plays
            let nblocks = *rng.pick(&[258usize, 258, 300, 515]);
            let blocks: Vec<Vec<u8>> = (0..nblocks).map(|i| tape::std_block(0xFF, &[i as u8])).collect();
            sc.set("system", 0);
            sc.set("chunk", *rng.pick(&[0i64, 3, 128]));
            sc.set("eof_err", rng.bool() as i64);
            sc.set("step_mode", 1);
            sc.push(Op::blob("tape", &[], tape::make_tap(&blocks)));
            // edges per block: pilot 3223, two sync pulses, 3 x 16 bit pulses (and the pause, +-1)
            let per = 3223 + 2 + 48;
            let k = if nblocks > 512 && rng.bool() { 512 } else { 256 };
            let target = *rng.pick(&[k - 1, k - 1, k - 1, k, k - 2]) as i64;
            sc.op("play", &[]);
            sc.op("adv", &[(target + 2) * 11_000_000, rng.next() as i64 & 0xFFFF, target * per + rng.range(300, 2800), rng.range(0, 3000)]);
            if rng.bool() {
                sc.op("stop", &[]);
                sc.op("adv", &[1000, 1, 0, 0]);
            }
            sc.op("rewind", &[]);
            sc.op("play", &[]);
            // two blocks after the rewind
            sc.op("adv", &[2 * (3223 * 2168 + 3_500_000 + 48 * 1710) + rng.range(0, 2_000_000), rng.next() as i64 & 0xFFFF, 0, 0]);
            return sc;
        }
        let blocks = gen_tape(rng, 3, 302);
        let img = tape::make_tap(&blocks);
        let chunk = *rng.pick(&[0i64, 1, 2, 3, 7, 64, 128, 129]);
        sc.set("chunk", chunk);
        sc.set("eof_err", rng.bool() as i64);
        sc.push(Op::blob("tape", &[], img));
        // approximate timeline (nominal) to aim commands
        let mut segs: Vec<(u64, u64, &str)> = vec![]; // (start, end, class)
        let mut t = 0u64;
        for b in &blocks {
            let pil = tape::pilot_count(b) * tape::PILOT;
            segs.push((t, t + pil, "pilot"));
            t += pil;
            segs.push((t, t + tape::SYNC1 + tape::SYNC2, "sync"));
            t += tape::SYNC1 + tape::SYNC2;
            let data = tape::block_duration(b) - pil - tape::SYNC1 - tape::SYNC2;
            segs.push((t, t + data, "data"));
            t += data;
            segs.push((t, t + 3_500_000, "pause"));
            t += 3_500_000;
        }
        let total = t;
        let n_cmds = rng.range(2, 14);
        let mut playing = false;
        let mut pos = 0u64; // approximate play position
        let mode = *rng.pick(&[0i64, 0, 0, 1, 3, 4]);
        sc.set("step_mode", mode);
        if rng.chance(1, 3) {
            // the first command after PLAY lands around the end of the first pilot tone, aimed by counting edges:
            // last pilot pulse, first or second sync pulse, first data bit
            let nom = tape::pilot_count(&blocks[0]) as i64;
            sc.op("play", &[]);
            sc.op("adv", &[(nom + 8) * 2200, rng.next() as i64 & 0xFFFF, nom + rng.range(-2, 2), rng.range(0, 800)]);
            playing = true;
            pos = segs[1].0 + 700;
        }
        for _ in 0..n_cmds {
            // choose a command
            let cmd = if !playing {
                match rng.below(10) {
                    0..=5 => "play",
                    6 => {
                        if avoid_known {
                            "play"
                        } else {
                            "stop"
                        }
                    }
                    7 | 8 => "rewind",
                    _ => "play",
                }
            } else {
                match rng.below(10) {
                    0..=5 => "stop",
                    6 => "play",
                    7 => "rewind",
                    _ => "stop",
                }
            };
            sc.op(cmd, &[]);
            match cmd {
                "play" => playing = true,
                "stop" => playing = false,
                "rewind" => pos = 0,
                _ => {}
            }
            // choose how far to advance: aim at a phase
            let n = if playing {
                let target_kind = rng.below(8);
                let seg_pick: Vec<&(u64, u64, &str)> = segs.iter().filter(|s| s.1 > pos).collect();
                let aimed = if !seg_pick.is_empty() && target_kind < 6 {
                    let want = match target_kind {
                        0 | 1 => "pilot",
                        2 => "sync",
                        3 | 4 => "data",
                        _ => "pause",
                    };
                    let cands: Vec<&&(u64, u64, &str)> = seg_pick.iter().filter(|s| s.2 == want).collect();
                    if let Some(s) = cands.first() {
                        let lo = s.0.max(pos);
                        let target = lo + rng.below((s.1 - lo).max(1));
                        // refill boundary bias: byte 128 of a data segment
                        let target = if want == "data" && rng.chance(1, 3) { (s.0 + 128 * 16 * 1282 / 1).min(s.1.saturating_sub(1)).max(lo) + rng.below(3000) } else { target };
                        Some(target - pos)
                    } else {
                        None
                    }
                } else {
                    None
                };
                match aimed {
                    Some(d) => d,
                    None => {
                        if target_kind == 6 {
                            (total.saturating_sub(pos)) + rng.below(8_000_000) // run off the end
                        } else {
                            rng.below(60_000)
                        }
                    }
                }
            } else {
                *rng.pick(&[0u64, 1, 100, 5_000, 100_000, 4_000_000])
            };
            if playing {
                pos += n;
                if pos > total + 3000 {
                    // deck will have stopped at the end of tape
                    playing = false;
                    pos = 0;
                    if avoid_known {
                        // the known stale-state defect needs a play after the end: end the history here
                        sc.op("adv", &[n as i64, rng.next() as i64 & 0xFFFF]);
                        break;
                    }
                }
            }
            sc.op("adv", &[n as i64, rng.next() as i64 & 0xFFFF]);
        }
        sc
    }

    fn exec(&self, sc: &Scenario, ctx: &mut RunCtx) -> Result<(), Fail> {
        if sc.get("system") != 0 {
            return self.exec_system(sc, ctx);
        }
        let img = sc.ops.iter().find(|o| o.k == "tape").map(|o| o.b.clone()).unwrap_or_default();
        let (blocks, tail) = tape::tap_blocks(&img);
        if tail.is_some() || blocks.iter().any(|b| b.is_empty()) || (img.len() % 2 == 1 && blocks.is_empty()) {
            return Ok(()); // outside the property's domain (malformed tape, e.g. produced by the minimiser)
        }
        let chunk = sc.get("chunk") as usize;
        let plan = AssetPlan {
            max_chunk: chunk,
            eof: if sc.get("eof_err") != 0 { EofStyle::Err } else { EofStyle::Ok0 },
            label: "tape",
            ..Default::default()
        };
        let (asset, stats) = SimAsset::new(img.clone(), plan);
        let mut tap = match Tap::from_asset(asset) {
            Ok(t) => t,
            Err(e) => return Err(Fail::new("C12.load", "", format!("Tap::from_asset failed: {:?}", e))),
        };
        let mode = sc.get("step_mode");
        // model
        let mut playing = false;
        let mut play_time = 0u64;
        let mut level = tap.current_bit();
        let mut last_edge: u64 = 0;
        let mut pulses: Vec<u64> = vec![];
        let mut pulse_end: Vec<u64> = vec![];
        let mut resets: Vec<(u64, &'static str)> = vec![];
        let mut disc: Vec<usize> = vec![];
        let mut stopped_while_stopped_since_play = false;
        let mut had_stop_play_cycle = false;
        let mut cause_log: Vec<(u64, &'static str)> = vec![]; // (play_time, pattern) for witnesses
        let mut emitted_since_reset_hint = 0u64;
        let phase_of = |pulses: &Vec<u64>, play_time: u64, last_edge: u64| -> &'static str {
            // coarse phase class from the most recent pulses
            let since = play_time - last_edge;
            if since > 3000 {
                return "pause";
            }
            match pulses.last().map(|&p| tape::classify(p)) {
                Some(tape::PulseClass::Pilot) => "pilot",
                Some(tape::PulseClass::Sync1) | Some(tape::PulseClass::Sync2) => "sync",
                Some(tape::PulseClass::Bit0) | Some(tape::PulseClass::Bit1) => "data",
                Some(tape::PulseClass::Long) => "pilot",
                _ => "start",
            }
        };
        for op in &sc.ops {
            match op.k.as_str() {
                "tape" => {}
                "play" | "stop" | "rewind" => {
                    let ph = if playing { phase_of(&pulses, play_time, last_edge) } else { "stopped" };
                    let mut h = Fnv::new();
                    h.str(&op.k);
                    h.str(ph);
                    h.u8(playing as u8);
                    h.u8(sc.get("avoid_known") as u8);
                    ctx.cover(h.get());
                    let mut h2 = Fnv::new();
                    h2.u8(playing as u8);
                    h2.str(ph);
                    h2.u64(emitted_since_reset_hint.min(4));
                    ctx.state(h2.get());
                    ctx.fault(match op.k.as_str() {
                        "play" => "deck_play@phase",
                        "stop" => "deck_stop@phase",
                        _ => "deck_rewind@phase",
                    });
                    match op.k.as_str() {
                        "play" => {
                            if !playing {
                                if resets.last().map(|r| r.1) == Some("end") && resets.last().map(|r| r.0) == Some(play_time) {
                                    ctx.probe("play_after_end");
                                    if had_stop_play_cycle {
                                        cause_log.push((play_time, "play_after_end_with_earlier_stop"));
                                    }
                                }
                                if stopped_while_stopped_since_play {
                                    cause_log.push((play_time, "stop_while_stopped"));
                                }
                            }
                            tap.play();
                            playing = true;
                            stopped_while_stopped_since_play = false;
                        }
                        "stop" => {
                            if playing {
                                match ph {
                                    "pilot" => ctx.probe("stop_mid_pilot"),
                                    "data" => {
                                        ctx.probe("stop_mid_byte");
                                        // refill: around byte 128 of the block
                                        let bits: usize = pulses.iter().rev().take_while(|&&p| matches!(tape::classify(p), tape::PulseClass::Bit0 | tape::PulseClass::Bit1)).count() / 2;
                                        if (126 * 8..=130 * 8).contains(&bits) {
                                            ctx.probe("stop_at_refill");
                                        }
                                    }
                                    "pause" => ctx.probe("stop_in_pause"),
                                    _ => {}
                                }
                                had_stop_play_cycle = true;
                            } else {
                                ctx.probe("stop_while_stopped");
                                stopped_while_stopped_since_play = true;
                            }
                            tap.stop();
                            playing = false;
                            if !tap.can_fast_load() {
                                return Err(Fail::new("C12.stop_ignored", "", "deck still reports playing right after stop()".into()));
                            }
                        }
                        _ => {
                            if playing {
                                ctx.probe("rewind_while_playing");
                            } else {
                                ctx.probe("rewind_while_stopped");
                            }
                            if let Err(e) = tap.rewind() {
                                return Err(Fail::new("C12.rewind_err", "", format!("rewind failed on a healthy asset: {:?}", e)));
                            }
                            // the tape position jumps: the level may change at the command itself, and
                            // the pulse in progress is cut. Mark both sides as a discontinuity.
                            if playing {
                                pulses.push(play_time - last_edge);
                                pulse_end.push(play_time);
                                disc.push(pulses.len() - 1);
                                last_edge = play_time;
                            }
                            disc.push(pulses.len());
                            level = tap.current_bit();
                            resets.push((play_time, "rewind"));
                            emitted_since_reset_hint = 0;
                        }
                    }
                }
                "adv" => {
                    let mut left = op.arg(0).max(0) as u64;
                    let mut steps = Steps::new(op.arg(1), mode);
                    let mut reads_before = stats.borrow().reads;
                    // optional aim by counting: advance until this many more edges were seen (at most the given
                    // time), then `extra` T further
                    let mut edges_left = op.arg(2).max(0) as u64;
                    let extra = op.arg(3).max(0) as u64;
                    let aimed = edges_left > 0;
                    while left > 0 {
                        if aimed && !playing {
                            break;
                        }
                        if aimed && edges_left == 0 {
                            left = left.min(extra);
                            edges_left = u64::MAX;
                            ctx.probe("stop_aimed_by_edge_count");
                            if left == 0 {
                                break;
                            }
                        }
                        let s = steps.next().min(left);
                        left -= s;
                        if let Err(e) = tap.process_clocks(s as usize) {
                            return Err(Fail::new("C12.process_err", "", format!("process_clocks failed on a well-formed tape: {:?}", e)));
                        }
                        ctx.sim_t += s;
                        let now = tap.current_bit();
                        if playing {
                            reads_before = stats.borrow().reads;
                            play_time += s;
                            if now != level {
                                pulses.push(play_time - last_edge);
                                pulse_end.push(play_time);
                                last_edge = play_time;
                                level = now;
                                if aimed && edges_left != u64::MAX {
                                    edges_left = edges_left.saturating_sub(1);
                                }
                            }
                            if tap.can_fast_load() {
                                // deck stopped by itself: must be the end of the tape
                                ctx.probe("ran_off_end");
                                resets.push((play_time, "end"));
                                playing = false;
                                emitted_since_reset_hint = 0;
                            }
                        } else {
                            if stats.borrow().reads != reads_before {
                                return Err(Fail::new("C12.read_while_stopped", "", format!("tape asset was read while the deck was stopped (play_time {})", play_time)));
                            }
                            if now != level {
                                return Err(Fail::new("C12.edge_while_stopped", "", format!("EAR level changed while the deck was stopped (play_time {})", play_time)));
                            }
                            if !tap.can_fast_load() {
                                return Err(Fail::new("C12.playing_while_stopped", "", "deck reports playing although it was stopped".into()));
                            }
                        }
                    }
                    ctx.units += 1;
                }
                _ => {}
            }
            // no tape consumed while stopped: checked per op below
        }
        ctx.fault_n("short_read", stats.borrow().short_reads);
        let obs = Observed { pulses, pulse_end, resets, disc, cause_log, play_time, last_edge, playing, tol: (0, tape::TOL) };
        evaluate(&obs, &blocks, ctx)
    }
}
