//! C01 (architected results), C02 (interrupt / HALT / prefix sequencing), C03 (T-states and bus
//! cycles) — world A: real Z80 in lock-step with RefZ80 under a seeded instruction stream, port
//! answers and INT/NMI line schedule.

use crate::cpustate::CpuState;
use crate::prng::{Fnv, Rng};
use crate::runner::{Fail, Property, RunCtx, Tier};
use crate::scenario::{Op, Scenario};
use crate::worlda::*;
use zxref::z80::{Accepted, Page, StepInfo};

#[derive(Clone, Copy, PartialEq, Eq)]
pub enum Which {
    C01,
    C02,
    C03,
}

pub struct CpuProp(pub Which);

fn id_of(w: Which) -> &'static str {
    match w {
        Which::C01 => "C01",
        Which::C02 => "C02",
        Which::C03 => "C03",
    }
}

fn is_control_op(info: &StepInfo, pre: &CpuState) -> bool {
    if info.halt || pre.halted || pre.no_sample {
        return true;
    }
    match (info.page, info.opcode) {
        (Page::Base, 0xFB) | (Page::Base, 0xF3) | (Page::Base, 0x76) => true,
        (Page::DD, 0xFB) | (Page::DD, 0xF3) | (Page::FD, 0xFB) | (Page::FD, 0xF3) => true,
        (Page::ED, op) => matches!(op, 0x45 | 0x4D | 0x55 | 0x5D | 0x65 | 0x6D | 0x75 | 0x7D | 0x46 | 0x4E | 0x56 | 0x5E | 0x66 | 0x6E | 0x76 | 0x7E | 0x57 | 0x5F),
        _ => false,
    }
}

fn witness(info: &StepInfo, what: &str) -> String {
    let field = what.split(' ').next().unwrap_or("?");
    let acc = match info.accepted {
        Accepted::None => "",
        Accepted::Int => ",accepted=int",
        Accepted::Nmi => ",accepted=nmi",
    };
    format!("page={},op={:02X},variant={},field={}{}", page_name(info.page), info.opcode, info.variant, field, acc)
}

/// Independent monitors over the implementation's own history (C02 oracle 2).
struct Monitor {
    prev_m1: Vec<u8>,
}

impl Monitor {
    fn check(&mut self, w: &WorldA, out: &StepOutcome, pre_i: &CpuState, post_i: &CpuState) -> Option<(String, String)> {
        let ev = &out.ev_impl;
        let first_m1 = ev.iter().position(|e| matches!(e, Ev::Rd { clk: 4, .. })).unwrap_or(ev.len());
        let pushes: Vec<(u16, u8)> = ev[..first_m1].iter().filter_map(|e| if let Ev::Wr { addr, data, .. } = e { Some((*addr, *data)) } else { None }).collect();
        let accepted = pushes.len() == 2;
        // what was the previous instruction, from the opcode bytes the implementation itself fetched?
        let mut prev = self.prev_m1.clone();
        while prev.len() > 1 && (prev[0] == 0xDD || prev[0] == 0xFD) {
            prev.remove(0);
        }
        let prev_is_ei_di = prev == [0xFB] || prev == [0xF3];
        let mut res = None;
        if accepted {
            let (nmi, int) = out.lines;
            if prev_is_ei_di {
                res = Some(("C02.accept_after_ei_di".to_string(), "an interrupt was accepted at the boundary directly after EI/DI".to_string()));
            } else if !out.sampled {
                res = Some(("C02.accept_unsampled".to_string(), "an interrupt was accepted at a boundary that must not be sampled (prefix chain or EI/DI)".to_string()));
            } else if !nmi && !(int && pre_i.iff1) {
                res = Some(("C02.accept_not_allowed".to_string(), format!("interrupt entry with NMI={} INT={} IFF1={}", nmi, int, pre_i.iff1)));
            } else {
                let is_nmi = nmi;
                let ret = (pushes[0].1 as u16) << 8 | pushes[1].1 as u16;
                let exp_ret = if pre_i.halted { pre_i.pc.wrapping_add(1) } else { pre_i.pc };
                let new_pc = match ev.get(first_m1) {
                    Some(Ev::Rd { addr, .. }) => *addr,
                    _ => 0xFFFF,
                };
                let reads: Vec<(u16, u8)> = ev[..first_m1].iter().filter_map(|e| if let Ev::Rd { addr, data, .. } = e { Some((*addr, *data)) } else { None }).collect();
                let exp_pc = if is_nmi {
                    0x66
                } else if pre_i.im == 2 {
                    if reads.len() == 2 {
                        (reads[1].1 as u16) << 8 | reads[0].1 as u16
                    } else {
                        0xFFFF
                    }
                } else {
                    0x38
                };
                if ret != exp_ret || pushes[0].0 != pre_i.sp.wrapping_sub(1) || pushes[1].0 != pre_i.sp.wrapping_sub(2) {
                    res = Some(("C02.pushed_pc".to_string(), format!("pushed {:04X} at {:04X}/{:04X}, expected return address {:04X} below SP {:04X}", ret, pushes[0].0, pushes[1].0, exp_ret, pre_i.sp)));
                } else if new_pc != exp_pc {
                    res = Some(("C02.vector".to_string(), format!("execution continued at {:04X}, expected {:04X} ({})", new_pc, exp_pc, if is_nmi { "NMI" } else { "INT" })));
                } else if !is_nmi && pre_i.im == 2 && (reads.len() != 2 || reads[0].0 >> 8 != pre_i.i as u16 || reads[1].0 != reads[0].0.wrapping_add(1)) {
                    res = Some(("C02.vector".to_string(), "IM 2 vector was not read from I*256+bus byte".to_string()));
                }
                // flip-flops right after entry cannot be observed (an instruction follows in the same
                // step) unless that instruction leaves them alone: checked through the reference.
                let _ = w;
            }
        } else if pre_i.halted {
            // halted and not released: one M1 at the same PC, only R and time advance
            let only_m1 = ev.len() == 1 && matches!(ev[0], Ev::Rd { clk: 4, addr, .. } if addr == pre_i.pc);
            let mut a = pre_i.clone();
            a.r = post_i.r;
            a.q = post_i.q;
            a.no_sample = post_i.no_sample;
            if !only_m1 || a != *post_i || post_i.r != ((pre_i.r & 0x80) | (pre_i.r.wrapping_add(1) & 0x7F)) {
                res = Some(("C02.halt_idle".to_string(), format!("a halted CPU did more than re-fetch at PC {:04X}: [{}]", pre_i.pc, show_evs(ev))));
            }
        }
        // RETN / RETI copy IFF2 to IFF1
        let m1s: Vec<u8> = ev[first_m1..].iter().filter_map(|e| if let Ev::Rd { clk: 4, data, .. } = e { Some(*data) } else { None }).collect();
        let mut stripped = m1s.clone();
        while stripped.len() > 1 && (stripped[0] == 0xDD || stripped[0] == 0xFD) {
            stripped.remove(0);
        }
        if res.is_none() && stripped.len() == 2 && stripped[0] == 0xED && matches!(stripped[1], 0x45 | 0x4D | 0x55 | 0x5D | 0x65 | 0x6D | 0x75 | 0x7D) && !accepted {
            if post_i.iff1 != pre_i.iff2 || post_i.iff2 != pre_i.iff2 {
                res = Some(("C02.retn_iff".to_string(), format!("RETN/RETI left IFF1={} IFF2={} with IFF2={} before", post_i.iff1, post_i.iff2, pre_i.iff2)));
            }
        }
        self.prev_m1 = m1s;
        res
    }
}

impl CpuProp {
    fn run_steps(&self, w: &mut WorldA, steps: usize, ctx: &mut RunCtx, lines_on: bool) -> Result<(), (Fail, Scenario)> {
        let me = self.0;
        let mut mon = Monitor { prev_m1: vec![] };
        w.compare_control = me == Which::C02;
        let mut first_step = true;
        for _ in 0..steps {
            let pre_i = CpuState::from_impl(&mut w.cpu);
            let out = w.step();
            if out.ambiguous {
                ctx.ambiguous += 1;
                return Ok(());
            }
            ctx.units += 1;
            ctx.sim_t += out.ev_impl.iter().map(|e| e.t() as u64).sum::<u64>();
            ctx.cover(cover_key(&out.info));
            // abstract control state (C02 measure)
            if me == Which::C02 {
                let mut h = Fnv::new();
                h.u8(out.pre.iff1 as u8);
                h.u8(out.pre.iff2 as u8);
                h.u8(out.pre.halted as u8);
                h.u8(out.pre.no_sample as u8);
                h.u8((out.info.ignored_prefixes > 0) as u8);
                h.u8(out.pre.im);
                h.u8(out.lines.1 as u8);
                h.u8(out.lines.0 as u8);
                h.u8(out.info.accepted as u8);
                ctx.state(h.get());
                match out.info.accepted {
                    Accepted::Int => {
                        ctx.fault("int@boundary");
                        if out.pre.halted {
                            ctx.probe("int_releases_halt");
                        }
                        match out.pre.im {
                            2 => ctx.probe("int_im2"),
                            _ => ctx.probe("int_im01"),
                        }
                    }
                    Accepted::Nmi => {
                        ctx.fault("nmi@boundary");
                        if out.pre.halted {
                            ctx.probe("nmi_releases_halt");
                        }
                    }
                    Accepted::None => {
                        if out.lines.1 && out.sampled && !out.pre.iff1 {
                            ctx.probe("int_masked");
                        }
                        if !out.sampled && out.pre.no_sample {
                            ctx.probe("boundary_after_ei_di_not_sampled");
                        }
                    }
                }
                if out.info.ignored_prefixes > 0 {
                    ctx.probe("prefix_chain");
                }
                if out.info.halt {
                    ctx.probe("halt_step");
                }
            } else {
                let mut h = Fnv::new();
                h.u8(out.info.page as u8);
                h.u8(out.info.opcode);
                ctx.state(h.get());
            }
            if out.info.variant == 1 {
                ctx.probe("variant_taken_or_repeat");
            }
            if out.info.ignored_prefixes > 0 {
                ctx.probe("ignored_prefix");
            }
            let post_i = CpuState::from_impl(&mut w.cpu);
            // property-specific verdicts
            match me {
                Which::C01 => {
                    if let Some(d) = &out.div {
                        let f = Fail::new("C01.result", &witness(&d.info, &d.what), format!("step {} ({} {:02X}): {}", d.step, page_name(d.info.page), d.info.opcode, d.what));
                        return Err((f, d.single.clone()));
                    }
                }
                Which::C03 => {
                    if let Some(d) = out.div.as_ref().filter(|d| d.kind == DivKind::Bus) {
                        // registers agree but the sequence of bus cycles differs: C03's business as well
                        let f = Fail::new("C03.cycles", &witness(&d.info, "cycles"), format!("step {} ({} {:02X} variant {}): {}", d.step, page_name(d.info.page), d.info.opcode, d.info.variant, d.what));
                        return Err((f, d.single.clone()));
                    }
                    if out.div.is_some() {
                        // value divergence: C01/C02 matter; lock-step cannot continue
                        ctx.probe("truncated_by_value_divergence");
                        return Ok(());
                    }
                    if let Some(d) = &out.timing_div {
                        let f = Fail::new("C03.cycles", &witness(&d.info, "cycles"), format!("step {} ({} {:02X} variant {}): {}", d.step, page_name(d.info.page), d.info.opcode, d.info.variant, d.what));
                        return Err((f, d.single.clone()));
                    }
                }
                Which::C02 => {
                    if out.unaligned {
                        ctx.probe("truncated_by_value_divergence");
                        return Ok(());
                    }
                    if let Some(d) = &out.sampling_div {
                        let f = Fail::new("C02.sequencing", &witness(&d.info, &d.what), format!("step {} ({} {:02X}, INT={} NMI={}): {}", d.step, page_name(d.info.page), d.info.opcode, out.lines.1, out.lines.0, d.what));
                        return Err((f, d.single.clone()));
                    }
                    if !first_step || true {
                        if let Some((site, text)) = mon.check(w, &out, &pre_i, &post_i) {
                            let single = out.div.as_ref().map(|d| d.single.clone()).or(out.timing_div.as_ref().map(|d| d.single.clone()));
                            let f = Fail::new(&site, &witness(&out.info, "monitor"), text);
                            return Err((f, single.unwrap_or_default()));
                        }
                    }
                    let entry_part = |ev: &Vec<Ev>| -> Vec<(u8, u16, u8)> {
                        let first_m1 = ev.iter().position(|e| matches!(e, Ev::Rd { clk: 4, .. })).unwrap_or(ev.len());
                        ev[..first_m1].iter().filter_map(|e| e.value()).collect()
                    };
                    if let Some(d) = out.div.as_ref().filter(|d| d.kind == DivKind::Bus && (d.info.accepted == Accepted::None || entry_part(&d.impl_ev) == entry_part(&d.ref_ev))) {
                        // same registers, different bus cycles, no interrupt entry involved: C01/C03's matter
                        let _ = d;
                        ctx.probe("truncated_by_value_divergence");
                        return Ok(());
                    }
                    if let Some(d) = &out.div {
                        // attribution: does the same single-instruction case diverge with the lines held inactive?
                        let mut quiet = d.single.clone();
                        for op in quiet.ops.iter_mut() {
                            if op.k == "lines" {
                                op.a = vec![0, 0];
                            }
                        }
                        let mut w2 = world_from_single(&quiet);
                        let o2 = w2.step();
                        let diverges_quiet = o2.div.is_some();
                        if d.lines_involved && !diverges_quiet || is_control_op(&d.info, &d.pre) || out.sampled != (!d.pre.no_sample) {
                            let f = Fail::new("C02.sequencing", &witness(&d.info, &d.what), format!("step {} ({} {:02X}, INT={} NMI={}): {}", d.step, page_name(d.info.page), d.info.opcode, out.lines.1, out.lines.0, d.what));
                            return Err((f, d.single.clone()));
                        }
                        ctx.probe("truncated_by_value_divergence");
                        return Ok(());
                    }
                }
            }
            first_step = false;
            let _ = lines_on;
        }
        Ok(())
    }
}

impl Property for CpuProp {
    fn id(&self) -> &'static str {
        id_of(self.0)
    }
    fn runs(&self, tier: Tier) -> u64 {
        match (self.0, tier) {
            (_, Tier::Quick) => 30_000,
            (Which::C01, Tier::Thorough) => 3_000_000,
            (Which::C02, Tier::Thorough) => 2_000_000,
            (Which::C03, Tier::Thorough) => 2_000_000,
        }
    }
    fn rule(&self) -> &'static str {
        match self.0 {
            Which::C01 => "seeded program runs (64 KiB themed random code, random full register file incl. MEMPTR/Q, 300..2000 instructions) and state-sweep runs (stratified over the 7 encoding pages x 256 opcodes with a fresh random state per instruction); every instruction compared with RefZ80 (registers, hidden state, ordered bus value history); distinct = (encoding page, opcode, timing/flag variant) triples executed and compared",
            Which::C02 => "program runs biased to EI/DI/HALT/RETN/RETI/IM/LD A,I/prefix chains under a seeded INT-level / NMI-edge schedule keyed by sampling opportunity, IM-2 bus byte random; lock-step with RefZ80 plus independent history monitors; one run in forty is a machine-level run (real Emulator vs RefZ80 on RefMem+RefULA, sequencing-critical instructions crafted to end inside the frame INT pulse, host actions - rejected snapshot files, snapshot saves, pokes - right behind them or inside a prefix chain; an interrupt taken or skipped against the rules is identified by re-running the reference step with the opposite decision); distinct = (encoding page, opcode, variant) executed; states = abstract control states (IFF1, IFF2, halted, after-EI/DI, prefix-pending, IM, INT, NMI, outcome)",
            Which::C03 => "the C01/C02 run shapes with the full timed bus-cycle list of every instruction compared with RefZ80's cycle script (M1=4, R/W=3, one-T delays with their address, port cycles, interrupt entry totals); distinct = (encoding page, opcode, variant) whose script was compared",
        }
    }
    fn state_measure(&self) -> &'static str {
        match self.0 {
            Which::C02 => "distinct (IFF1, IFF2, halted, after-EI/DI, prefix chain, IM, INT level, NMI edge, acceptance outcome) tuples at instruction boundaries",
            _ => "distinct (page, opcode) pairs",
        }
    }
    fn real_components(&self) -> Vec<&'static str> {
        vec!["rustzx_z80::Z80 (decoder, all opcode groups, interrupt entry, HALT, prefix handling, Regs)"]
    }
    fn stub_components(&self) -> Vec<&'static str> {
        vec!["Z80Bus (SimBus: flat 64 KiB RAM, seeded port answers, INT/NMI line scheduler, IM-2 bus byte, cycle recorder)", "RefZ80 reference CPU (zxref::z80) on an identical bus"]
    }
    fn assumptions(&self) -> Vec<&'static str> {
        vec![
            "RefZ80 is the truth: written from documentation, passes ZEXALL (67/67) and its own cycle-sum self-check; z80test tapes via selftest/refmodel.sh",
            "don't-cares (run truncated, counted in truncated_ambiguous): F3/F5 of a repeating block instruction at a PC where bits 11/13 of PC and PC+1 differ; DD/FD-prefixed HALT",
            "in interrupt-entry steps only the total of the acknowledge overhead is compared, not its position relative to the pushes",
            "INT is a level per sampling opportunity, NMI an edge consumed by the first sample that sees it",
        ]
    }
    fn expected_probes(&self) -> Vec<&'static str> {
        match self.0 {
            Which::C02 => vec!["int_im01", "int_im2", "int_releases_halt", "nmi_releases_halt", "int_masked", "boundary_after_ei_di_not_sampled", "prefix_chain", "halt_step", "lockstep_crafted_boundary", "lockstep_host_action", "lockstep_crafted_short_im2_handler", "prefix_chain_of_a_thousand"],
            _ => vec!["variant_taken_or_repeat", "ignored_prefix"],
        }
    }
    fn time_unit_hz(&self) -> f64 {
        3_500_000.0
    }

    fn gen(&self, rng: &mut Rng, _tier: Tier, idx: u64) -> Scenario {
        let mut sc = Scenario::new();
        if self.0 == Which::C02 && idx % 40 == 7 {
            // machine level: the real Emulator in lock-step with RefZ80 on the reference machine; sequencing
            // -critical instructions (EI, DI, prefix chains, HALT) are placed so that they end inside the
            // frame interrupt pulse, with host actions that must not disturb the CPU (rejected snapshot
            // loads, snapshot saves, idempotent pokes) right behind them or in the middle of a prefix chain
            sc.set("kind", 2);
            sc.set("m128", rng.bool() as i64);
            sc.set("seed", (rng.next() >> 2) as i64);
            sc.set("steps", 4000);
            return sc;
        }
        let sweep = self.0 != Which::C02 && idx % 2 == 1;
        if sweep {
            sc.set("kind", 1);
            sc.set("seed", (rng.next() >> 1) as i64);
            sc.set("n", rng.range(200, 1200));
            if self.0 == Which::C03 && rng.chance(1, 3) {
                sc.set("int_density", 150);
            }
            return sc;
        }
        sc.set("kind", 0);
        sc.set("mem_seed", (rng.next() >> 1) as i64);
        let theme = match self.0 {
            Which::C02 => *rng.pick(&[4usize, 4, 4, 6, 1, 0, 7, 3]),
            _ => rng.below(THEMES as u64) as usize,
        };
        sc.set("theme", theme as i64);
        sc.set("steps", rng.range(300, 2000));
        if self.0 == Which::C02 && idx % 250 == 17 {
            let n = *rng.pick(&[1023i64, 1024, 1025, 1026, 1027, 2050, 4100]);
            sc.set("chain", n);
            sc.set("steps", n + 40);
        }
        sc.set("io_seed", (rng.next() >> 1) as i64);
        sc.set("line_seed", (rng.next() >> 1) as i64);
        sc.set("bb_seed", (rng.next() >> 1) as i64);
        let (idn, ndn) = match self.0 {
            Which::C01 => (0, 0),
            Which::C02 => (*rng.pick(&[20i64, 60, 150, 400]), *rng.pick(&[0i64, 0, 5, 20, 80])),
            Which::C03 => {
                if rng.chance(1, 3) {
                    (*rng.pick(&[60i64, 150]), *rng.pick(&[0i64, 10]))
                } else {
                    (0, 0)
                }
            }
        };
        sc.set("int_density", idn);
        sc.set("nmi_density", ndn);
        let mut st = CpuState::random(rng);
        if self.0 == Which::C02 {
            st.iff1 = rng.chance(3, 4);
            st.iff2 = st.iff1 || rng.bool();
        }
        // stack and PC placement classes incl. wrap-around
        match rng.below(6) {
            0 => st.sp = *rng.pick(&[0u16, 1, 2, 0xFFFF, 0xFFFE]),
            1 => st.pc = *rng.pick(&[0xFFFFu16, 0xFFFE, 0xFFFD, 0]),
            _ => {}
        }
        sc.push(Op::new("regs", &st.to_ops()));
        sc
    }

    fn exec(&self, sc: &Scenario, ctx: &mut RunCtx) -> Result<(), Fail> {
        let kind = sc.get("kind");
        let r = match kind {
            2 => {
                return crate::lockstep::run(sc.get("m128") != 0, sc.get("seed") as u64, sc.get("steps").clamp(1, 50_000) as usize, crate::lockstep::Judge::Sequencing, "C02", ctx);
            }
            9 => {
                if !sc.ops.iter().any(|o| o.k == "regs") {
                    return Ok(());
                }
                let mut w = world_from_single(sc);
                self.run_steps(&mut w, 1, ctx, true)
            }
            1 => {
                // state sweep: independent single-instruction cases generated from the seed
                let mut rng = Rng::new(sc.get("seed") as u64);
                let n = sc.get("n").clamp(0, 5000) as usize;
                let int_density = sc.get("int_density") as u64;
                let mut res = Ok(());
                let mem = rng.bytes(65536);
                let mut w = WorldA::new(&CpuState::default(), Outside::new(mem, 0, vec![0], 0));
                for _ in 0..n {
                    let mut st = CpuState::random(&mut rng);
                    let mut enc = encode_stratified(&mut rng);
                    // operands that name the instruction itself (JP $, CALL $, LD HL,($) ..., JR $ / DJNZ $)
                    if rng.chance(1, 12) {
                        let [lo, hi] = st.pc.to_le_bytes();
                        match enc[0] {
                            0xCB => {}
                            0xED | 0xDD | 0xFD if enc.len() >= 4 && enc[1] != 0xCB => {
                                enc[2] = lo;
                                enc[3] = hi;
                            }
                            0xED | 0xDD | 0xFD => {}
                            _ => {
                                if rng.bool() {
                                    enc[1] = lo;
                                    enc[2] = hi;
                                } else {
                                    enc[1] = 0xFE;
                                }
                            }
                        }
                    }
                    // counters that select timing variants: small B / BC in a share of cases
                    match rng.below(8) {
                        0 => st.bc = (st.bc & 0x00FF) | 0x0100,
                        1 => st.bc = 1,
                        2 => st.bc = 0,
                        3 => st.bc = (st.bc & 0xFF00) | 1,
                        _ => {}
                    }
                    for (i, b) in enc.iter().enumerate() {
                        w.poke(st.pc.wrapping_add(i as u16), *b);
                    }
                    // A == (HL) hit for CPIR-style variants in a share of cases
                    if rng.chance(1, 8) {
                        w.poke(st.hl, (st.af >> 8) as u8);
                    }
                    let lines = if int_density > 0 && rng.below(1000) < int_density { vec![1u8] } else { vec![0u8] };
                    let (a, b) = (rng.next(), rng.next());
                    w.reset_case(&st, lines, a, b);
                    res = self.run_steps(&mut w, 1, ctx, int_density > 0);
                    if res.is_err() {
                        break;
                    }
                }
                res
            }
            _ => {
                let Some(regs) = sc.ops.iter().find(|o| o.k == "regs") else { return Ok(()) };
                let st = CpuState::from_ops(&regs.a);
                let steps = sc.get("steps").clamp(0, 20_000) as usize;
                let mut mem = gen_memory(sc.get("mem_seed") as u64, (sc.get("theme").clamp(0, THEMES as i64 - 1)) as usize);
                let mut lines = gen_lines(sc.get("line_seed") as u64, steps + 8, sc.get("int_density").clamp(0, 1000) as u64, sc.get("nmi_density").clamp(0, 1000) as u64);
                // a DD/FD chain of a thousand or more prefixes right at PC while the INT line is held active and
                // interrupts are enabled: the request waits until the instruction behind the chain has run
                let chain = sc.get("chain").clamp(0, 8000) as usize;
                let mut st = st;
                if chain > 0 {
                    ctx.probe("prefix_chain_of_a_thousand");
                    let mut r = Rng::new(sc.get("mem_seed") as u64 ^ 0xC4A1);
                    for i in 0..chain {
                        mem[(st.pc as usize + i) & 0xFFFF] = if r.bool() { 0xDD } else { 0xFD };
                    }
                    mem[(st.pc as usize + chain) & 0xFFFF] = *r.pick(&[0x00u8, 0x3E, 0x23, 0x7E, 0xE5]);
                    st.iff1 = true;
                    st.iff2 = true;
                    st.halted = false;
                    // (not yet at the boundary in front of the chain: it would be served there)
                    for (i, l) in lines.iter_mut().enumerate() {
                        *l = if i == 0 { 0 } else { *l & 2 | 1 };
                    }
                }
                let out = Outside::new(mem, sc.get("io_seed") as u64, lines, sc.get("bb_seed") as u64);
                let mut w = WorldA::new(&st, out);
                self.run_steps(&mut w, steps, ctx, true)
            }
        };
        match r {
            Ok(()) => Ok(()),
            Err((f, single)) => {
                // remember the reduction for `reduce`
                LAST_SINGLE.with(|l| *l.borrow_mut() = Some(single));
                Err(f)
            }
        }
    }

    fn reduce(&self, sc: &Scenario, _fail: &Fail) -> Option<Scenario> {
        if sc.get("kind") == 9 {
            return None;
        }
        let mut ctx = RunCtx::default();
        LAST_SINGLE.with(|l| *l.borrow_mut() = None);
        let _ = self.exec(sc, &mut ctx);
        LAST_SINGLE.with(|l| l.borrow_mut().take()).filter(|s| !s.ops.is_empty())
    }
    fn minimise_budget(&self) -> usize {
        120
    }
}

thread_local! {
    static LAST_SINGLE: std::cell::RefCell<Option<Scenario>> = const { std::cell::RefCell::new(None) };
}
