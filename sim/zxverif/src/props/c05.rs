//! C05 — frames last 69888/70908 T with a 32-T INT pulse; no T-state is ever lost.
//! World B: constant-time programs run for K frames under a seeded host slicing with exact
//! T-state accounting; INT-window probe; frame-length / carry-over probe.

use crate::cpustate::CpuState;
use crate::machine::*;
use crate::prng::{Fnv, Rng};
use crate::runner::{Fail, Property, RunCtx, Tier};
use crate::scenario::Scenario;

pub struct C05;

const LOOP: u16 = 0x8000;
const HANDLER: u16 = 0xBDBD;

fn setup_program(e: &mut Emu, kind: i64, r0: usize) {
    // main loop / idle loop in uncontended RAM
    match kind {
        3..=6 => {
            // DI; (kind-3) x INC HL; HALT  -- halted for good with interrupts disabled, entered at a T
            // that is not a multiple of 4 for odd counts
            let mut p = vec![0xF3];
            for _ in 0..(kind - 3) {
                p.push(0x23);
            }
            p.push(0x76);
            write_mem(e, LOOP, &p);
        }
        2 => write_mem(e, LOOP, &[0xFB, 0x76, 0xC3, 0x00, 0x80]), // EI; HALT; JP LOOP
        _ => write_mem(e, LOOP, &[0x23, 0xC3, 0x00, 0x80]),       // INC HL; JP LOOP
    }
    // IM 2 table (257 bytes of 0xBD at 0xBE00) and handler INC DE; EI; RET
    let table = vec![0xBDu8; 257];
    write_mem(e, 0xBE00, &table);
    write_mem(e, HANDLER, &[0x13, 0xFB, 0xC9]);
    let mut st = CpuState::default();
    st.pc = LOOP;
    st.sp = 0xBD00;
    st.i = 0xBE;
    st.im = 2;
    let ei = kind == 1 || kind == 2;
    st.iff1 = ei;
    st.iff2 = ei;
    st.to_impl(e.verif_cpu());
    if r0 > 0 {
        e.verif_set_frame_clocks(r0);
    }
}

impl Property for C05 {
    fn id(&self) -> &'static str {
        "C05"
    }
    fn runs(&self, tier: Tier) -> u64 {
        match tier {
            Tier::Quick => 1_200,
            Tier::Thorough => 60_000,
        }
    }
    fn rule(&self) -> &'static str {
        "kind 0: constant-time programs (DI busy loop, EI busy loop with a 39-T IM-2 handler, EI;HALT idle loop) in uncontended RAM run for K frames under a seeded host slicing (FrameCount(n), Max mode stopped by scripted stopwatch readings, breakpoint stops every n-th instruction; in a quarter of the runs an unreadable tape is started so that emulate_frames returns an error mid-frame and the host carries on) with the exact equation executed T = K*F + r_K - r_0 and interrupt count = K; kind 1: INT-window probe (clock set to x in [0,48) or around the frame end, one step, accepted iff x<32); kind 2: frame-length probe (NOP stream single-stepped across the frame end, remainder carried); kind 3: whole-machine lock-step of seeded random code (any instruction mix, contended or not, EI/DI/HALT/IM 0-2 as the bytes fall) against RefZ80 on RefMem+RefULA with no re-synchronisation: cumulative time (frames x F + clock) compared after every instruction, judged at frame crossings and interrupt entries. distinct = (machine, kind, program, K bucket, slicing kinds used, overrun r_K)"
    }
    fn state_measure(&self) -> &'static str {
        "distinct (machine, in-frame offset r at a checked boundary) pairs"
    }
    fn real_components(&self) -> Vec<&'static str> {
        vec!["Emulator::emulate_frames (all speed modes, breakpoints)", "ZXController (frame clock, new_frame, int_active)", "Z80 (interrupt acceptance, HALT)", "mixer/screen/border stepping (side effects only)"]
    }
    fn stub_components(&self) -> Vec<&'static str> {
        vec!["Host stopwatch (scripted)", "Host debug interface (every n-th instruction)", "frame buffers"]
    }
    fn assumptions(&self) -> Vec<&'static str> {
        vec!["programs live in uncontended RAM (0x8000-0xBFFF), so instruction times are the documented ones (C03) and independent of C04", "kinds 0-2 use programs in uncontended RAM; kind 3 (lock-step) runs arbitrary code and relies on RefULA for contention: a clock difference inside a frame is left to C04, a register difference to C01/C06 (the pair is re-synchronised)"]
    }
    fn expected_probes(&self) -> Vec<&'static str> {
        vec!["halted_di_program", "overrun_nonzero", "max_mode_call", "breakpoint_call", "multi_frame_call", "window_edge_31_32", "frame_end_step", "lockstep_frame_crossed", "lockstep_interrupt", "tape_error_survived", "snapshot_saved_between_calls", "pokes_while_stopped_mid_frame"]
    }

    fn gen(&self, rng: &mut Rng, tier: Tier, idx: u64) -> Scenario {
        let mut sc = Scenario::new();
        sc.set("m128", rng.bool() as i64);
        sc.set("dev", if rng.bool() { 0 } else { rng.range(1, 127) });
        let kind = match idx % 12 {
            0..=5 => 0,
            6 | 7 => 1,
            8 | 9 => 2,
            _ => 3,
        };
        let kind = if std::env::var("VERIF_ONLY_LOCKSTEP").is_ok() { 3 } else { kind };
        sc.set("kind", kind);
        if kind == 3 {
            sc.set("seed", (rng.next() >> 2) as i64);
            sc.set("steps", if tier == Tier::Quick { 2500 } else { 8000 });
            return sc;
        }
        match kind {
            0 => {
                sc.set("prog", *rng.pick(&[0i64, 0, 1, 1, 2, 2, 3, 4, 5, 6]));
                let kmax = if tier == Tier::Quick { 40 } else { 400 };
                let k = *rng.pick(&[1i64, 2, 3, 5, 16, 17]).min(&kmax).max(&1) + rng.range(0, kmax / 2);
                sc.set("frames", k);
                sc.set("r0", if rng.chance(1, 3) { rng.range(0, 69000) } else { 0 });
                sc.set("tape_err", if rng.chance(1, 4) { rng.range(1, 2) } else { 0 });
                sc.set("tape_at", rng.range(0, 3));
                sc.set("saves", rng.chance(1, 3) as i64);
                sc.set("pokes", rng.chance(1, 3) as i64);
                // slicing: list of calls until K frames are done
                let mut left = k;
                while left > 0 {
                    let mode = rng.range(0, 2);
                    let n = rng.range(1, 5).min(left);
                    let p = match mode {
                        1 => rng.range(0, 2),
                        2 => *rng.pick(&[0i64, 1, 3, 7, 50, 1000, 4368]),
                        _ => 0,
                    };
                    sc.op("call", &[mode, n, p, (rng.next() >> 16) as i64]);
                    left -= n;
                }
            }
            1 => {
                let f = if sc.get("m128") != 0 { 70908 } else { 69888 };
                let x = match rng.below(4) {
                    0 => rng.range(28, 36),
                    1 => rng.range(f - 8, f - 1),
                    _ => rng.range(0, 47),
                };
                sc.set("x", x);
                sc.set("im", rng.range(0, 2));
            }
            _ => {
                sc.set("back", rng.range(1, 60));
                sc.set("op", rng.range(0, 3));
            }
        }
        sc
    }

    fn exec(&self, sc: &Scenario, ctx: &mut RunCtx) -> Result<(), Fail> {
        let m128 = sc.get("m128") != 0;
        // sound / device settings are irrelevant to time keeping: seeded (dev bits: sound, beeper, AY,
        // Kempston, mouse; absent in older replay files = defaults)
        let dev = sc.get("dev");
        let cfg = if dev == 0 {
            MCfg { m128, ..Default::default() }
        } else {
            MCfg { m128, sound: dev & 1 != 0, beeper: dev & 2 != 0, ay: dev & 4 != 0, kempston: dev & 8 != 0, mouse: dev & 16 != 0, rate: [44100usize, 8000, 384000, 22050][(dev as usize >> 5) & 3], ..Default::default() }
        };
        let f = cfg.frame_len() as i64;
        let mut e = new_emu(&cfg);
        let machine = if m128 { "128k" } else { "48k" };
        // a debugging host pokes into screen memory (the value already there) while stopped at breakpoints
        crate::machine::POKE_AT_STOPS.with(|p| p.set(sc.get("pokes") != 0));
        if sc.get("pokes") != 0 {
            ctx.probe("pokes_while_stopped_mid_frame");
        }
        match sc.get("kind") {
            3 => {
                // whole-machine lock-step over random code: frame crossings and interrupt entries must
                // keep the cumulative clock equal to the reference machine's
                return crate::lockstep::run(m128, sc.get("seed") as u64, sc.get("steps").clamp(1, 50_000) as usize, crate::lockstep::Judge::FrameAccounting, "C05", ctx);
            }
            0 => {
                let prog = sc.get("prog").clamp(0, 6);
                let r_start = 0u8;
                let r0 = sc.get("r0").clamp(0, f - 100) as usize;
                setup_program(&mut e, prog, r0);
                let mut rng = Rng::new(0);
                let mut frames = 0i64;
                let mut hl_count: i64 = 0;
                let mut prev_hl: u16 = 0;
                let mut slices_used = 0u8;
                let tape_err = sc.get("tape_err") != 0;
                let tape_at = sc.get("tape_at").max(0);
                let mut call_no = 0i64;
                if tape_err {
                    // an empty TAP entry (InvalidTapFile when the deck reaches it), or a host asset whose read fails
                    let bad = sc.get("tape_err") == 1;
                    let img: Vec<u8> = if bad { vec![0x00, 0x00, 0x02, 0x00, 0xFF, 0xFF] } else { zxref::tape::make_tap(&[zxref::tape::std_block(0xFF, &[1, 2, 3])]) };
                    let plan = crate::host::AssetPlan { read_err_at: if bad { None } else { Some(1) }, ..Default::default() };
                    let (a, _) = crate::host::SimAsset::new(img, plan);
                    let _ = e.load_tape(rustzx_core::host::Tape::Tap(crate::host::AnyAsset::Sim(a)));
                }
                for op in sc.ops.iter().filter(|o| o.k == "call") {
                    let n = op.arg(1).clamp(1, 8) as usize;
                    let slice = match op.arg(0) {
                        1 => {
                            ctx.probe("max_mode_call");
                            ctx.fault("speed_max(stop after k checks)");
                            slices_used |= 2;
                            Slice::Max(n, op.arg(2).clamp(0, 2) as u8)
                        }
                        2 => {
                            ctx.probe("breakpoint_call");
                            ctx.fault("breakpoint_stop");
                            slices_used |= 4;
                            Slice::Break(op.arg(2).max(0) as u64, n)
                        }
                        _ => {
                            if n > 1 {
                                ctx.probe("multi_frame_call");
                            }
                            ctx.fault("host_slice(n)");
                            slices_used |= 1;
                            Slice::Count(n)
                        }
                    };
                    rng = Rng::new(op.arg(3) as u64);
                    let done = if tape_err {
                        // a tape that cannot be read is started before this call: emulate_frames reports the error
                        // in the middle of a frame, the host stops the deck and carries on. Time keeps being conserved.
                        if call_no == tape_at {
                            e.play_tape();
                        }
                        let (d, errs) = drive_tolerant(&mut e, slice).map_err(|x| Fail::new("C05.drive", "", x))?;
                        if errs > 0 {
                            ctx.probe("tape_error_survived");
                            ctx.fault_n("tape_read_error", errs as u64);
                        }
                        d
                    } else {
                        drive(&mut e, slice, &mut rng).map_err(|x| Fail::new("C05.drive", "", x))?
                    };
                    call_no += 1;
                    // the host takes a snapshot between two calls: no emulated time passes
                    if sc.get("saves") != 0 && (op.arg(3) >> 3) & 1 == 1 {
                        ctx.probe("snapshot_saved_between_calls");
                        let (rec, _out) = crate::host::SimRecorder::new(crate::host::RecorderPlan::default());
                        e.save_snapshot(rustzx_core::host::SnapshotRecorder::Sna(rec)).map_err(|x| Fail::new("C05.save_snapshot", "", format!("{:?}", x)))?;
                    }
                    frames += done as i64;
                    ctx.sim_t += (done as i64 * f) as u64;
                    // accounting at this host-visible frame boundary
                    let st = cpu_state(&mut e);
                    let r = e.verif_frame_clocks() as i64;
                    hl_count += (st.hl.wrapping_sub(prev_hl)) as i64;
                    prev_hl = st.hl;
                    let mut h = Fnv::new();
                    h.u8(m128 as u8);
                    h.u64(r as u64);
                    ctx.state(h.get());
                    if r > 0 {
                        ctx.probe("overrun_nonzero");
                    }
                    if r < 0 || r >= 32 {
                        let _ = r_start;
                        return Err(Fail::new("C05.overrun", &format!("machine={}", machine), format!("in-frame offset {} right after a completed frame (longest instruction here is 19 T)", r)));
                    }
                    let ints = st.de as i64;
                    if prog >= 3 {
                        // halted with interrupts disabled: every step is one 4-T fetch that increments R,
                        // so the elapsed time is 4 x (opcode fetches) + 2 per INC HL, modulo 512
                        ctx.probe("halted_di_program");
                        let n = prog - 3;
                        let dr = (st.r.wrapping_sub(r_start) & 0x7F) as i64;
                        let elapsed = frames * f + r - r0 as i64;
                        if !st.halted || (elapsed - (4 * dr + 2 * n)).rem_euclid(512) != 0 {
                            return Err(Fail::new(
                                "C05.conservation",
                                &format!("machine={},prog=di_halt", machine),
                                format!("DI; {}x INC HL; HALT run for {} frames (offset {} -> {}): elapsed T = {} but the CPU fetched {} (mod 128) opcodes, i.e. {} T (mod 512); halted = {}", n, frames, r0, r, elapsed, dr, (4 * dr + 2 * n).rem_euclid(512), st.halted),
                            ));
                        }
                        if ints != 0 {
                            return Err(Fail::new("C05.int_with_di", &format!("machine={}", machine), "interrupt accepted with interrupts disabled".into()));
                        }
                        continue;
                    }
                    if prog == 2 {
                        // idle loop: exactly one interrupt per frame, offset < 4 (HALT steps are 4 T)
                        let exp = frames - 1 + (r0 < 32) as i64;
                        if ints != exp {
                            return Err(Fail::new("C05.int_count", &format!("machine={},prog=halt", machine), format!("{} interrupts after {} frames (expected {})", ints, frames, exp)));
                        }
                        continue;
                    }
                    let phase = match st.pc {
                        0x8000 => 16 * hl_count,
                        0x8001 => 16 * (hl_count - 1) + 6,
                        _ => {
                            return Err(Fail::new("C05.pc", &format!("machine={}", machine), format!("CPU at {:04X} at a frame boundary, expected the main loop", st.pc)));
                        }
                    };
                    let executed = phase + 39 * ints;
                    let expected = frames * f + r - r0 as i64;
                    if executed != expected {
                        return Err(Fail::new(
                            "C05.conservation",
                            &format!("machine={},prog={}", machine, prog),
                            format!("after {} frames (offset {} -> {}): program executed {} T ({} loop iterations, {} interrupts) but frames*{} + offset difference = {} (diff {})", frames, r0, r, executed, hl_count, ints, f, expected, executed - expected),
                        ));
                    }
                    if prog == 1 {
                        let exp = frames - 1 + (r0 < 32) as i64;
                        if ints != exp {
                            return Err(Fail::new("C05.int_count", &format!("machine={},prog=busy", machine), format!("{} interrupts after {} frames (expected {})", ints, frames, exp)));
                        }
                    } else if ints != 0 {
                        return Err(Fail::new("C05.int_with_di", &format!("machine={}", machine), "interrupt accepted with interrupts disabled".into()));
                    }
                }
                let mut h = Fnv::new();
                h.u8(m128 as u8);
                h.u8(0);
                h.u64(prog as u64);
                h.u64(match frames {
                    0..=2 => 0,
                    3..=15 => 1,
                    16..=17 => 2,
                    18..=100 => 3,
                    _ => 4,
                });
                h.u8(slices_used);
                h.u64(e.verif_frame_clocks() as u64);
                ctx.cover(h.get());
                ctx.units += frames as u64;
            }
            1 => {
                // INT window probe
                let x = sc.get("x").clamp(0, f - 1) as usize;
                let im = sc.get("im").clamp(0, 2) as u8;
                write_mem(&mut e, 0x8000, &[0, 0, 0, 0]);
                write_mem(&mut e, 0xBE00, &vec![0xBD; 257]);
                write_mem(&mut e, HANDLER, &[0, 0, 0]);
                let mut st = CpuState::default();
                st.pc = 0x8000;
                st.sp = 0xBD00;
                st.iff1 = true;
                st.iff2 = true;
                st.im = im;
                st.i = 0xBE;
                st.to_impl(e.verif_cpu());
                e.verif_set_frame_clocks(x);
                step_public(&mut e).map_err(|m| Fail::new("C05.step", "", m))?;
                let after = cpu_state(&mut e);
                let accepted = !after.iff1;
                let expect = x < 32;
                if (31..=32).contains(&x) {
                    ctx.probe("window_edge_31_32");
                }
                if accepted != expect {
                    return Err(Fail::new(
                        "C05.int_window",
                        &format!("machine={},x={}", machine, x),
                        format!("with the frame clock at {} an enabled interrupt was {} (INT is asserted for T 0..31 only)", x, if accepted { "accepted" } else { "not accepted" }),
                    ));
                }
                let mut h = Fnv::new();
                h.u8(m128 as u8);
                h.u8(1);
                h.u64(x.min(48) as u64);
                h.u8(im);
                ctx.cover(h.get());
                ctx.units += 1;
                ctx.sim_t += 23;
            }
            _ => {
                // frame-length probe: single steps across the frame end with DI
                let back = sc.get("back").clamp(1, 200);
                let opk = sc.get("op").clamp(0, 3);
                // instruction stream of one kind: NOP(4) / INC HL(6) / LD A,(nn)(13) / PUSH HL(11)
                let (bytes, t): (&[u8], i64) = match opk {
                    0 => (&[0x00], 4),
                    1 => (&[0x23], 6),
                    2 => (&[0x3A, 0x00, 0x90], 13),
                    _ => (&[0xE5], 11),
                };
                let mut prog = vec![];
                for _ in 0..40 {
                    prog.extend_from_slice(bytes);
                }
                write_mem(&mut e, 0x8000, &prog);
                let mut st = CpuState::default();
                st.pc = 0x8000;
                st.sp = 0xB000;
                st.to_impl(e.verif_cpu());
                let start = f - back;
                e.verif_set_frame_clocks(start as usize);
                let mut tprev = start;
                let mut crossed = false;
                for _ in 0..30 {
                    let passed = step_public(&mut e).map_err(|m| Fail::new("C05.step", "", m))?;
                    let now = e.verif_frame_clocks() as i64;
                    let exp = tprev + t;
                    if exp >= f {
                        ctx.probe("frame_end_step");
                        if now != exp - f || passed != 1 {
                            return Err(Fail::new(
                                "C05.frame_length",
                                &format!("machine={}", machine),
                                format!("a {}-T instruction started at T={} of a {}-T frame: clock reads {} and {} frame(s) completed, expected {} and 1", t, tprev, f, now, passed, exp - f),
                            ));
                        }
                        crossed = true;
                        break;
                    }
                    if now != exp || passed != 0 {
                        return Err(Fail::new(
                            "C05.frame_length",
                            &format!("machine={}", machine),
                            format!("a {}-T instruction started at T={}: clock reads {} ({} frame(s) completed), expected {} and none (frame is {} T)", t, tprev, now, passed, exp, f),
                        ));
                    }
                    tprev = now;
                }
                if !crossed {
                    return Ok(());
                }
                let mut h = Fnv::new();
                h.u8(m128 as u8);
                h.u8(2);
                h.u64(back as u64);
                h.u64(opk as u64);
                ctx.cover(h.get());
                ctx.units += 1;
                ctx.sim_t += back as u64;
            }
        }
        Ok(())
    }
}
