//! C13 — SNA save then load restores the machine; saving is side-effect free.
//! World B: save at seeded machine states through a faulty recorder (short writes, error at the
//! k-th call, write-zero), load into the same emulator after more execution or into a fresh one in
//! a seeded dirty state; state equality, twin continuation, hash before/after save.

use super::c14::{gen_state, DIRT};
use crate::cpustate::CpuState;
use crate::host::*;
use crate::machine::*;
use crate::prng::{Fnv, Rng};
use crate::runner::{Fail, Property, RunCtx, Tier};
use crate::scenario::Scenario;
use crate::snapfmt::SnapState;
use rustzx_core::host::{Snapshot, SnapshotRecorder};
use rustzx_z80::Z80Bus;

pub struct C13;

/// puts an emulator into state `s` through hooks and port writes (no loader involved)
fn install(e: &mut Emu, s: &SnapState) {
    let m128 = s.m128;
    let banks: &[usize] = if m128 { &[0, 1, 2, 3, 4, 5, 6, 7] } else { &[5, 2, 0] };
    for &b in banks {
        let page = phys_page(m128, b as u8).unwrap();
        e.verif_ram_page(page).copy_from_slice(&s.banks[b]);
    }
    e.verif_refresh_screen();
    e.verif_bus().write_io(0x00FE, s.border);
    if m128 {
        e.verif_bus().write_io(0x7FFD, s.port_7ffd);
    }
    e.verif_set_frame_clocks(0);
    s.cpu.to_impl(e.verif_cpu());
}

fn full_hash(e: &mut Emu, m128: bool) -> u64 {
    // registers (incl. hidden), all RAM, paging, border; the frame clock is not machine state that a
    // save may not touch? It is: saving must not consume emulated time either.
    state_hash(e, m128, false)
}

impl Property for C13 {
    fn id(&self) -> &'static str {
        "C13"
    }
    fn runs(&self, tier: Tier) -> u64 {
        match tier {
            Tier::Quick => 2_400,
            Tier::Thorough => 80_000,
        }
    }
    fn rule(&self) -> &'static str {
        "per run: machine, a seeded state installed through hooks (all registers incl. alternates, IX/IY/SP/PC/I/R/IM/IFF2, border, 128K latch incl. lock bit, every RAM byte; SP placement classes incl. screen memory and top of RAM), optionally some instructions executed, save_snapshot(SNA) through a recorder with seeded short writes or an error / write-zero at the k-th call, then load into the same emulator after more execution or into a fresh emulator of the same model in a dirty state (halted, mid prefix chain, EI pending, paging locked on another bank, other border/IM/IFF, AY programmed); distinct = (machine, paged bank, lock, receiver dirt kind, SP region, recorder fault) SP classes include the 16 KiB page borders; in 1/8 of the runs the save is taken between a DD/FD prefix and its instruction (side-effect clause only)."
    }
    fn state_measure(&self) -> &'static str {
        "distinct (machine, 7FFD latch bits 0-5, receiver dirt kind) combinations round-tripped"
    }
    fn real_components(&self) -> Vec<&'static str> {
        vec!["snapshot::sna::save (ScopedSnapshotState, header, banks order)", "snapshot::sna::load", "DataRecorder::write_all default method", "Regs alternate-set getters", "ZXController::write_7ffd / read_7ffd"]
    }
    fn stub_components(&self) -> Vec<&'static str> {
        vec!["DataRecorder (SimRecorder: short writes, error / Ok(0) at call k)", "chunking SimAsset for the load", "independent SNA parser used to read the saved bytes"]
    }
    fn assumptions(&self) -> Vec<&'static str> {
        vec![
            "48K: the two bytes below SP are RAM (property's proviso) and are masked after a load (the format keeps PC there); before the twin continuation they are copied from the restored machine to the saved one",
            "what SNA cannot carry is equalised before the twin continuation: IFF1 := IFF2 at save time, MEMPTR, Q, position inside the frame; snapshots are taken at boundaries with no pending prefix / EI",
        ]
    }
    fn expected_probes(&self) -> Vec<&'static str> {
        vec!["recorder_short_writes", "recorder_error", "recorder_write_zero", "load_same_emulator", "load_fresh_dirty", "locked_state", "sp_in_screen", "twin_continuation", "save_failed_cleanly", "iff1_differs_from_iff2_at_save", "save_retried_after_failure", "cpu_halted_at_save", "save_inside_prefix_chain", "save_right_behind_ei", "save_with_sp_in_rom", "receiver_with_io_extender"]
    }

    fn gen(&self, rng: &mut Rng, _tier: Tier, _idx: u64) -> Scenario {
        let mut sc = Scenario::new();
        sc.set("m128", rng.bool() as i64);
        sc.set("seed", (rng.next() >> 8) as i64);
        sc.set("halted", rng.chance(1, 5) as i64);
        sc.set("sp_class", rng.range(0, 7));
        sc.set("prefix_at_save", rng.chance(1, 8) as i64);
        sc.set("ei_at_save", rng.chance(1, 8) as i64);
        sc.set("steps", *rng.pick(&[0i64, 0, 1, 7, 300]));
        sc.set("rec_fault", *rng.pick(&[0i64, 0, 0, 1, 1, 2, 3]));
        sc.set("rec_k", rng.range(0, 12));
        sc.set("rec_chunk", *rng.pick(&[1i64, 7, 100, 16384, 5000]));
        sc.set("receiver", rng.range(0, 1));
        sc.set("dirt", rng.range(0, 9));
        sc.set("more_frames", rng.range(0, 3));
        sc.set("chunk", *rng.pick(&[0i64, 1, 1000, 16384]));
        sc.set("iff_differ", rng.chance(1, 4) as i64);
        sc
    }

    fn exec(&self, sc: &Scenario, ctx: &mut RunCtx) -> Result<(), Fail> {
        let m128 = sc.get("m128") != 0;
        let machine = if m128 { "128k" } else { "48k" };
        let mut rng = Rng::new(sc.get("seed") as u64);
        let mut s = gen_state(&mut rng, m128);
        // SP placement classes
        s.cpu.sp = match sc.get("sp_class") {
            0 => 0x4002 + (rng.u16() & 0x17FE), // inside the display file
            1 => 0xFFFE,
            2 => 0x0000, // SP-2 = 0xFFFE, SP-1 = 0xFFFF: both RAM
            3 => 0xC002 + (rng.u16() & 0x3FF0),
            // the two bytes below SP straddle the border between two 16 KiB pages (or sit right at it)
            5 => *rng.pick(&[0xC001u16, 0xC001, 0xC000, 0xC002, 0xC003, 0x4002, 0x4003]), // (not around 0x8000: the idle program lives there)
            // the stack pointer parked in ROM (a program reading a ROM table with POP): outside what a load can
            // restore on the 48K, but taking the snapshot must still leave the machine - its ROM included - alone
            7 => *rng.pick(&[0x0002u16, 0x0012, 0x0100, 0x1234, 0x3FFF, 0x4000, 0x4001, 0x0001]),
            _ => s.cpu.sp,
        };
        if m128 && s.port_7ffd & 7 == 2 && s.cpu.sp >= 0xC000 && matches!(sc.get("sp_class"), 3 | 5) {
            // bank 2 in the top window: the stack would alias the idle program / IM 2 table at 0x8000..
            s.cpu.sp = 0x4002 + (s.cpu.sp & 1);
        }
        if sc.get("sp_class") == 0 {
            ctx.probe("sp_in_screen");
        }
        // SNA carries IFF2 only. In a share of the runs IFF1 differs from IFF2 at save time (the state
        // inside an NMI routine): IFF2 must still round-trip; the twin continuation is skipped then.
        let iff_differ = sc.get("iff_differ") != 0;
        if iff_differ {
            s.cpu.iff1 = !s.cpu.iff2;
            // keep the idle program idle: IFF1 set is only safe with the own IM 2 handler
            if s.cpu.iff1 && s.cpu.im != 2 {
                s.cpu.im = 2;
                s.cpu.i = 0xBE;
            }
        } else {
            s.cpu.iff1 = s.cpu.iff2;
        }
        if s.port_7ffd & 0x20 != 0 {
            ctx.probe("locked_state");
        }
        // a halted CPU at save time: PC stands on a HALT opcode (0x8002; behind it JR back to it). The format
        // has no HALT flag: the restored machine executes the HALT again, which is the same waiting state
        let halted_at_save = sc.get("halted") != 0;
        if halted_at_save {
            ctx.probe("cpu_halted_at_save");
            s.banks[2][2] = 0x76;
            s.banks[2][3] = 0x18;
            s.banks[2][4] = 0xFD;
            s.cpu.pc = 0x8002;
            s.cpu.halted = true;
            // with interrupts disabled: otherwise the pending frame interrupt is taken before the HALT is
            // re-executed after the load, which legitimately shifts the program by one wake-up
            s.cpu.iff1 = false;
            s.cpu.iff2 = false;
        }
        let cfg = MCfg { m128, ay: true, ..Default::default() };
        let mut e = new_emu(&cfg);
        install(&mut e, &s);
        // optionally execute some instructions to make the state "reachable" (idle loop + interrupts)
        let steps = sc.get("steps").clamp(0, 2000);
        for _ in 0..steps {
            step_public(&mut e).map_err(|x| Fail::new("C13.step", "", x))?;
        }
        // the host may stop the machine between a DD/FD prefix and the rest of the instruction and take the
        // snapshot there: nothing may be executed by the save (the format cannot carry the pending
        // prefix, so only the side-effect clause is judged for such saves)
        let prefix_at_save = sc.get("prefix_at_save") != 0 && !halted_at_save;
        if prefix_at_save {
            let mut stc = cpu_state(&mut e);
            if stc.pc == 0x8000 && !stc.halted {
                // (interrupts off for this one step: an accepted interrupt would come first)
                stc.iff1 = false;
                stc.iff2 = false;
                stc.to_impl(e.verif_cpu());
                write_mem(&mut e, 0x8000, &[0xDD, 0xFD, 0x36, 0x05, 0xAA]); // DD FD 36 d n: LD (IY+5),0xAA
                let _ = step_public(&mut e);
            }
            if e.verif_cpu().verif_prefix_pending() {
                ctx.probe("save_inside_prefix_chain");
            } else {
                return Ok(());
            }
        }
        // the host may also stop right behind an EI (breakpoint behind it, frame ending on it): IFF2 is set at that
        // moment and the file says so. The one-instruction interrupt inhibit cannot be carried by the format, so
        // the items are compared and the twin continuation is skipped.
        let ei_at_save = sc.get("ei_at_save") != 0 && !halted_at_save && !prefix_at_save && !iff_differ;
        let mut ei_pending_save = false;
        if ei_at_save {
            let stc = cpu_state(&mut e);
            if stc.pc == 0x8000 && !stc.halted {
                write_mem(&mut e, 0x8000, &[0xFB, 0x18, 0xFD]); // EI ; JR back to it
                let _ = step_public(&mut e);
                let now = cpu_state(&mut e);
                if now.no_sample && now.iff1 && now.iff2 && now.pc == 0x8001 {
                    ctx.probe("save_right_behind_ei");
                    ei_pending_save = true;
                }
            }
            if !ei_pending_save {
                return Ok(());
            }
        }
        // boundary must be clean (no pending prefix / EI)
        if !prefix_at_save && !ei_pending_save {
            let st = cpu_state(&mut e);
            if st.no_sample || e.verif_cpu().verif_prefix_pending() {
                step_public(&mut e).map_err(|x| Fail::new("C13.step", "", x))?;
            }
        }
        let saved_cpu = cpu_state(&mut e);
        let saved_border = e.border_color() as u8;
        let saved_latch = e.verif_paging();
        let banks: Vec<usize> = if m128 { (0..8).collect() } else { vec![5, 2, 0] };
        let saved_ram: Vec<Vec<u8>> = banks.iter().map(|&b| e.verif_ram_page(phys_page(m128, b as u8).unwrap()).to_vec()).collect();
        // ---- save through a faulty recorder; hash before == after
        let fault = sc.get("rec_fault").clamp(0, 3);
        let k = sc.get("rec_k").max(0) as u64;
        let plan = RecorderPlan {
            max_chunk: if fault == 1 { sc.get("rec_chunk").max(1) as usize } else { 0 },
            write_err_at: if fault == 2 { Some(k) } else { None },
            write_zero_at: if fault == 3 { Some(k) } else { None },
            ..Default::default()
        };
        match fault {
            1 => {
                ctx.probe("recorder_short_writes");
                ctx.fault("short_write(n)");
            }
            2 => {
                ctx.probe("recorder_error");
                ctx.fault("write_err@k");
            }
            3 => {
                ctx.probe("recorder_write_zero");
                ctx.fault("write_zero");
            }
            _ => {}
        }
        let rom_sum = |e: &mut Emu| -> u64 {
            let mut h = Fnv::new();
            for p in 0..if m128 { 2u8 } else { 1 } {
                for b in e.verif_rom_page(p).iter() {
                    h.u8(*b);
                }
            }
            h.get()
        };
        let sp_in_rom = sc.get("sp_class") == 7;
        let rom_before = if sp_in_rom { rom_sum(&mut e) } else { 0 };
        let h_before = full_hash(&mut e, m128);
        let (rec, out) = SimRecorder::new(plan);
        let r = crate::runner::catch(|| e.save_snapshot(SnapshotRecorder::Sna(rec)).map_err(|x| format!("{:?}", x)));
        let r = match r {
            Err(pi) => return Err(Fail::new("C13.panic", &format!("at={}", crate::runner::panic_site(&pi)), format!("save_snapshot panicked at {}:{}: {}", pi.file, pi.line, pi.msg))),
            Ok(r) => r,
        };
        let h_after = full_hash(&mut e, m128);
        if h_before != h_after {
            let now = cpu_state(&mut e);
            let mut what = format!("registers: {:?}", now.diff(&saved_cpu, 0));
            for (i, &b) in banks.iter().enumerate() {
                let page = e.verif_ram_page(phys_page(m128, b as u8).unwrap());
                if let Some(off) = page.iter().zip(saved_ram[i].iter()).position(|(x, y)| x != y) {
                    what = format!("RAM bank {} offset {:04X}: {:02X} -> {:02X} (SP was {:04X})", b, off, saved_ram[i][off], page[off], saved_cpu.sp);
                    break;
                }
            }
            return Err(Fail::new(
                "C13.save_side_effect",
                &format!("machine={},save_ok={}", machine, r.is_ok() as u8),
                format!("taking an SNA snapshot changed the running machine ({}); recorder fault kind {}", what, fault),
            ));
        }
        if sp_in_rom {
            ctx.probe("save_with_sp_in_rom");
            if rom_sum(&mut e) != rom_before {
                return Err(Fail::new("C13.save_side_effect", &format!("machine={},save_ok={},rom=1", machine, r.is_ok() as u8), format!("taking an SNA snapshot with SP = {:04X} changed the ROM of the running machine", saved_cpu.sp)));
            }
            ctx.units += 1;
            return Ok(());
        }
        if prefix_at_save {
            ctx.units += 1;
            return Ok(());
        }
        let mut bytes = out.borrow().clone();
        if fault >= 2 {
            // error clause: the save may fail, the machine must be untouched (checked above)
            if r.is_err() {
                ctx.probe("save_failed_cleanly");
                let mut h = Fnv::new();
                h.u8(m128 as u8);
                h.u64(fault as u64);
                h.u64(k.min(12));
                ctx.cover(h.get());
                // recovery: the host saves again through a healthy recorder; that file takes part in the
                // round trip below like any other
                if sc.get("seed") & 1 == 0 {
                    return Ok(());
                }
                ctx.probe("save_retried_after_failure");
                let (rec2, out2) = SimRecorder::new(RecorderPlan::default());
                if let Err(x) = e.save_snapshot(SnapshotRecorder::Sna(rec2)) {
                    return Err(Fail::new("C13.save_failed", &format!("machine={},retry=1", machine), format!("save_snapshot failed on a healthy recorder after an earlier failed save: {:?}", x)));
                }
                if full_hash(&mut e, m128) != h_before {
                    return Err(Fail::new("C13.save_side_effect", &format!("machine={},save_ok=1,retry=1", machine), "the second save (after a failed one) changed the running machine".into()));
                }
                bytes = out2.borrow().clone();
            }
            // otherwise the failing call index lay beyond the last write: the save succeeded
        } else if let Err(x) = &r {
            return Err(Fail::new("C13.save_failed", &format!("machine={}", machine), format!("save_snapshot failed on a healthy recorder (short writes only): {}", x)));
        }
        // ---- receiver
        let same = sc.get("receiver") == 0;
        let dirt = sc.get("dirt").clamp(0, 9) as usize;
        let mut fresh_holder: Option<Emu> = None;
        // the saved machine continues as the twin; it is kept in `e` unless we load into it
        let mut twin: Option<Emu> = None;
        if same {
            ctx.probe("load_same_emulator");
            // twin = a second machine put into the saved state through hooks
            let mut t = new_emu(&cfg);
            let mut s2 = s.clone();
            s2.cpu = saved_cpu.clone();
            for (i, &b) in banks.iter().enumerate() {
                s2.banks[b] = saved_ram[i].clone();
            }
            install(&mut t, &s2);
            twin = Some(t);
            // the original keeps running for a while (more execution, different border) before the load
            let more = sc.get("more_frames").clamp(0, 5) as usize;
            e.verif_bus().write_io(0x00FE, (saved_border + 3) & 7);
            run_frames(&mut e, more).map_err(|x| Fail::new("C13.run", "", x))?;
            ctx.sim_t += (more * cfg.frame_len()) as u64;
        } else {
            ctx.probe("load_fresh_dirty");
            let mut r2 = new_emu(&cfg);
            let mut drng = Rng::new(sc.get("seed") as u64 ^ 0xD13);
            super::c14::dirty_receiver(&mut r2, dirt, &mut drng, m128);
            fresh_holder = Some(r2);
        }
        ctx.fault("snapshot_load@instant");
        // the receiving machine may have a host I/O extender installed that claims ports of its own - the paging
        // port among them; restoring a snapshot is no port access and never goes through it
        let ext_on_receiver = (sc.get("seed") >> 29) & 3 == 0;
        if ext_on_receiver {
            ctx.probe("receiver_with_io_extender");
            let target: &mut Emu = if same { &mut e } else { fresh_holder.as_mut().unwrap() };
            target.set_io_extender(SimExtender { claimed: vec![0x7FFD, 0x00FE, 0xFFFD, 0xBFFD, 0x1FFD], log: vec![], read_xor: 0x5A });
        }
        let plan = AssetPlan { max_chunk: sc.get("chunk").max(0) as usize, ..Default::default() };
        let (asset, _) = SimAsset::new(bytes.clone(), plan);
        let target: &mut Emu = if same { &mut e } else { fresh_holder.as_mut().unwrap() };
        let lr = crate::runner::catch(|| target.load_snapshot(Snapshot::Sna(asset)).map_err(|x| format!("{:?}", x)));
        match lr {
            Err(pi) => return Err(Fail::new("C13.panic", &format!("at={}", crate::runner::panic_site(&pi)), format!("loading the saved snapshot panicked at {}:{}: {}", pi.file, pi.line, pi.msg))),
            Ok(Err(x)) => return Err(Fail::new("C13.load_failed", &format!("machine={},dirt={}", machine, if same { "same" } else { DIRT[dirt] }), format!("the emulator rejected its own snapshot ({} bytes): {}", bytes.len(), x))),
            Ok(Ok(())) => {}
        }
        if ext_on_receiver {
            // (the checks below write ports themselves: the extender goes back to claiming nothing)
            target.set_io_extender(SimExtender { claimed: vec![], log: vec![], read_xor: 0 });
        }
        // ---- every SNA-carried item equals the saved state
        let dname = if same { "same" } else { DIRT[dirt] };
        let got = cpu_state(target);
        let mut exp = saved_cpu.clone();
        exp.iff1 = exp.iff2;
        // SNA cannot say "halted": PC on the HALT opcode, not (yet) halted, is its representation
        exp.halted = false;
        exp.no_sample = false;
        exp.memptr = got.memptr;
        exp.q = got.q;
        if let Some((name, a, b)) = got.diff(&exp, 0) {
            let site = if matches!(name, "halted" | "no_sample") { "C13.transient_state" } else { "C13.register" };
            return Err(Fail::new(site, &format!("machine={},dirt={},field={}", machine, dname, name), format!("after save and load: {} = {:04X}, it was {:04X} when the snapshot was taken", name, a, b)));
        }
        if target.verif_cpu().verif_prefix_pending() {
            return Err(Fail::new("C13.transient_state", &format!("machine={},dirt={},field=prefix", machine, dname), "a DD/FD prefix of the receiver's old program is still pending after the load".into()));
        }
        if target.border_color() as u8 != saved_border {
            return Err(Fail::new("C13.border", &format!("machine={},dirt={}", machine, dname), format!("border_color() = {} after the round trip, it was {}", target.border_color() as u8, saved_border)));
        }
        if m128 {
            let now = target.verif_paging();
            if now != saved_latch {
                return Err(Fail::new(
                    "C13.paging",
                    &format!("machine={},dirt={}", machine, dname),
                    format!("paging after the round trip: latch {:02X} unlocked {} map {:?}; at save time: latch {:02X} unlocked {} map {:?}", now.0, now.1, now.2, saved_latch.0, saved_latch.1, saved_latch.2),
                ));
            }
            // behavioural: a further paging write is ignored iff the saved state was locked
            let before = target.verif_paging().2;
            target.verif_bus().write_io(0x7FFD, (saved_latch.0 ^ 0x07) & 0x1F);
            let after = target.verif_paging().2;
            let moved = before != after;
            if moved == (saved_latch.0 & 0x20 != 0) {
                return Err(Fail::new("C13.lock", &format!("machine={},dirt={}", machine, dname), format!("saved latch {:02X}: a later paging write was {} after the round trip", saved_latch.0, if moved { "accepted although paging was locked" } else { "ignored although paging was not locked" })));
            }
            // undo the probe write
            if moved {
                target.verif_bus().write_io(0x7FFD, saved_latch.0);
            }
        }
        for (i, &b) in banks.iter().enumerate() {
            let page = target.verif_ram_page(phys_page(m128, b as u8).unwrap()).to_vec();
            for off in 0..16384usize {
                if page[off] != saved_ram[i][off] {
                    // 48K: the two bytes below SP hold PC after a round trip
                    if !m128 {
                        let a: u16 = match b {
                            5 => 0x4000,
                            2 => 0x8000,
                            _ => 0xC000,
                        } + off as u16;
                        let d = saved_cpu.sp.wrapping_sub(a);
                        if d == 1 || d == 2 {
                            continue;
                        }
                    }
                    return Err(Fail::new("C13.ram", &format!("machine={},dirt={},bank={}", machine, dname, b), format!("RAM bank {} offset {:04X} is {:02X} after the round trip, it was {:02X}", b, off, page[off], saved_ram[i][off])));
                }
            }
        }
        if ei_pending_save {
            ctx.units += 1;
            return Ok(());
        }
        if iff_differ {
            ctx.probe("iff1_differs_from_iff2_at_save");
            ctx.units += 1;
            return Ok(());
        }
        // ---- twin continuation: saved machine vs restored machine
        let mut restored_owner;
        let (mut_twin, restored): (&mut Emu, &mut Emu) = if same {
            (twin.as_mut().unwrap(), &mut e)
        } else {
            restored_owner = fresh_holder.take().unwrap();
            (&mut e, &mut restored_owner)
        };
        ctx.probe("twin_continuation");
        // equalise what the format cannot carry
        let f = cfg.frame_len();
        for m in [&mut *mut_twin, &mut *restored] {
            let mut st = cpu_state(m);
            st.memptr = 0;
            st.q = 0;
            st.to_impl(m.verif_cpu());
            let c = m.verif_frame_clocks();
            m.verif_bus().wait_internal(f - c);
        }
        if !m128 {
            for d in 1..=2u16 {
                let a = saved_cpu.sp.wrapping_sub(d);
                let v = restored.peek(a);
                write_mem(mut_twin, a, &[v]);
            }
        }
        for _ in 0..3 {
            run_frames(mut_twin, 1).map_err(|x| Fail::new("C13.run", "", x))?;
            run_frames(restored, 1).map_err(|x| Fail::new("C13.run", "", x))?;
            let (h1, h2) = (state_hash(mut_twin, m128, false), state_hash(restored, m128, false));
            if h1 != h2 {
                let d = cpu_state(mut_twin).diff(&cpu_state(restored), 0);
                return Err(Fail::new(
                    "C13.continuation",
                    &format!("machine={},dirt={}", machine, dname),
                    format!("the saved machine and the machine restored from its snapshot ({} receiver) diverge while executing the same program (first register difference {:?})", dname, d),
                ));
            }
        }
        ctx.sim_t += (6 * f) as u64;
        ctx.units += 1;
        let mut h = Fnv::new();
        h.u8(m128 as u8);
        h.u8(saved_latch.0 & 0x27);
        h.u64(if same { 99 } else { dirt as u64 });
        h.u64(sc.get("sp_class") as u64);
        h.u64(fault as u64);
        ctx.cover(h.get());
        let mut hs = Fnv::new();
        hs.u8(m128 as u8);
        hs.u8(saved_latch.0 & 0x3F);
        hs.u64(if same { 99 } else { dirt as u64 });
        ctx.state(hs.get());
        Ok(())
    }
}
