//! C19 — audio arrives at exactly the configured rate and tracks the speaker bit.
//! World B: programs toggling bits 4/3 of port 0xFE at seeded T (observed by single-stepping),
//! seeded sample rates / volumes / device enables, host drain policy always / sometimes / never.

use crate::cpustate::CpuState;
use crate::machine::*;
use crate::prng::{Fnv, Rng};
use crate::runner::{Fail, Property, RunCtx, Tier};
use crate::scenario::Scenario;
use rustzx_z80::Z80Bus;

pub struct C19;

const IDLE: u16 = 0x8000;
const OUTS: u16 = 0x8010;

pub const RATES: [usize; 9] = [8000, 11025, 22050, 32000, 44100, 48000, 96000, 192000, 384000];

fn rng_byte(x: i64) -> u8 {
    (x as u8).wrapping_mul(37) & 7
}

fn level(v: u8) -> f64 {
    let ear = v & 0x10 != 0;
    let mic = v & 0x08 != 0;
    0.5 * ear as u8 as f64 + 0.1 * mic as u8 as f64
}

impl Property for C19 {
    fn id(&self) -> &'static str {
        "C19"
    }
    fn runs(&self, tier: Tier) -> u64 {
        match tier {
            Tier::Quick => 3_000,
            Tier::Thorough => 200_000,
        }
    }
    fn rule(&self) -> &'static str {
        "per run: machine, sample rate (9 standard rates 8000..384000 or random), volume 0..100, beeper/AY enables (AY optionally programmed with random registers), 3..10 frames each with 0..20 writes of bits 4/3 to port 0xFE at seeded T, SZX snapshot loads between frames (speaker/MIC levels taken from the file), drain policy always / every j-th frame / a seeded subset of the boundaries / never, with multi-frame host calls; oracle: samples per frame, per-sample beeper level +-1 sample, bounds, queue bound; snapshot loads between frames: SZX at frame start, SZX taken inside a frame, SNA, optionally over a halted CPU; distinct = (rate, machine, drain policy, toggles-per-frame bucket, device enables)"
    }
    fn state_measure(&self) -> &'static str {
        "distinct (samples-per-frame, toggle position in samples) pairs checked"
    }
    fn real_components(&self) -> Vec<&'static str> {
        vec!["ZXMixer (process, new_frame, ring buffer, volume)", "ZXBeeper", "ZXAyChip + aym::AymPrecise (when enabled)", "ZXController::write_io ULA branch / frame_pos", "Emulator::next_audio_sample"]
    }
    fn stub_components(&self) -> Vec<&'static str> {
        vec!["audio consumer (drain policy)", "host call slicing"]
    }
    fn assumptions(&self) -> Vec<&'static str> {
        vec![
            "beeper levels: speaker bit 0.5, MIC bit 0.1 of full scale, times volume/200 (taken from the mixer's documented factors)",
            "the per-sample level clause is checked with the AY disabled (the AY's own signal is C18's business); with the AY enabled only count, finiteness and bound are checked",
        ]
    }
    fn expected_probes(&self) -> Vec<&'static str> {
        vec!["drain_always", "drain_sometimes", "drain_never", "drain_pattern", "tracked_frame_after_skipped_drain", "toggle_checked", "ay_enabled", "many_toggles_in_frame", "multi_frame_call", "rate_low", "rate_high", "szx_load_between_frames", "ay_switched_by_host", "sound_enabled_after_construction", "snapshot_over_halted_cpu", "szx_taken_inside_a_frame", "sna_load_between_frames", "tape_playing_meanwhile"]
    }

    fn gen(&self, rng: &mut Rng, tier: Tier, _idx: u64) -> Scenario {
        let mut sc = Scenario::new();
        let m128 = rng.bool();
        sc.set("m128", m128 as i64);
        let rate = if rng.chance(3, 4) { *rng.pick(&RATES) as i64 } else { rng.range(8000, 384000) };
        sc.set("rate", rate);
        sc.set("volume", *rng.pick(&[0i64, 1, 50, 100, 100, 37]));
        sc.set("beeper", rng.chance(5, 6) as i64);
        sc.set("ay", rng.chance(1, 3) as i64);
        sc.set("ay_seed", if rng.bool() { (rng.next() >> 8) as i64 } else { 0 });
        sc.set("drain", *rng.pick(&[0i64, 0, 1, 2, 3, 3]));
        sc.set("drain_j", rng.range(2, 4));
        // policy 3: the host takes the audio at a seeded subset of the frame boundaries (bit i of the mask: boundary i)
        sc.set("drain_mask", (rng.next() >> 16) as i64 | if rng.bool() { 0b1011 } else { 0 });
        sc.set("sound_late", rng.chance(1, 4) as i64);
        sc.set("tape", rng.chance(1, 4) as i64);
        // a loud episode: AY at full DC level together with the speaker, at a high volume setting; later the host
        // stops mixing the AY and the beeper alone must come out exactly as before
        let loud = rng.chance(1, 16);
        if loud {
            sc.set("ay_loud", 1);
            sc.set("ay", 1);
            sc.set("ay_seed", 12345);
            sc.set("volume", *rng.pick(&[100i64, 100, 90, 87]));
            sc.set("beeper", 1);
            sc.set("drain", 0);
            sc.set("tape", 0);
        }
        let snaps = rng.chance(1, 3) && !loud;
        let ay_sets = rng.chance(1, 3);
        let f: i64 = if m128 { 70908 } else { 69888 };
        let frames = if tier == Tier::Quick { rng.range(3, 6) } else { rng.range(3, 12) };
        for fr in 0..frames {
            let n = *rng.pick(&[0i64, 1, 2, 4, 8, 20]);
            let mut ts: Vec<i64> = (0..n).map(|_| if rng.chance(1, 5) { *rng.pick(&[0i64, 5, f - 13, f - 3, f / 2]) } else { rng.range(0, f - 1) }).collect();
            ts.sort();
            for t in ts {
                sc.op("out", &[fr, t, (rng.u8() & 0x1F) as i64]);
            }
            sc.op("frame", &[fr, rng.range(1, 3)]);
            if loud && fr == 1 {
                sc.op("ayset", &[0]);
            }
            if ay_sets && rng.chance(1, 2) && !loud {
                // the host switches AY sound on or off between two frames
                sc.op("ayset", &[rng.range(0, 1)]);
            }
            if snaps && rng.chance(1, 2) {
                // the host loads an SZX snapshot between two frames; it carries the speaker / MIC levels
                // (format: SZX at the frame start, SZX taken inside a frame, SNA; the program it replaces may be
                // waiting in a HALT)
                sc.op("snap", &[(rng.u8() & 0x18) as i64, rng.range(0, 7), rng.range(0, 2), rng.range(0, f - 1), rng.chance(1, 2) as i64]);
            }
        }
        // a level that is set and then held for more than two seconds
        if rng.chance(1, 40) {
            sc.op("out", &[frames, 100, *rng.pick(&[0x10i64, 0x18, 0x08])]);
            for fr in frames..frames + rng.range(104, 130) {
                sc.op("frame", &[fr, 1]);
            }
        }
        sc
    }

    fn exec(&self, sc: &Scenario, ctx: &mut RunCtx) -> Result<(), Fail> {
        let m128 = sc.get("m128") != 0;
        let rate = sc.get("rate").clamp(8000, 384000) as usize;
        let volume = sc.get("volume").clamp(0, 100) as u8;
        let beeper = sc.get("beeper") != 0;
        let ay = sc.get("ay") != 0;
        let drain = sc.get("drain").clamp(0, 3);
        let drain_mask = sc.get("drain_mask") as u64;
        let drain_j = sc.get("drain_j").clamp(2, 8) as usize;
        // sound generation enabled in the settings, or switched on through set_sound() after construction
        let sound_late = sc.get("sound_late") != 0;
        let cfg = MCfg { m128, rate, volume, beeper, ay, ay_mode: (sc.get("ay_seed") % 3) as u8, sound: !sound_late, ..Default::default() };
        let f = cfg.frame_len() as i64;
        let spf = rate / 50;
        let mut e = new_emu(&cfg);
        if sound_late {
            ctx.probe("sound_enabled_after_construction");
            e.set_sound(true);
        }
        let machine = if m128 { "128k" } else { "48k" };
        // a tape may be playing all the while (real-time loading): what the program hears on EAR is an input; the
        // sound output is the speaker / MIC levels the program sets, nothing else
        if sc.get("tape") != 0 {
            ctx.probe("tape_playing_meanwhile");
            let tap = zxref::tape::make_tap(&[zxref::tape::std_block(0x00, &[0x55; 17]), zxref::tape::std_block(0xFF, &[0xAA; 200])]);
            e.load_tape(rustzx_core::host::Tape::Tap(crate::host::AnyAsset::Sim(crate::host::SimAsset::plain(tap)))).map_err(|x| Fail::new("C19.load", "", format!("{:?}", x)))?;
            e.play_tape();
        }
        if rate < 27000 {
            ctx.probe("rate_low");
        }
        if rate > 100000 {
            ctx.probe("rate_high");
        }
        match drain {
            0 => ctx.probe("drain_always"),
            1 => ctx.probe("drain_sometimes"),
            3 => ctx.probe("drain_pattern"),
            _ => ctx.probe("drain_never"),
        }
        write_mem(&mut e, IDLE, &[0xF3, 0x18, 0xFE]);
        write_mem(&mut e, OUTS, &[0xD3, 0xFE]);
        let mut st = CpuState::default();
        st.pc = IDLE;
        st.sp = 0x8FF0;
        st.to_impl(e.verif_cpu());
        let ay_active = ay && sc.get("ay_seed") != 0;
        if ay {
            ctx.probe("ay_enabled");
        }
        if ay_active {
            let mut r = Rng::new(sc.get("ay_seed") as u64);
            for reg in 0..14u8 {
                e.verif_bus().write_io(0xFFFD, reg);
                let mut v = if reg == 7 { r.u8() & 0x3F } else { r.u8() };
                if sc.get("ay_loud") != 0 {
                    // all three channels as loud DC (tone and noise gates open, full volume): with the speaker high
                    // the mix is as large as it gets
                    v = match reg {
                        7 => 0x3F,
                        8..=10 => 0x0F,
                        _ => v,
                    };
                }
                e.verif_bus().write_io(0xBFFD, v);
            }
            e.verif_set_frame_clocks(0);
        }
        let vol = volume as f64 / 200.0;
        let bound_for = |with_ay: bool| ((0.6 + if with_ay { 3.0 } else { 0.0 }) * vol + 1e-6) as f32;
        let mut cur_level = 0.0f64; // beeper level in force
        let mut changes: Vec<(i64, f64)> = vec![]; // (frame-relative T of the port cycle, new level) in this frame
        let mut pending: Vec<(i64, f64)> = vec![];
        let mut start_level = 0.0f64;
        let mut frame_done = 0usize; // frames completed inside an OUT step
        let mut audio: Vec<(f32, f32)> = vec![];
        let mut frames_total = 0usize;
        let mut undrained_frames = 0usize;
        // policy 3: boundaries seen so far, whether the host took the audio at the previous one, whether it ever did not
        let mut boundaries = 0u32;
        let mut prev_drained = true;
        let mut skipped_once = false;
        // AY currently mixed in (settings, later changed by the host through set_ay_enabled)
        let mut ay_now = ay;
        let mut ay_ever = ay;
        for op in &sc.ops {
            ay_ever |= ay_now;
            match op.k.as_str() {
                "out" => {
                    if frame_done > 0 {
                        continue;
                    }
                    let t = op.arg(1).clamp(0, f - 1);
                    let v = (op.arg(2) & 0x1F) as u8;
                    if t < e.verif_frame_clocks() as i64 {
                        continue;
                    }
                    e.verif_set_frame_clocks(t as usize);
                    let mut st = cpu_state(&mut e);
                    st.pc = OUTS;
                    st.af = (v as u16) << 8;
                    st.to_impl(e.verif_cpu());
                    let passed = step_public(&mut e).map_err(|x| Fail::new("C19.step", "", x))?;
                    let t_end = e.verif_frame_clocks() as i64 + passed as i64 * f;
                    let t_io = t_end - 4;
                    let l = level(v);
                    if t_io >= f {
                        pending.push((t_io - f, l));
                    } else {
                        changes.push((t_io, l));
                    }
                    cur_level = l;
                    frame_done = passed;
                    let mut st = cpu_state(&mut e);
                    st.pc = IDLE;
                    st.to_impl(e.verif_cpu());
                    ctx.units += 1;
                }
                "ayset" => {
                    if frame_done > 0 || !pending.is_empty() || !changes.is_empty() {
                        continue;
                    }
                    ctx.probe("ay_switched_by_host");
                    ay_now = op.arg(0) != 0;
                    e.set_ay_enabled(ay_now);
                }
                "snap" => {
                    if frame_done > 0 || !pending.is_empty() || !changes.is_empty() || e.verif_frame_clocks() > 64 {
                        continue;
                    }
                    ctx.probe("szx_load_between_frames");
                    let fe = (op.arg(0) & 0x18) as u8;
                    let kind = op.arg(2).clamp(0, 2);
                    if op.arg(4) != 0 {
                        // the program being replaced sits in a HALT
                        ctx.probe("snapshot_over_halted_cpu");
                        write_mem(&mut e, IDLE + 8, &[0x76]);
                        let mut st = cpu_state(&mut e);
                        st.pc = IDLE + 8;
                        st.to_impl(e.verif_cpu());
                        let _ = step_public(&mut e).map_err(|x| Fail::new("C19.step", "", x))?;
                    }
                    let pre_clk = e.verif_frame_clocks() as i64;
                    let mut s = crate::snapfmt::SnapState::new(m128);
                    s.border = (op.arg(1) & 7) as u8;
                    s.cpu.pc = IDLE;
                    s.cpu.sp = 0x8FF0;
                    if kind == 1 {
                        ctx.probe("szx_taken_inside_a_frame");
                        s.frame_t = op.arg(3).clamp(0, f - 1) as u32;
                    }
                    if kind == 2 {
                        ctx.probe("sna_load_between_frames");
                        let bytes = if m128 { crate::snapfmt::write_sna128(&s) } else { crate::snapfmt::write_sna48(&s) };
                        e.load_snapshot(rustzx_core::host::Snapshot::Sna(crate::host::SimAsset::plain(bytes))).map_err(|x| Fail::new("C19.load", "", format!("{:?}", x)))?;
                        // SNA carries no speaker level: the restored program sets it first thing
                        e.verif_bus().write_io(0x00FE, fe | s.border);
                    } else {
                        let opt = crate::snapfmt::SzxOptions { fe_hi: fe, fe_low: Some(rng_byte(op.arg(1))), ..Default::default() };
                        let bytes = crate::snapfmt::write_szx(&s, &opt);
                        e.load_snapshot(rustzx_core::host::Snapshot::Szx(crate::host::SimAsset::plain(bytes))).map_err(|x| Fail::new("C19.load", "", format!("{:?}", x)))?;
                    }
                    write_mem(&mut e, IDLE, &[0xF3, 0x18, 0xFE]);
                    write_mem(&mut e, OUTS, &[0xD3, 0xFE]);
                    let mut st = cpu_state(&mut e);
                    st.pc = IDLE;
                    st.sp = 0x8FF0;
                    st.iff1 = false;
                    st.iff2 = false;
                    st.halted = false;
                    st.to_impl(e.verif_cpu());
                    // the levels the snapshotted program had set are in force from here on
                    if kind == 2 {
                        // (the port write above happened at the current frame time, not at its start)
                        changes.push((e.verif_frame_clocks() as i64, level(fe)));
                        start_level = cur_level;
                        cur_level = level(fe);
                    } else {
                        // samples up to the frame time at which the host loaded the file were made before the load
                        changes.push((pre_clk, level(fe)));
                        start_level = cur_level;
                        cur_level = level(fe);
                    }
                    if ay_active {
                        // the snapshot carries no AY chunk: what the AY plays afterwards is not this property's matter
                    }
                }
                "frame" => {
                    // complete the frame (possibly several in one host call for non-draining policies)
                    let extra = if drain == 0 { 1 } else { op.arg(1).clamp(1, 4) as usize };
                    let mut run_now = extra;
                    if frame_done > 0 {
                        run_now -= 1;
                    }
                    if run_now > 0 {
                        let mut rng = Rng::new(0);
                        if run_now > 1 {
                            ctx.probe("multi_frame_call");
                        }
                        drive(&mut e, Slice::Count(run_now), &mut rng).map_err(|x| Fail::new("C19.drive", "", x))?;
                    }
                    frames_total += extra;
                    undrained_frames += extra;
                    ctx.sim_t += (extra as i64 * f) as u64;
                    if changes.len() >= 8 {
                        ctx.probe("many_toggles_in_frame");
                    }
                    let do_drain = match drain {
                        0 => true,
                        1 => frames_total % drain_j == 0,
                        3 => drain_mask >> (boundaries % 48) & 1 != 0,
                        _ => false,
                    };
                    boundaries += 1;
                    // a frame that began with an empty queue (the host took everything at the boundary before it) and
                    // is taken at its own end is a frame "drained at frame boundaries", whatever happened earlier
                    let tracked = drain == 0 || (drain == 3 && prev_drained && extra == 1);
                    if drain == 3 && tracked && do_drain && skipped_once {
                        ctx.probe("tracked_frame_after_skipped_drain");
                    }
                    prev_drained = do_drain;
                    skipped_once |= !do_drain;
                    if do_drain {
                        audio.clear();
                        let n = drain_audio(&mut e, &mut audio);
                        if tracked {
                            if n != spf {
                                return Err(Fail::new(
                                    "C19.samples_per_frame",
                                    &format!("machine={},rate={}", machine, rate),
                                    format!("frame {} delivered {} samples at {} Hz, expected floor(rate/50) = {}", frames_total, n, rate, spf),
                                ));
                            }
                        } else if n >= 2 * spf {
                            return Err(Fail::new("C19.queue_bound", &format!("machine={},rate={}", machine, rate), format!("{} samples queued after {} undrained frames (two frames' worth is {})", n, undrained_frames, 2 * spf)));
                        }
                        undrained_frames = 0;
                        let bound = bound_for(ay_ever || ay_now);
                        for (k, s) in audio.iter().enumerate() {
                            if !s.0.is_finite() || !s.1.is_finite() || s.0.abs() > bound || s.1.abs() > bound {
                                return Err(Fail::new(
                                    "C19.bound",
                                    &format!("machine={},ay={}", machine, ay_active as u8),
                                    format!("sample {} of frame {} is ({}, {}), bound for volume {} is {}", k, frames_total, s.0, s.1, volume, bound),
                                ));
                            }
                        }
                        if tracked && !ay_now {
                            // per-sample level, +-1 sample around each change
                            let tpf = f as f64 / spf as f64;
                            for (k, s) in audio.iter().enumerate() {
                                let lo = (k as f64 - 1.0) * tpf - 1.0;
                                let hi = (k as f64 + 2.0) * tpf + 1.0;
                                let mut allowed: Vec<f64> = vec![];
                                let mut l = start_level;
                                for (t, nl) in &changes {
                                    if (*t as f64) < lo {
                                        l = *nl;
                                    }
                                }
                                allowed.push(l);
                                for (t, nl) in &changes {
                                    if (*t as f64) >= lo && (*t as f64) <= hi {
                                        allowed.push(*nl);
                                    }
                                }
                                let exp: Vec<f32> = allowed.iter().map(|x| if beeper { (x * vol) as f32 } else { 0.0 }).collect();
                                let ok = exp.iter().any(|x| (x - s.0).abs() < 1e-6) && (s.0 - s.1).abs() < 1e-9;
                                if !ok {
                                    return Err(Fail::new(
                                        "C19.speaker_tracking",
                                        &format!("machine={},beeper={}", machine, beeper as u8),
                                        format!(
                                            "frame {} sample {} (frame time {:.0}..{:.0} T) is {} / {}; the speaker/MIC levels in force there give {:?} (volume {}, changes at {:?})",
                                            frames_total,
                                            k,
                                            lo.max(0.0),
                                            hi,
                                            s.0,
                                            s.1,
                                            exp,
                                            volume,
                                            changes.iter().map(|c| c.0).collect::<Vec<_>>()
                                        ),
                                    ));
                                }
                            }
                            for (t, _) in &changes {
                                ctx.probe("toggle_checked");
                                let mut hs = Fnv::new();
                                hs.u64(spf as u64);
                                hs.u64((*t as f64 / tpf) as u64);
                                ctx.state(hs.get());
                            }
                        }
                    }
                    let mut h = Fnv::new();
                    h.u64(rate as u64);
                    h.u8(m128 as u8);
                    h.u64(drain as u64);
                    h.u64(match changes.len() {
                        0 => 0,
                        1..=2 => 1,
                        3..=8 => 2,
                        _ => 3,
                    });
                    h.u8(beeper as u8 | (ay as u8) << 1);
                    ctx.cover(h.get());
                    start_level = cur_level;
                    // (after a call that ran several frames the port writes noted for "the next frame" lie behind already)
                    changes = if extra > 1 {
                        pending.clear();
                        vec![]
                    } else {
                        std::mem::take(&mut pending)
                    };
                    frame_done = 0;
                }
                _ => {}
            }
        }
        // final drain for non-draining policies: the queue must stay below two frames' worth
        if drain != 0 {
            audio.clear();
            let n = drain_audio(&mut e, &mut audio);
            if n >= 2 * spf {
                return Err(Fail::new("C19.queue_bound", &format!("machine={},rate={}", machine, rate), format!("{} samples queued after {} frames without draining (two frames' worth is {})", n, undrained_frames, 2 * spf)));
            }
            let bound = bound_for(ay_ever || ay_now);
            for s in &audio {
                if !s.0.is_finite() || !s.1.is_finite() || s.0.abs() > bound || s.1.abs() > bound {
                    return Err(Fail::new("C19.bound", &format!("machine={},ay={}", machine, ay_active as u8), format!("queued sample ({}, {}) exceeds the bound {} for volume {}", s.0, s.1, bound, volume)));
                }
            }
        }
        Ok(())
    }
}
