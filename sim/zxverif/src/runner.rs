//! Seeded batch runner: generates scenarios, executes them on a worker pool, merges results by
//! run index (verdict independent of worker count), minimises failures, writes replay and
//! evidence files, applies the known-findings list.

use crate::json::J;
use crate::prng::{run_seed, Rng};
use crate::scenario::{minimise, Scenario};
use std::cell::RefCell;
use std::collections::{BTreeMap, HashSet};
use std::sync::atomic::{AtomicU64, Ordering};
use std::sync::Mutex;
use std::time::Instant;

#[derive(Clone, Copy, Debug, PartialEq, Eq)]
pub enum Tier {
    Quick,
    Thorough,
}
impl Tier {
    pub fn name(self) -> &'static str {
        match self {
            Tier::Quick => "quick",
            Tier::Thorough => "thorough",
        }
    }
}

/// A property violation found by an oracle.
#[derive(Clone, Debug)]
pub struct Fail {
    /// stable oracle-assertion id, e.g. `C12.resume_exact`
    pub site: String,
    /// discriminating facts `k=v,k=v` (used to match known findings)
    pub witness: String,
    /// human readable explanation
    pub detail: String,
}
impl Fail {
    pub fn new(site: &str, witness: &str, detail: String) -> Fail {
        Fail { site: site.to_string(), witness: witness.to_string(), detail }
    }
}

/// Per-run collector handed to `Property::exec`.
#[derive(Default)]
pub struct RunCtx {
    pub cover: HashSet<u64>,
    pub probes: BTreeMap<&'static str, u64>,
    pub faults: BTreeMap<&'static str, u64>,
    /// simulated T-states (or samples, see `Property::time_unit_hz`) covered by this run
    pub sim_t: u64,
    pub ambiguous: u64,
    /// abstract states reached (second measure)
    pub states: HashSet<u64>,
    /// non-fatal violations (the run continues after them)
    pub soft: Vec<Fail>,
    /// work units (instructions, ops, accesses) executed, for the evidence text
    pub units: u64,
}
impl RunCtx {
    pub fn cover(&mut self, h: u64) {
        self.cover.insert(h);
    }
    pub fn state(&mut self, h: u64) {
        self.states.insert(h);
    }
    pub fn probe(&mut self, name: &'static str) {
        *self.probes.entry(name).or_insert(0) += 1;
    }
    pub fn probe_n(&mut self, name: &'static str, n: u64) {
        *self.probes.entry(name).or_insert(0) += n;
    }
    pub fn fault(&mut self, kind: &'static str) {
        *self.faults.entry(kind).or_insert(0) += 1;
    }
    pub fn fault_n(&mut self, kind: &'static str, n: u64) {
        if n > 0 {
            *self.faults.entry(kind).or_insert(0) += n;
        }
    }
    pub fn report(&mut self, f: Fail) {
        if self.soft.len() < 16 {
            self.soft.push(f);
        }
    }
}

pub trait Property: Sync {
    fn id(&self) -> &'static str;
    fn level(&self) -> &'static str {
        "exploration"
    }
    fn runs(&self, tier: Tier) -> u64;
    /// Produce the complete scenario for one run; every choice comes from `rng`.
    fn gen(&self, rng: &mut Rng, tier: Tier, idx: u64) -> Scenario;
    /// Execute a scenario against the real code; pure function of the scenario.
    fn exec(&self, sc: &Scenario, ctx: &mut RunCtx) -> Result<(), Fail>;
    /// how cases are generated and what is counted as distinct
    fn rule(&self) -> &'static str;
    /// text describing the `states` measure
    fn state_measure(&self) -> &'static str {
        "none"
    }
    fn real_components(&self) -> Vec<&'static str>;
    fn stub_components(&self) -> Vec<&'static str>;
    fn assumptions(&self) -> Vec<&'static str> {
        vec![]
    }
    /// probes that must not stay at zero
    fn expected_probes(&self) -> Vec<&'static str> {
        vec![]
    }
    /// unit of RunCtx::sim_t per simulated second
    fn time_unit_hz(&self) -> f64 {
        3_500_000.0
    }
    /// property-specific reduction applied before the generic minimiser (e.g. single-instruction
    /// extraction in world A). Must return a scenario that fails at the same site, or None.
    fn reduce(&self, _sc: &Scenario, _fail: &Fail) -> Option<Scenario> {
        None
    }
    fn minimise_budget(&self) -> usize {
        300
    }
}

// ---------------------------------------------------------------------------------------------
// panic capture

#[derive(Clone, Debug, Default)]
pub struct PanicInfo {
    pub msg: String,
    pub file: String,
    pub line: u32,
}

thread_local! {
    static LAST_PANIC: RefCell<Option<PanicInfo>> = const { RefCell::new(None) };
    static QUIET: RefCell<bool> = const { RefCell::new(false) };
}

pub fn install_panic_hook() {
    let default = std::panic::take_hook();
    std::panic::set_hook(Box::new(move |info| {
        let quiet = QUIET.with(|q| *q.borrow());
        let msg = if let Some(s) = info.payload().downcast_ref::<&str>() {
            s.to_string()
        } else if let Some(s) = info.payload().downcast_ref::<String>() {
            s.clone()
        } else {
            "<non-string panic>".to_string()
        };
        let (file, line) = info.location().map(|l| (l.file().to_string(), l.line())).unwrap_or_default();
        LAST_PANIC.with(|p| *p.borrow_mut() = Some(PanicInfo { msg, file, line }));
        if !quiet {
            default(info);
        }
    }));
}

/// The payload used by harness-side budget guards (asset call budget = hang detector).
pub const BUDGET_PANIC: &str = "VERIF_BUDGET_EXHAUSTED";
/// panic message of the simulated frame buffer when the emulator addresses a pixel outside the buffer it
/// dimensioned itself (a real host would panic on its Vec or scribble over memory): the emulator's fault
pub const FB_RANGE_PANIC: &str = "VERIF_FRAMEBUFFER_PIXEL_OUT_OF_RANGE";

fn is_harness_path(file: &str) -> bool {
    file.contains("zxverif/src") || file.contains("zxref/src")
}

fn short_path(file: &str) -> String {
    // /repo/rustzx-core/src/emulator/snapshot/szx.rs -> rustzx-core/.../szx.rs  (keep crate + file)
    let f = file.trim_start_matches("/repo/");
    if let Some(i) = f.find("/.cargo/registry/src/") {
        let rest = &f[i..];
        let parts: Vec<&str> = rest.split('/').collect();
        return parts[parts.len().saturating_sub(3)..].join("/");
    }
    f.to_string()
}

/// Runs `f` with panic capture (used by checks that enumerate many cases inside one run).
/// Err carries the panic message and location; harness-side budget panics are reported as such.
pub fn catch<T>(f: impl FnOnce() -> T) -> Result<T, PanicInfo> {
    LAST_PANIC.with(|lp| *lp.borrow_mut() = None);
    match std::panic::catch_unwind(std::panic::AssertUnwindSafe(f)) {
        Ok(v) => Ok(v),
        Err(_) => Err(LAST_PANIC.with(|lp| lp.borrow_mut().take()).unwrap_or_default()),
    }
}

pub fn panic_site(pi: &PanicInfo) -> String {
    if pi.msg.contains(FB_RANGE_PANIC) {
        return "framebuffer_pixel_out_of_range".to_string();
    }
    format!("{}:{}", short_path(&pi.file), pi.line)
}

pub fn panic_in_harness(pi: &PanicInfo) -> bool {
    is_harness_path(&pi.file) && !pi.msg.contains(BUDGET_PANIC) && !pi.msg.contains(FB_RANGE_PANIC)
}

pub enum ExecOutcome {
    Ok,
    Fails(Vec<Fail>),
    Harness(String),
}

/// Execute one scenario with panic capture.
pub fn exec_guarded(p: &dyn Property, sc: &Scenario, ctx: &mut RunCtx) -> ExecOutcome {
    QUIET.with(|q| *q.borrow_mut() = true);
    LAST_PANIC.with(|lp| *lp.borrow_mut() = None);
    let r = std::panic::catch_unwind(std::panic::AssertUnwindSafe(|| p.exec(sc, ctx)));
    QUIET.with(|q| *q.borrow_mut() = false);
    crate::alloc_track::stop();
    let mut fails: Vec<Fail> = std::mem::take(&mut ctx.soft);
    match r {
        Ok(Ok(())) => {}
        Ok(Err(f)) => fails.push(f),
        Err(_) => {
            let pi = LAST_PANIC.with(|lp| lp.borrow_mut().take()).unwrap_or_default();
            if pi.msg.contains(BUDGET_PANIC) {
                fails.push(Fail::new(
                    &format!("{}.hang", p.id()),
                    &format!("entry={}", pi.msg.split('|').nth(1).unwrap_or("?")),
                    format!("asset call budget exhausted (loader does not terminate): {}", pi.msg),
                ));
            } else if pi.msg.contains(FB_RANGE_PANIC) {
                fails.push(Fail::new(&format!("{}.panic", p.id()), "at=framebuffer_pixel_out_of_range", format!("the emulator addressed a pixel outside the frame buffer it dimensioned: {}", pi.msg)));
            } else if is_harness_path(&pi.file) {
                return ExecOutcome::Harness(format!("harness panic at {}:{}: {}", pi.file, pi.line, pi.msg));
            } else {
                let loc = short_path(&pi.file);
                fails.push(Fail::new(
                    &format!("{}.panic", p.id()),
                    &format!("at={}:{}", loc, pi.line),
                    format!("code under test panicked at {}:{}: {}", pi.file, pi.line, pi.msg),
                ));
            }
        }
    }
    if fails.is_empty() {
        ExecOutcome::Ok
    } else {
        ExecOutcome::Fails(fails)
    }
}

// ---------------------------------------------------------------------------------------------
// known findings

#[derive(Clone, Debug)]
pub struct Known {
    pub property: String,
    pub site: String,
    pub witness: Vec<String>,
    pub text: String,
}

pub fn load_known(root: &str) -> Vec<Known> {
    let path = format!("{}/known_findings.txt", root);
    let Ok(text) = std::fs::read_to_string(&path) else { return vec![] };
    let mut out = vec![];
    for line in text.lines() {
        let line = line.trim();
        if !line.starts_with("known:") {
            continue;
        }
        let (head, text) = match line.split_once("::") {
            Some((h, t)) => (h, t.trim().to_string()),
            None => (line, String::new()),
        };
        let mut k = Known { property: String::new(), site: String::new(), witness: vec![], text };
        for tok in head["known:".len()..].split_whitespace() {
            if let Some(v) = tok.strip_prefix("property=") {
                k.property = v.to_string();
            } else if let Some(v) = tok.strip_prefix("site=") {
                k.site = v.to_string();
            } else if let Some(v) = tok.strip_prefix("witness=") {
                k.witness = v.split(',').filter(|s| !s.is_empty()).map(|s| s.to_string()).collect();
            }
        }
        out.push(k);
    }
    out
}

fn known_match<'a>(known: &'a [Known], prop: &str, f: &Fail) -> Option<&'a Known> {
    let have: Vec<&str> = f.witness.split(',').collect();
    known.iter().find(|k| k.property == prop && k.site == f.site && k.witness.iter().all(|w| have.contains(&w.as_str())))
}

// ---------------------------------------------------------------------------------------------

pub struct Options {
    pub root: String,
    pub seed: u64,
    pub tier: Tier,
    pub workers: usize,
    pub runs_override: Option<u64>,
    pub write_evidence: bool,
}

#[derive(Default)]
struct Agg {
    cover: HashSet<u64>,
    states: HashSet<u64>,
    probes: BTreeMap<&'static str, u64>,
    faults: BTreeMap<&'static str, u64>,
    sim_t: u64,
    ambiguous: u64,
    units: u64,
    fails: Vec<(u64, Scenario, Fail)>,
    harness: Vec<(u64, String)>,
    samples: Vec<(u64, J)>,
}

pub const DEFAULT_SEED: u64 = 20260925;
/// failing scenarios kept per violation class (site, witness): the ones with the lowest run indices
const KEEP_PER_CLASS: u32 = 4;

/// Runs a whole tier of one property. Returns the process exit code.
pub fn run_property(p: &dyn Property, opt: &Options) -> i32 {
    let t0 = Instant::now();
    let n = opt.runs_override.unwrap_or_else(|| p.runs(opt.tier));
    println!("VERIF_SEED={} property={} tier={} runs={} workers={}", opt.seed, p.id(), opt.tier.name(), n, opt.workers);
    let next = AtomicU64::new(0);
    let total = Mutex::new(Agg::default());
    std::thread::scope(|s| {
        for _ in 0..opt.workers.max(1) {
            std::thread::Builder::new()
                .stack_size(256 << 20)
                .spawn_scoped(s, || {
                    let mut agg = Agg::default();
                    let mut per_class: std::collections::HashMap<(String, String), u32> = std::collections::HashMap::new();
                    loop {
                        let i = next.fetch_add(1, Ordering::Relaxed);
                        if i >= n {
                            break;
                        }
                        let mut rng = Rng::new(run_seed(opt.seed, p.id(), i));
                        let sc = p.gen(&mut rng, opt.tier, i);
                        let mut ctx = RunCtx::default();
                        let out = exec_guarded(p, &sc, &mut ctx);
                        agg.cover.extend(ctx.cover.drain());
                        agg.states.extend(ctx.states.drain());
                        for (k, v) in ctx.probes {
                            *agg.probes.entry(k).or_insert(0) += v;
                        }
                        for (k, v) in ctx.faults {
                            *agg.faults.entry(k).or_insert(0) += v;
                        }
                        agg.sim_t += ctx.sim_t;
                        agg.ambiguous += ctx.ambiguous;
                        agg.units += ctx.units;
                        if i < 3 {
                            agg.samples.push((i, sc.brief(24)));
                        }
                        match out {
                            ExecOutcome::Ok => {}
                            ExecOutcome::Fails(fs) => {
                                // keep a bounded number of failing scenarios per violation class (site, witness):
                                // the lowest run indices. Bounding per class (not in total) keeps a frequent
                                // known finding from crowding out a new class, and makes the kept set
                                // independent of the number of workers (each worker sees increasing indices).
                                for f in fs {
                                    let c = per_class.entry((f.site.clone(), f.witness.clone())).or_insert(0u32);
                                    if *c < KEEP_PER_CLASS {
                                        *c += 1;
                                        agg.fails.push((i, sc.clone(), f));
                                    }
                                }
                            }
                            ExecOutcome::Harness(m) => agg.harness.push((i, m)),
                        }
                    }
                    let mut t = total.lock().unwrap();
                    t.cover.extend(agg.cover);
                    t.states.extend(agg.states);
                    for (k, v) in agg.probes {
                        *t.probes.entry(k).or_insert(0) += v;
                    }
                    for (k, v) in agg.faults {
                        *t.faults.entry(k).or_insert(0) += v;
                    }
                    t.sim_t += agg.sim_t;
                    t.ambiguous += agg.ambiguous;
                    t.units += agg.units;
                    t.fails.extend(agg.fails);
                    t.harness.extend(agg.harness);
                    t.samples.extend(agg.samples);
                })
                .expect("spawn worker");
        }
    });
    let mut agg = total.into_inner().unwrap();
    agg.fails.sort_by(|a, b| (a.0, &a.2.site, &a.2.witness).cmp(&(b.0, &b.2.site, &b.2.witness)));
    {
        let mut per_class: std::collections::HashMap<(String, String), u32> = std::collections::HashMap::new();
        agg.fails.retain(|(_, _, f)| {
            let c = per_class.entry((f.site.clone(), f.witness.clone())).or_insert(0);
            *c += 1;
            *c <= KEEP_PER_CLASS
        });
    }
    agg.harness.sort();
    agg.samples.sort_by_key(|s| s.0);

    if let Some((i, m)) = agg.harness.first() {
        eprintln!("HARNESS-ERROR property={} run={} {}", p.id(), i, m);
        return 2;
    }

    if std::env::var("VERIF_CLASSES").is_ok() {
        let mut classes: BTreeMap<(String, String), (u64, String)> = BTreeMap::new();
        for (_, _, f) in agg.fails.iter() {
            let e = classes.entry((f.site.clone(), f.witness.clone())).or_insert((0, f.detail.clone()));
            e.0 += 1;
        }
        for ((site, wit), (n, detail)) in &classes {
            println!("CLASS {} [{}] x{} :: {}", site, wit, n, detail.chars().take(260).collect::<String>());
        }
    }
    // triage failures: group by (site, witness); first (lowest run index) of each class is handled
    let known = load_known(&opt.root);
    let mut seen_classes: Vec<(String, String)> = vec![];
    let mut known_seen: BTreeMap<String, u64> = BTreeMap::new();
    let mut violations = 0u64;
    let mut not_reproducible = 0u64;
    let mut violation_lines: Vec<String> = vec![];
    let mut minimised_classes = 0;
    for (idx, sc, f) in agg.fails.iter() {
        if let Some(k) = known_match(&known, p.id(), f) {
            let e = known_seen.entry(k.text.clone()).or_insert(0);
            if *e == 0 {
                println!("KNOWN-FINDING: property={} {} [site={} witness={}]", p.id(), k.text, k.site, k.witness.join(","));
            }
            *e += 1;
            continue;
        }
        let class = (f.site.clone(), f.witness.clone());
        if seen_classes.contains(&class) {
            continue;
        }
        seen_classes.push(class);
        if minimised_classes >= 6 {
            violations += 1;
            continue;
        }
        minimised_classes += 1;
        // minimise, keeping the same site
        let site = f.site.clone();
        let mut start = sc.clone();
        if let Some(r) = p.reduce(sc, f) {
            let mut c = RunCtx::default();
            if let ExecOutcome::Fails(fs) = exec_guarded(p, &r, &mut c) {
                if fs.iter().any(|x| x.site == site) {
                    start = r;
                }
            }
        }
        let mut check = |cand: &Scenario| -> bool {
            let mut c = RunCtx::default();
            match exec_guarded(p, cand, &mut c) {
                ExecOutcome::Fails(fs) => fs.iter().any(|x| x.site == site),
                _ => false,
            }
        };
        let (min_sc, used) = minimise(&start, p.minimise_budget(), &mut check);
        // final execution of the minimised scenario for witness / detail
        let mut c = RunCtx::default();
        let final_fail = match exec_guarded(p, &min_sc, &mut c) {
            ExecOutcome::Fails(fs) => fs.into_iter().find(|x| x.site == site).unwrap_or_else(|| f.clone()),
            _ => f.clone(),
        };
        // the minimised case may turn out to be a known finding
        if let Some(k) = known_match(&known, p.id(), &final_fail) {
            let e = known_seen.entry(k.text.clone()).or_insert(0);
            if *e == 0 {
                println!("KNOWN-FINDING: property={} {} [site={} witness={}]", p.id(), k.text, k.site, k.witness.join(","));
            }
            *e += 1;
            continue;
        }
        violations += 1;
        let dir = format!("{}/{}", std::env::var("VERIF_REPLAY_DIR").unwrap_or_else(|_| format!("{}/replays", opt.root)), p.id());
        let _ = std::fs::create_dir_all(&dir);
        let path = format!("{}/{}-{}-{}.json", dir, opt.seed, idx, violations);
        let replay = J::obj()
            .set("property", J::s(p.id()))
            .set("site", J::s(&final_fail.site))
            .set("witness", J::s(&final_fail.witness))
            .set("detail", J::s(&final_fail.detail))
            .set("tier", J::s(opt.tier.name()))
            .set("verif_seed", J::u(opt.seed))
            .set("run_index", J::u(*idx))
            .set("minimise_executions", J::u(used as u64))
            .set("original_ops", J::u(sc.ops.len() as u64))
            .set("expect", J::s("violation"))
            .set("scenario", min_sc.to_json());
        if let Err(e) = std::fs::write(&path, replay.to_string_pretty()) {
            eprintln!("HARNESS-ERROR cannot write replay {}: {}", path, e);
            return 2;
        }
        // replay in a fresh process must reproduce
        let exe = std::env::current_exe().ok();
        let fresh = exe.and_then(|e| {
            std::process::Command::new(e)
                .arg(p.id())
                .arg("--replay")
                .arg(&path)
                .env("VERIF_ROOT", &opt.root)
                .env("VERIF_NO_KNOWN", "1")
                .output()
                .ok()
        });
        match fresh {
            Some(o) if o.status.code() == Some(1) => {}
            Some(o) => {
                // does not fail when run on its own: it depended on what ran before it in this process. Not a
                // finding that can be handed over as a replay file; the batch goes on (another scenario may show
                // the same fault reproducibly) and ends as a harness error if nothing reproducible is found.
                eprintln!(
                    "NOT-REPRODUCIBLE replay {} did not reproduce in a fresh process (exit {:?})\n{}",
                    path,
                    o.status.code(),
                    String::from_utf8_lossy(&o.stdout)
                );
                let _ = std::fs::remove_file(&path);
                not_reproducible += 1;
                violations -= 1;
                continue;
            }
            None => {
                eprintln!("HARNESS-ERROR cannot spawn replay process");
                return 2;
            }
        }
        violation_lines.push(format!("VIOLATION property={} replay={}", p.id(), path));
        println!("VIOLATION property={} replay={}", p.id(), path);
        println!("  site={} witness={}", final_fail.site, final_fail.witness);
        println!("  {}", final_fail.detail);
        println!("  run_index={} ops {} -> {} ({} minimisation executions)", idx, sc.ops.len(), min_sc.ops.len(), used);
    }

    let wall = t0.elapsed().as_secs_f64();
    let zero_probes: Vec<&str> = p.expected_probes().into_iter().filter(|n| agg.probes.get(n).copied().unwrap_or(0) == 0).collect();
    for z in &zero_probes {
        println!("WARNING probe '{}' stayed at zero", z);
    }
    if opt.write_evidence {
        let sim_seconds = agg.sim_t as f64 / p.time_unit_hz();
        let cov = J::obj()
            .set("evaluations", J::u(n))
            .set("distinct_nontrivial", J::u(agg.cover.len() as u64))
            .set("rule", J::s(p.rule()))
            .set("samples", J::Arr(agg.samples.iter().map(|s| s.1.clone()).collect()))
            .set("exhaustive", J::Bool(false))
            .set("work_units", J::u(agg.units))
            .set("runs_per_hour", J::Num((n as f64 / wall.max(1e-9) * 3600.0).round()))
            .set("seeds_per_hour", J::Num((n as f64 / wall.max(1e-9) * 3600.0).round()))
            .set("simulated_seconds", J::Num((sim_seconds * 1000.0).round() / 1000.0))
            .set("fault_counts", J::Obj(agg.faults.iter().map(|(k, v)| (k.to_string(), J::u(*v))).collect()))
            .set("probes", J::Obj(agg.probes.iter().map(|(k, v)| (k.to_string(), J::u(*v))).collect()))
            .set("probes_at_zero", J::Arr(zero_probes.iter().map(|s| J::s(s)).collect()))
            .set("states_reached", J::u(agg.states.len() as u64))
            .set("state_measure", J::s(p.state_measure()))
            .set(
                "components",
                J::obj()
                    .set("real", J::Arr(p.real_components().iter().map(|s| J::s(s)).collect()))
                    .set("stub", J::Arr(p.stub_components().iter().map(|s| J::s(s)).collect())),
            )
            .set("known_findings_seen", J::Obj(known_seen.iter().map(|(k, v)| (k.clone(), J::u(*v))).collect()))
            .set("truncated_ambiguous", J::u(agg.ambiguous))
            .set("workers", J::u(opt.workers as u64));
        let ev = J::obj()
            .set("property_id", J::s(p.id()))
            .set("tier", J::s(opt.tier.name()))
            .set("seed", J::u(opt.seed))
            .set("level", J::s(p.level()))
            .set("coverage", cov)
            .set("assumptions", J::Arr(p.assumptions().iter().map(|s| J::s(s)).collect()))
            .set("wall_s", J::Num((wall * 1000.0).round() / 1000.0))
            .set("violations", J::u(violations));
        let dir = format!("{}/evidence", opt.root);
        let _ = std::fs::create_dir_all(&dir);
        let path = format!("{}/{}.json", dir, p.id());
        if let Err(e) = std::fs::write(&path, ev.to_string_pretty()) {
            eprintln!("HARNESS-ERROR cannot write evidence {}: {}", path, e);
            return 2;
        }
    }
    // digest of everything that must be a pure function of (seed, code): used by selftest/determinism.sh
    {
        let mut d = crate::prng::Fnv::new();
        let mut cv: Vec<u64> = agg.cover.iter().copied().collect();
        cv.sort_unstable();
        for x in cv {
            d.u64(x);
        }
        let mut sv: Vec<u64> = agg.states.iter().copied().collect();
        sv.sort_unstable();
        for x in sv {
            d.u64(x);
        }
        for (k, v) in &agg.probes {
            d.str(k);
            d.u64(*v);
        }
        for (k, v) in &agg.faults {
            d.str(k);
            d.u64(*v);
        }
        d.u64(agg.sim_t);
        d.u64(agg.units);
        d.u64(agg.ambiguous);
        for (i, _, f) in &agg.fails {
            d.u64(*i);
            d.str(&f.site);
            d.str(&f.witness);
        }
        println!("DIGEST property={} seed={} runs={} {:016x}", p.id(), opt.seed, n, d.get());
    }
    println!(
        "SUMMARY property={} tier={} runs={} distinct={} states={} units={} sim_s={:.1} violations={} known={} wall_s={:.1}",
        p.id(),
        opt.tier.name(),
        n,
        agg.cover.len(),
        agg.states.len(),
        agg.units,
        agg.sim_t as f64 / p.time_unit_hz(),
        violations,
        known_seen.values().sum::<u64>(),
        wall
    );
    if violations > 0 {
        1
    } else if not_reproducible > 0 {
        eprintln!("HARNESS-ERROR {} failing scenario(s) did not reproduce in a fresh process and nothing else failed", not_reproducible);
        2
    } else {
        0
    }
}

/// Replays one file. Exit 1 + VIOLATION line iff the same site fails again.
/// Result of executing one scenario in a process of its own.
pub struct FreshRun {
    /// (site, witness, detail) of every violation the child reported
    pub fails: Vec<(String, String, String)>,
    /// lines the child printed with the prefix "TRACE "
    pub traces: Vec<String>,
}

/// Executes `sc` of property `id` in a fresh process (this binary, `--replay`), so that nothing process-wide -
/// lazily initialised statics, thread-locals, allocator state - is shared with the runs made so far. Scratch
/// files live under `<root>/sim/target/fresh`. `Err` is a harness error.
pub fn run_in_fresh_process(id: &str, sc: &Scenario) -> Result<FreshRun, String> {
    use std::sync::atomic::{AtomicU64, Ordering};
    static N: AtomicU64 = AtomicU64::new(0);
    let root = std::env::var("VERIF_ROOT").unwrap_or_else(|_| "/verif".to_string());
    let dir = format!("{}/sim/target/fresh", root);
    std::fs::create_dir_all(&dir).map_err(|e| format!("cannot create {}: {}", dir, e))?;
    let path = format!("{}/{}-{}-{}.json", dir, id, std::process::id(), N.fetch_add(1, Ordering::Relaxed));
    let j = J::obj().set("property", J::s(id)).set("site", J::s("")).set("expect", J::s("any")).set("scenario", sc.to_json());
    std::fs::write(&path, j.to_string_pretty()).map_err(|e| format!("cannot write {}: {}", path, e))?;
    let exe = std::env::current_exe().map_err(|e| format!("current_exe: {}", e))?;
    let out = std::process::Command::new(exe).arg(id).arg("--replay").arg(&path).env("VERIF_ROOT", &root).env("VERIF_NO_KNOWN", "1").output().map_err(|e| format!("cannot spawn: {}", e))?;
    let _ = std::fs::remove_file(&path);
    let text = String::from_utf8_lossy(&out.stdout).to_string();
    match out.status.code() {
        Some(0) | Some(1) => {}
        c => return Err(format!("fresh process ended with {:?}: {} {}", c, text, String::from_utf8_lossy(&out.stderr))),
    }
    let mut r = FreshRun { fails: vec![], traces: vec![] };
    let lines: Vec<&str> = text.lines().collect();
    for (i, l) in lines.iter().enumerate() {
        if let Some(t) = l.strip_prefix("TRACE ") {
            r.traces.push(t.to_string());
        }
        if l.starts_with("VIOLATION ") {
            let sw = lines.get(i + 1).copied().unwrap_or("").trim();
            let (site, witness) = match sw.strip_prefix("site=") {
                Some(rest) => match rest.split_once(" witness=") {
                    Some((a, b)) => (a.to_string(), b.to_string()),
                    None => (rest.to_string(), String::new()),
                },
                None => (String::new(), String::new()),
            };
            r.fails.push((site, witness, lines.get(i + 2).copied().unwrap_or("").trim().to_string()));
        }
    }
    Ok(r)
}

pub fn replay(p: &dyn Property, root: &str, path: &str) -> i32 {
    let text = match std::fs::read_to_string(path) {
        Ok(t) => t,
        Err(e) => {
            eprintln!("HARNESS-ERROR cannot read {}: {}", path, e);
            return 2;
        }
    };
    let j = match J::parse(&text) {
        Ok(j) => j,
        Err(e) => {
            eprintln!("HARNESS-ERROR bad replay file {}: {}", path, e);
            return 2;
        }
    };
    if j.get("property").and_then(|x| x.as_str()) != Some(p.id()) {
        eprintln!("HARNESS-ERROR replay file is for another property");
        return 2;
    }
    let site = j.get("site").and_then(|x| x.as_str()).unwrap_or("").to_string();
    let sc = match j.get("scenario").ok_or("scenario missing".to_string()).and_then(Scenario::from_json) {
        Ok(s) => s,
        Err(e) => {
            eprintln!("HARNESS-ERROR bad scenario in {}: {}", path, e);
            return 2;
        }
    };
    let mut ctx = RunCtx::default();
    match exec_guarded(p, &sc, &mut ctx) {
        ExecOutcome::Ok => {
            println!("REPLAY property={} no violation (site {} does not fail on this tree)", p.id(), site);
            0
        }
        ExecOutcome::Harness(m) => {
            eprintln!("HARNESS-ERROR {}", m);
            2
        }
        ExecOutcome::Fails(fs) => {
            let known = if std::env::var("VERIF_NO_KNOWN").is_ok() { vec![] } else { load_known(root) };
            let mut code = 0;
            for f in fs {
                if !site.is_empty() && f.site != site {
                    println!("REPLAY note: different site fails: {} ({})", f.site, f.detail);
                    continue;
                }
                if let Some(k) = known_match(&known, p.id(), &f) {
                    println!("KNOWN-FINDING: property={} {}", p.id(), k.text);
                    continue;
                }
                println!("VIOLATION property={} replay={}", p.id(), path);
                println!("  site={} witness={}", f.site, f.witness);
                println!("  {}", f.detail);
                code = 1;
            }
            code
        }
    }
}
