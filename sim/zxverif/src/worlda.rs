//! World A: the real `rustzx_z80::Z80` on a simulated bus, in lock-step with `RefZ80` on an
//! identical bus. The simulator owns memory, port answers, INT/NMI line levels (keyed by the index
//! of the sampling opportunity, so a pure timing bug cannot move an interrupt) and the IM-2 bus
//! byte. Every bus call of both CPUs is recorded; histories and state are compared after every
//! instruction.

use crate::cpustate::CpuState;
use crate::prng::{splitmix, Fnv, Rng};
use crate::scenario::{Op, Scenario};
use rustzx_z80::{Z80Bus, Z80};
use std::cell::Cell;
use zxref::z80::{Accepted, Page, RefBus, RefZ80, StepInfo};

#[derive(Clone, Copy, Debug, PartialEq, Eq)]
pub enum Ev {
    /// memory read with MREQ: clk 4 = opcode fetch, 3 = data read
    Rd { addr: u16, clk: u8, data: u8 },
    Wr { addr: u16, clk: u8, data: u8 },
    /// one internal T-state carrying an address
    Dly { addr: u16 },
    /// n address-less T-states
    Int { n: u16 },
    IoR { port: u16, data: u8 },
    IoW { port: u16, data: u8 },
    /// bus call that the cycle alphabet does not know (raw wait_mreq etc.)
    Odd { what: u8, addr: u16, n: u16 },
}

impl Ev {
    pub fn t(&self) -> u32 {
        match *self {
            Ev::Rd { clk, .. } | Ev::Wr { clk, .. } => clk as u32,
            Ev::Dly { .. } => 1,
            Ev::Int { n } => n as u32,
            Ev::IoR { .. } | Ev::IoW { .. } => 4,
            Ev::Odd { n, .. } => n as u32,
        }
    }
    /// value-level view: timing erased, delays dropped
    pub fn value(&self) -> Option<(u8, u16, u8)> {
        match *self {
            Ev::Rd { addr, data, .. } => Some((0, addr, data)),
            Ev::Wr { addr, data, .. } => Some((1, addr, data)),
            Ev::IoR { port, data } => Some((2, port, data)),
            Ev::IoW { port, data } => Some((3, port, data)),
            Ev::Odd { what, addr, .. } => Some((4 + what, addr, 0)),
            _ => None,
        }
    }
    pub fn show(&self) -> String {
        match *self {
            Ev::Rd { addr, clk, data } => format!("{}({:04X})={:02X}", if clk == 4 { "M1" } else { "R" }, addr, data),
            Ev::Wr { addr, data, .. } => format!("W({:04X})={:02X}", addr, data),
            Ev::Dly { addr } => format!("D({:04X})", addr),
            Ev::Int { n } => format!("I{}", n),
            Ev::IoR { port, data } => format!("IOR({:04X})={:02X}", port, data),
            Ev::IoW { port, data } => format!("IOW({:04X})={:02X}", port, data),
            Ev::Odd { what, addr, n } => format!("ODD{}({:04X},{})", what, addr, n),
        }
    }
}

pub fn show_evs(e: &[Ev]) -> String {
    let mut out = String::new();
    let mut i = 0;
    while i < e.len() {
        // collapse runs of identical delays
        let mut j = i;
        while j + 1 < e.len() && e[j + 1] == e[i] && matches!(e[i], Ev::Dly { .. }) {
            j += 1;
        }
        if !out.is_empty() {
            out.push(' ');
        }
        out.push_str(&e[i].show());
        if j > i {
            out.push_str(&format!("x{}", j - i + 1));
        }
        i = j + 1;
    }
    out
}

/// Everything outside the CPU, shared in *shape* (not in instance) by both worlds.
#[derive(Clone)]
pub struct Outside {
    pub mem: Vec<u8>,
    pub io_seed: u64,
    pub io_count: u64,
    /// explicit port answers (single-instruction cases); consumed first
    pub io_script: Vec<u8>,
    /// per sampling opportunity: bit0 = INT level, bit1 = NMI edge pending
    pub lines: Vec<u8>,
    pub samples: u64,
    pub bus_byte_seed: u64,
    pub bus_bytes: u64,
}

impl Outside {
    pub fn new(mem: Vec<u8>, io_seed: u64, lines: Vec<u8>, bus_byte_seed: u64) -> Outside {
        Outside { mem, io_seed, io_count: 0, io_script: vec![], lines, samples: 0, bus_byte_seed, bus_bytes: 0 }
    }
    fn io_answer(&mut self, _port: u16) -> u8 {
        let k = self.io_count;
        self.io_count += 1;
        if (k as usize) < self.io_script.len() {
            return self.io_script[k as usize];
        }
        let mut x = self.io_seed ^ k.wrapping_mul(0x9E37_79B9_7F4A_7C15);
        (splitmix(&mut x) >> 24) as u8
    }
    fn sample(&mut self) -> (bool, bool) {
        let k = self.samples as usize;
        self.samples += 1;
        let v = self.lines.get(k).copied().unwrap_or(0);
        (v & 2 != 0, v & 1 != 0)
    }
    fn bus_byte(&mut self) -> u8 {
        let k = self.bus_bytes;
        self.bus_bytes += 1;
        let mut x = self.bus_byte_seed ^ k.wrapping_mul(0xD6E8_FEB8_6659_FD93);
        (splitmix(&mut x) >> 16) as u8
    }
}

/// Bus for the implementation CPU.
pub struct SimBus {
    pub out: Outside,
    pub ev: Vec<Ev>,
    pub t: u64,
    /// level pair of the current sampling opportunity (nmi_active is called first)
    cur: Cell<(bool, bool)>,
    sampled: Cell<bool>,
    pending_samples: Cell<u64>,
    pub halt_line: bool,
    pub reti_count: u64,
    pub unknown_ops: u64,
}

impl SimBus {
    pub fn new(out: Outside) -> SimBus {
        SimBus { out, ev: vec![], t: 0, cur: Cell::new((false, false)), sampled: Cell::new(false), pending_samples: Cell::new(0), halt_line: false, reti_count: 0, unknown_ops: 0 }
    }
    /// `Z80Bus::nmi_active/int_active` take `&self`; sampling bookkeeping is reconciled here
    pub fn commit_samples(&mut self) {
        let n = self.pending_samples.replace(0);
        self.out.samples += n;
        self.sampled.set(false);
    }
    fn peek_sample(&self) -> (bool, bool) {
        // first query of a step draws the next entry of the line schedule
        if !self.sampled.get() {
            self.sampled.set(true);
            let k = (self.out.samples + self.pending_samples.get()) as usize;
            self.pending_samples.set(self.pending_samples.get() + 1);
            let v = self.out.lines.get(k).copied().unwrap_or(0);
            self.cur.set((v & 2 != 0, v & 1 != 0));
        }
        self.cur.get()
    }
}

impl Z80Bus for SimBus {
    fn read_internal(&mut self, addr: u16) -> u8 {
        self.ev.push(Ev::Odd { what: 0, addr, n: 0 });
        self.out.mem[addr as usize]
    }
    fn write_internal(&mut self, addr: u16, data: u8) {
        self.ev.push(Ev::Odd { what: 1, addr, n: 0 });
        self.out.mem[addr as usize] = data;
    }
    fn wait_mreq(&mut self, addr: u16, clk: usize) {
        self.ev.push(Ev::Odd { what: 2, addr, n: clk as u16 });
        self.t += clk as u64;
    }
    fn wait_no_mreq(&mut self, addr: u16, clk: usize) {
        for _ in 0..clk {
            self.ev.push(Ev::Dly { addr });
        }
        self.t += clk as u64;
    }
    fn wait_internal(&mut self, clk: usize) {
        self.ev.push(Ev::Int { n: clk as u16 });
        self.t += clk as u64;
    }
    fn read(&mut self, addr: u16, clk: usize) -> u8 {
        let data = self.out.mem[addr as usize];
        self.ev.push(Ev::Rd { addr, clk: clk as u8, data });
        self.t += clk as u64;
        data
    }
    fn write(&mut self, addr: u16, value: u8, clk: usize) {
        self.ev.push(Ev::Wr { addr, clk: clk as u8, data: value });
        self.out.mem[addr as usize] = value;
        self.t += clk as u64;
    }
    fn read_io(&mut self, port: u16) -> u8 {
        let data = self.out.io_answer(port);
        self.ev.push(Ev::IoR { port, data });
        self.t += 4;
        data
    }
    fn write_io(&mut self, port: u16, data: u8) {
        self.ev.push(Ev::IoW { port, data });
        self.t += 4;
    }
    fn read_interrupt(&mut self) -> u8 {
        self.out.bus_byte()
    }
    fn reti(&mut self) {
        self.reti_count += 1;
    }
    fn halt(&mut self, halted: bool) {
        self.halt_line = halted;
    }
    fn int_active(&self) -> bool {
        self.peek_sample().1
    }
    fn nmi_active(&self) -> bool {
        self.peek_sample().0
    }
    fn pc_callback(&mut self, _addr: u16) {}
    fn process_unknown_opcode(&mut self, _prefix: rustzx_z80::Prefix, _opcode: rustzx_z80::Opcode) {
        self.unknown_ops += 1;
    }
}

/// Bus for the reference CPU.
pub struct RBus {
    pub out: Outside,
    pub ev: Vec<Ev>,
    pub t: u64,
}

impl RefBus for RBus {
    fn m1(&mut self, addr: u16) -> u8 {
        let data = self.out.mem[addr as usize];
        self.ev.push(Ev::Rd { addr, clk: 4, data });
        self.t += 4;
        data
    }
    fn rd(&mut self, addr: u16) -> u8 {
        let data = self.out.mem[addr as usize];
        self.ev.push(Ev::Rd { addr, clk: 3, data });
        self.t += 3;
        data
    }
    fn wr(&mut self, addr: u16, v: u8) {
        self.ev.push(Ev::Wr { addr, clk: 3, data: v });
        self.out.mem[addr as usize] = v;
        self.t += 3;
    }
    fn dly(&mut self, addr: u16, n: u8) {
        for _ in 0..n {
            self.ev.push(Ev::Dly { addr });
        }
        self.t += n as u64;
    }
    fn internal(&mut self, n: u8) {
        self.ev.push(Ev::Int { n: n as u16 });
        self.t += n as u64;
    }
    fn io_r(&mut self, port: u16) -> u8 {
        let data = self.out.io_answer(port);
        self.ev.push(Ev::IoR { port, data });
        self.t += 4;
        data
    }
    fn io_w(&mut self, port: u16, v: u8) {
        self.ev.push(Ev::IoW { port, data: v });
        self.t += 4;
    }
    fn sample_lines(&mut self) -> (bool, bool) {
        self.out.sample()
    }
    fn int_bus_byte(&mut self) -> u8 {
        self.out.bus_byte()
    }
}

#[derive(Clone, Copy, Debug, PartialEq, Eq)]
pub enum DivKind {
    /// registers / hidden state differ after the instruction
    Value,
    /// registers agree, but the ordered bus value history (addresses/data of reads, writes, port
    /// cycles) differs: a matter of both C01 (sequence of accesses) and C03 (bus cycles)
    Bus,
    /// values agree, the timed cycle list differs
    Timing,
    /// values agree, but the two CPUs sampled the interrupt lines a different number of times
    /// (a sequencing matter: C02's business only)
    Sampling,
}

#[derive(Clone, Debug)]
pub struct Divergence {
    pub kind: DivKind,
    pub step: usize,
    pub info: StepInfo,
    pub what: String,
    pub pre: CpuState,
    pub impl_ev: Vec<Ev>,
    pub ref_ev: Vec<Ev>,
    /// self-contained single-instruction scenario reproducing the divergence
    pub single: Scenario,
    /// an interrupt was accepted in the diverging step or a line was active when it was sampled
    pub lines_involved: bool,
}

pub struct StepRecord {
    pub info: StepInfo,
    pub pre: CpuState,
    pub post: CpuState,
    pub impl_ev_len: usize,
    pub lines: (bool, bool),
    pub sampled: bool,
}

/// In steps that accept an interrupt the order of acknowledge overhead vs pushes is not compared:
/// all address-less / delay T-states before the first opcode fetch are summed and moved first.
fn normalise_entry(ev: &[Ev], accepted: bool) -> Vec<Ev> {
    if !accepted {
        return ev.to_vec();
    }
    let first_m1 = ev.iter().position(|e| matches!(e, Ev::Rd { clk: 4, .. })).unwrap_or(ev.len());
    let mut overhead = 0u16;
    let mut rest = vec![];
    for e in &ev[..first_m1] {
        match e {
            Ev::Int { n } => overhead += n,
            Ev::Dly { .. } => overhead += 1,
            other => rest.push(*other),
        }
    }
    let mut out = vec![Ev::Int { n: overhead }];
    out.extend(rest);
    out.extend_from_slice(&ev[first_m1..]);
    out
}

/// NMI acceptance: the delay T-states the implementation spends before the first stack write must carry
/// the address that is pushed (the interrupted PC; behind the HALT when the CPU was halted). The
/// reference's own entry cycles are address-less, so the expected address is taken from its pushes.
fn nmi_ack_address(ev_impl: &[Ev], ev_ref: &[Ev], accepted: zxref::z80::Accepted) -> Option<String> {
    if accepted != zxref::z80::Accepted::Nmi {
        return None;
    }
    let mut pushed = ev_ref.iter().filter_map(|e| if let Ev::Wr { data, .. } = e { Some(*data) } else { None });
    let (hi, lo) = (pushed.next()?, pushed.next()?);
    let ret = (hi as u16) << 8 | lo as u16;
    for e in ev_impl {
        match e {
            Ev::Wr { .. } => break,
            Ev::Dly { addr } if *addr != ret => {
                return Some(format!("NMI acknowledge T-states carry address {:04X}, the interrupted PC (pushed next) is {:04X}: impl [{}]", addr, ret, show_evs(ev_impl)));
            }
            _ => {}
        }
    }
    None
}

pub struct WorldA {
    pub cpu: Z80,
    pub bus: SimBus,
    pub rcpu: RefZ80,
    pub rbus: RBus,
    pub steps: usize,
    /// the two memories may differ (a step was executed by one side only, or diverged)
    pub dirty: bool,
    /// compare the "next boundary is not sampled" flag (sequencing state, C02 only); when false the
    /// reference adopts the implementation's flag after every step
    pub compare_control: bool,
}

pub struct StepOutcome {
    pub info: StepInfo,
    pub ambiguous: bool,
    pub div: Option<Divergence>,
    pub timing_div: Option<Divergence>,
    pub sampling_div: Option<Divergence>,
    /// prefix-chain step in which the two CPUs fetched a different number of opcode bytes: the
    /// instruction boundaries could not be aligned (a bus-cycle matter; C02 does not judge it)
    pub unaligned: bool,
    pub pre: CpuState,
    pub post: CpuState,
    pub ev_impl: Vec<Ev>,
    pub sampled: bool,
    pub lines: (bool, bool),
}

impl WorldA {
    pub fn new(state: &CpuState, out: Outside) -> WorldA {
        let mut cpu = Z80::default();
        state.to_impl(&mut cpu);
        let rcpu = state.to_ref();
        WorldA { cpu, bus: SimBus::new(out.clone()), rcpu, rbus: RBus { out, ev: vec![], t: 0 }, steps: 0, dirty: false, compare_control: true }
    }

    /// Re-initialises both CPUs and the line schedule for an independent case on the same memories.
    pub fn reset_case(&mut self, state: &CpuState, lines: Vec<u8>, io_seed: u64, bb_seed: u64) {
        state.to_impl(&mut self.cpu);
        self.rcpu = state.to_ref();
        if self.dirty {
            let (a, b) = (&self.bus.out.mem, &mut self.rbus.out.mem);
            b.copy_from_slice(a);
            self.dirty = false;
        }
        for o in [&mut self.bus.out, &mut self.rbus.out] {
            o.lines = lines.clone();
            o.samples = 0;
            o.io_seed = io_seed;
            o.io_count = 0;
            o.bus_byte_seed = bb_seed;
            o.bus_bytes = 0;
        }
    }
    pub fn poke(&mut self, addr: u16, v: u8) {
        self.bus.out.mem[addr as usize] = v;
        self.rbus.out.mem[addr as usize] = v;
    }

    /// One lock-step instruction (whole prefix chain).
    pub fn step(&mut self) -> StepOutcome {
        let pre = CpuState::from_ref(&self.rcpu);
        // snapshot for the single-instruction reduction: memory is captured lazily from the ref side
        let mem_before: Option<Vec<u8>> = None;
        let _ = mem_before;
        let samples_before = self.rbus.out.samples;
        let io_before = self.rbus.out.io_count;
        let bb_before = self.rbus.out.bus_bytes;
        self.rbus.ev.clear();
        self.bus.ev.clear();
        // keep a copy of the bytes the step may touch: we diff memory afterwards through the event lists
        let info = self.rcpu.step(&mut self.rbus);
        let sampled = self.rbus.out.samples > samples_before;
        let lines = if sampled {
            let v = self.rbus.out.lines.get(samples_before as usize).copied().unwrap_or(0);
            (v & 2 != 0, v & 1 != 0)
        } else {
            (false, false)
        };
        if info.ambiguous.is_some() {
            self.dirty = true;
            let post = CpuState::from_ref(&self.rcpu);
            return StepOutcome { info, ambiguous: true, div: None, timing_div: None, sampling_div: None, unaligned: false, pre, post, ev_impl: vec![], sampled, lines };
        }
        // implementation: one emulate() per prefix-chain link
        self.cpu.emulate(&mut self.bus);
        self.bus.commit_samples();
        let mut guard = 0;
        // the implementation may take several emulate() calls for one prefix chain; besides its own
        // "prefix pending" flag, keep going while the reference consumed a chain and the PCs differ
        // alignment of prefix chains: the implementation is done when it has fetched the same final
        // opcode byte (address of the last M1) as the reference
        let last_m1 = |ev: &Vec<Ev>| ev.iter().rev().find_map(|e| if let Ev::Rd { clk: 4, addr, .. } = e { Some(*addr) } else { None });
        let ref_last = last_m1(&self.rbus.ev);
        while (self.cpu.verif_prefix_pending() || (info.ignored_prefixes > 0 && guard < 2 * info.ignored_prefixes as usize + 2 && last_m1(&self.bus.ev) != ref_last)) && guard < 140_000
        {
            self.cpu.emulate(&mut self.bus);
            self.bus.commit_samples();
            guard += 1;
        }
        self.steps += 1;
        let unaligned = info.ignored_prefixes > 0 && last_m1(&self.bus.ev) != ref_last;
        let post_i = CpuState::from_impl(&mut self.cpu);
        let post_r = CpuState::from_ref(&self.rcpu);
        let accepted = info.accepted != Accepted::None;
        let ei = normalise_entry(&self.bus.ev, accepted);
        let er = normalise_entry(&self.rbus.ev, accepted);
        let vi: Vec<(u8, u16, u8)> = ei.iter().filter_map(|e| e.value()).collect();
        let vr: Vec<(u8, u16, u8)> = er.iter().filter_map(|e| e.value()).collect();
        let mut what = None;
        let mut kind = DivKind::Value;
        let regs_diff = {
            // Q after a *repeating* block iteration is unobservable (the next instruction is the block
            // instruction itself, which does not read Q, or an interrupt entry, which clears it)
            let mut pi = post_i.clone();
            if info.page == Page::ED && info.variant == 1 && (0xB0..=0xBB).contains(&info.opcode) {
                pi.q = post_r.q;
            }
            if !self.compare_control {
                pi.no_sample = post_r.no_sample;
            }
            pi.diff(&post_r, 0)
        };
        if let Some((name, a, b)) = regs_diff {
            what = Some(if vi != vr {
                format!("{} = {:04X}, reference {:04X} after the instruction; bus history impl [{}] ref [{}]", name, a, b, show_evs(&ei), show_evs(&er))
            } else {
                format!("{} = {:04X}, reference {:04X} after the instruction", name, a, b)
            });
        } else if vi != vr {
            kind = DivKind::Bus;
            what = Some(format!("bus value history differs: impl [{}] ref [{}]", show_evs(&ei), show_evs(&er)));
        } else if let Some(w) = nmi_ack_address(&self.bus.ev, &self.rbus.ev, info.accepted) {
            // the five acknowledge T-states of an NMI are an opcode-fetch-like cycle at the return address
            kind = DivKind::Bus;
            what = Some(w);
        } else if self.bus.out.samples != self.rbus.out.samples {
            kind = DivKind::Sampling;
            what = Some(format!(
                "interrupt sampling opportunities differ: impl sampled {} times, reference {} times",
                self.bus.out.samples - samples_before,
                self.rbus.out.samples - samples_before
            ));
        } else if ei != er {
            kind = DivKind::Timing;
            let ti: u32 = ei.iter().map(|e| e.t()).sum();
            let tr: u32 = er.iter().map(|e| e.t()).sum();
            what = Some(format!("cycle script differs ({} T vs documented {} T): impl [{}] ref [{}]", ti, tr, show_evs(&ei), show_evs(&er)));
        }
        let mut div = None;
        let mut timing_div = None;
        let mut sampling_div = None;
        if what.is_some() && kind != DivKind::Sampling {
            self.dirty = true;
        }
        // Q after a repeating block iteration: hardware behaviour not established by the model's
        // sources and normally unobservable; the reference adopts the implementation's value so that a
        // self-modifying block copy cannot turn it into a later flag divergence.
        if info.page == Page::ED && info.variant == 1 && (0xB0..=0xBB).contains(&info.opcode) {
            self.rcpu.q = post_i.q;
        }
        if !self.compare_control {
            self.rcpu.no_sample = post_i.no_sample;
        }
        if let Some(w) = what {
            // build the single-instruction scenario: pre-state + every byte either side read before writing it
            let mut single = Scenario::new();
            single.set("kind", 9);
            single.push(Op::new("regs", &pre.to_ops()));
            let mut seen: Vec<u16> = vec![];
            let mut written: Vec<u16> = vec![];
            for e in self.rbus.ev.iter().chain(self.bus.ev.iter()) {
                match *e {
                    Ev::Rd { addr, data, .. } => {
                        if !seen.contains(&addr) && !written.contains(&addr) {
                            seen.push(addr);
                            single.push(Op::new("mem", &[addr as i64, data as i64]));
                        }
                    }
                    Ev::Wr { addr, .. } => written.push(addr),
                    _ => {}
                }
            }
            // note: reads after a write to the same address within one side see that side's value;
            // the first-read rule above is per address over both lists, reference first.
            let ios: Vec<i64> = self.rbus.ev.iter().filter_map(|e| if let Ev::IoR { data, .. } = e { Some(*data as i64) } else { None }).collect();
            let ios_i: Vec<i64> = self.bus.ev.iter().filter_map(|e| if let Ev::IoR { data, .. } = e { Some(*data as i64) } else { None }).collect();
            let ios = if ios.len() >= ios_i.len() { ios } else { ios_i };
            if !ios.is_empty() {
                single.push(Op::new("io", &ios));
            }
            let _ = io_before;
            single.push(Op::new("lines", &[lines.0 as i64, lines.1 as i64]));
            if self.rbus.out.bus_bytes > bb_before || self.bus.out.bus_bytes > bb_before {
                // recompute the byte that was served
                let mut x = self.rbus.out.bus_byte_seed ^ bb_before.wrapping_mul(0xD6E8_FEB8_6659_FD93);
                single.push(Op::new("busbyte", &[((splitmix(&mut x) >> 16) as u8) as i64]));
            }
            let d = Divergence {
                kind,
                step: self.steps,
                info,
                what: w,
                pre: pre.clone(),
                impl_ev: self.bus.ev.clone(),
                ref_ev: self.rbus.ev.clone(),
                single,
                lines_involved: accepted || lines.0 || lines.1,
            };
            match kind {
                DivKind::Value | DivKind::Bus => div = Some(d),
                DivKind::Timing => timing_div = Some(d),
                DivKind::Sampling => {
                    sampling_div = Some(d);
                    // keep the two line schedules aligned for the rest of the run
                    self.bus.out.samples = self.rbus.out.samples;
                }
            }
        }
        StepOutcome { info, ambiguous: false, div, timing_div, sampling_div, unaligned, pre, post: post_r, ev_impl: self.bus.ev.clone(), sampled, lines }
    }
}

// ---------------------------------------------------------------------------------------------
// program generation

pub const THEMES: usize = 8;

fn snippet(rng: &mut Rng, theme: usize) -> Vec<u8> {
    let r8 = rng.u8();
    match theme {
        // prefix heavy
        1 => {
            let mut v = vec![];
            for _ in 0..rng.range(1, 4) {
                v.push(*rng.pick(&[0xDDu8, 0xFD, 0xDD, 0xFD, 0xED, 0xCB]));
            }
            v.push(r8);
            v.push(rng.u8());
            v
        }
        // block and I/O
        2 => {
            let op = *rng.pick(&[0xA0u8, 0xA1, 0xA2, 0xA3, 0xA8, 0xA9, 0xAA, 0xAB, 0xB0, 0xB1, 0xB2, 0xB3, 0xB8, 0xB9, 0xBA, 0xBB, 0x40, 0x41, 0x78, 0x79, 0x70, 0x71]);
            vec![0xED, op]
        }
        // stack / calls
        3 => {
            let op = *rng.pick(&[0xC5u8, 0xD5, 0xE5, 0xF5, 0xC1, 0xD1, 0xE1, 0xF1, 0xCD, 0xC9, 0xC4, 0xCC, 0xD4, 0xDC, 0xC0, 0xC8, 0xD0, 0xD8, 0xE3, 0xC7, 0xFF, 0xF9, 0x10, 0x18, 0x20, 0x28]);
            vec![op, rng.u8(), rng.u8()]
        }
        // interrupt control
        4 => match rng.below(12) {
            0 | 1 | 2 => vec![0xFB],
            3 | 4 => vec![0xF3],
            5 => vec![0x76],
            6 => vec![0xED, *rng.pick(&[0x45u8, 0x4D, 0x55, 0x5D])],
            7 => vec![0xED, *rng.pick(&[0x46u8, 0x56, 0x5E, 0x4E, 0x66, 0x76, 0x7E])],
            8 => vec![0xED, *rng.pick(&[0x57u8, 0x5F, 0x47, 0x4F])],
            9 => vec![0xFB, 0x76],
            10 => vec![0xFB, 0xC9],
            _ => vec![0xFB, 0xFB, 0xF3],
        },
        // flag / MEMPTR / Q probes
        5 => match rng.below(6) {
            0 => vec![0xCB, 0x46 | (rng.u8() & 0x38)],
            1 => vec![0x37],
            2 => vec![0x3F],
            3 => vec![0xDD, 0xCB, rng.u8(), 0x46 | (rng.u8() & 0x38)],
            4 => vec![0x27],
            _ => vec![0xED, *rng.pick(&[0x67u8, 0x6F, 0x44, 0x4A, 0x42, 0x5A, 0x52])],
        },
        // long prefix chains (now and then longer than any fixed bound an implementation might have: 2^10 + a few)
        6 => {
            let mut v = vec![];
            let n = if rng.chance(1, 40) { *rng.pick(&[255i64, 256, 257, 1023, 1024, 1025, 1026, 1027, 2050, 3000]) } else { rng.range(2, 7) };
            for _ in 0..n {
                v.push(*rng.pick(&[0xDDu8, 0xFD]));
            }
            match rng.below(4) {
                0 => v.push(0xED),
                1 => v.push(0xCB),
                _ => {}
            }
            v.push(r8);
            v.push(rng.u8());
            v
        }
        // repeating block ops with small counters are set up by register choice; here: LD BC,n ; ED Bx
        7 => {
            // the memory-fill idiom: LDIR / LDDR with the destination one byte beside the source
            if rng.chance(1, 5) {
                let a = rng.u16();
                let up = rng.bool();
                let d = if up { a.wrapping_add(1) } else { a.wrapping_sub(1) };
                return vec![0x21, a as u8, (a >> 8) as u8, 0x11, d as u8, (d >> 8) as u8, 0x01, 5 + (rng.u8() & 0x3F), 0x00, 0xED, if up { 0xB0 } else { 0xB8 }];
            }
            let op = *rng.pick(&[0xB0u8, 0xB1, 0xB2, 0xB3, 0xB8, 0xB9, 0xBA, 0xBB]);
            vec![0x01, rng.u8() & 3, rng.u8() & 1 | (rng.u8() & 2), 0xED, op]
        }
        _ => vec![r8],
    }
}

/// 64 KiB of program: uniformly random bytes with themed snippets overlaid.
pub fn gen_memory(seed: u64, theme: usize) -> Vec<u8> {
    let mut rng = Rng::new(seed ^ 0xA11CE);
    let mut mem = rng.bytes(65536);
    if theme == 0 {
        return mem;
    }
    let density = 3000 + rng.below(9000) as usize;
    for _ in 0..density {
        let th = if rng.chance(3, 4) { theme } else { 1 + rng.below(THEMES as u64 - 1) as usize };
        let mut s = snippet(&mut rng, th);
        let at = rng.u16() as usize;
        // instructions that refer to themselves: a jump / call / load whose operand is its own address (the
        // tightest idle loop, `JP $`, among them), `JR $`, `DJNZ $`
        if rng.chance(1, 24) {
            s = match rng.below(6) {
                0 | 1 => vec![0xC3, at as u8, (at >> 8) as u8],
                2 => vec![*rng.pick(&[0xCDu8, 0xCA, 0xC2, 0xDA, 0xD2, 0x2A, 0x22, 0x3A, 0x32, 0x21, 0x01, 0x11, 0x31]), at as u8, (at >> 8) as u8],
                3 => vec![0x18, 0xFE],
                4 => vec![*rng.pick(&[0x10u8, 0x20, 0x28, 0x30, 0x38]), 0xFE],
                _ => vec![*rng.pick(&[0xDDu8, 0xFD, 0xED]), *rng.pick(&[0x2Au8, 0x22, 0x21, 0x4B, 0x43, 0x5B, 0x53, 0x7B, 0x73]), at as u8, (at >> 8) as u8],
            };
        }
        for (i, b) in s.iter().enumerate() {
            mem[(at + i) & 0xFFFF] = *b;
        }
    }
    mem
}

/// Line schedule per sampling opportunity. `int_density`/`nmi_density` in 1/1000.
pub fn gen_lines(seed: u64, n: usize, int_density: u64, nmi_density: u64) -> Vec<u8> {
    let mut rng = Rng::new(seed ^ 0x11E5);
    let mut v = vec![0u8; n];
    if int_density == 0 && nmi_density == 0 {
        return v;
    }
    let mut i = 0;
    while i < n {
        if rng.below(1000) < int_density {
            // INT level window of 1..40 sampling points (the ULA holds it for 32 T = several opportunities)
            let w = *rng.pick(&[1usize, 1, 2, 3, 5, 8, 13, 40]);
            for k in i..(i + w).min(n) {
                v[k] |= 1;
            }
            i += w;
        } else {
            i += 1;
        }
    }
    for k in 0..n {
        if rng.below(1000) < nmi_density {
            v[k] |= 2;
        }
    }
    v
}

/// Encoding of one stratified instruction: (bytes, page).
pub fn encode_stratified(rng: &mut Rng) -> Vec<u8> {
    let page = rng.below(7);
    let op = rng.u8();
    match page {
        0 => vec![op, rng.u8(), rng.u8()],
        1 => vec![0xCB, op],
        2 => vec![0xED, op, rng.u8(), rng.u8()],
        3 => vec![0xDD, op, rng.u8(), rng.u8()],
        4 => vec![0xFD, op, rng.u8(), rng.u8()],
        5 => vec![0xDD, 0xCB, rng.u8(), op],
        _ => vec![0xFD, 0xCB, rng.u8(), op],
    }
}

pub fn cover_key(info: &StepInfo) -> u64 {
    let mut h = Fnv::new();
    h.u8(info.page as u8);
    h.u8(info.opcode);
    h.u8(info.variant);
    h.get()
}

pub fn page_name(p: Page) -> &'static str {
    match p {
        Page::Base => "base",
        Page::CB => "CB",
        Page::ED => "ED",
        Page::DD => "DD",
        Page::FD => "FD",
        Page::DDCB => "DDCB",
        Page::FDCB => "FDCB",
    }
}

/// Builds the world for a single-instruction scenario (kind 9).
pub fn world_from_single(sc: &Scenario) -> WorldA {
    let mut mem = vec![0u8; 65536];
    let mut state = CpuState::default();
    let mut io = vec![];
    let mut lines = vec![0u8];
    let mut busbyte: Option<u8> = None;
    for op in &sc.ops {
        match op.k.as_str() {
            "regs" => state = CpuState::from_ops(&op.a),
            "mem" => mem[(op.arg(0) as usize) & 0xFFFF] = op.arg(1) as u8,
            "io" => io = op.a.iter().map(|&x| x as u8).collect(),
            "lines" => lines = vec![((op.arg(0) != 0) as u8) << 1 | (op.arg(1) != 0) as u8],
            "busbyte" => busbyte = Some(op.arg(0) as u8),
            _ => {}
        }
    }
    let mut out = Outside::new(mem, 0, lines, 0);
    out.io_script = io;
    if let Some(b) = busbyte {
        // make the seeded byte equal b: search a seed (cheap: 256 expected tries)
        let mut s = 0u64;
        loop {
            let mut x = s;
            if (splitmix(&mut x) >> 16) as u8 == b {
                break;
            }
            s += 1;
        }
        out.bus_byte_seed = s;
    }
    WorldA::new(&state, out)
}
