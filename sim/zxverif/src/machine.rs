//! World B helpers: building and driving a real `Emulator<SimHost>`.

use crate::cpustate::CpuState;
use crate::host::*;
use crate::prng::Fnv;
use rustzx_core::zx::machine::ZXMachine;
use rustzx_core::zx::sound::ay::ZXAYMode;
use rustzx_core::{EmulationMode, EmulationStopReason, Emulator, RustzxSettings};
use rustzx_z80::Z80Bus;
use std::time::Duration;

pub type Emu = Emulator<SimHost>;

#[derive(Clone, Copy, Debug)]
pub struct MCfg {
    pub m128: bool,
    pub kempston: bool,
    pub mouse: bool,
    pub ay: bool,
    pub ay_mode: u8,
    pub beeper: bool,
    pub sound: bool,
    pub volume: u8,
    pub rate: usize,
    pub fastload: bool,
    pub rom: bool,
    pub autoload: bool,
    /// attach the (idle) debug interface of the harness; a host without any debugger leaves it off
    pub debug: bool,
}

impl Default for MCfg {
    fn default() -> Self {
        MCfg {
            m128: false,
            kempston: false,
            mouse: false,
            ay: false,
            ay_mode: 0,
            beeper: true,
            sound: true,
            volume: 100,
            rate: 44100,
            fastload: false,
            rom: true,
            autoload: false,
            debug: true,
        }
    }
}

impl MCfg {
    pub fn frame_len(&self) -> usize {
        if self.m128 {
            70908
        } else {
            69888
        }
    }
    pub fn line_len(&self) -> usize {
        if self.m128 {
            228
        } else {
            224
        }
    }
    /// T of the first contended T-state of the first picture line (T0 of the property text)
    pub fn t0(&self) -> usize {
        if self.m128 {
            14361
        } else {
            14335
        }
    }
}

pub fn new_emu(c: &MCfg) -> Emu {
    let settings = RustzxSettings {
        machine: if c.m128 { ZXMachine::Sinclair128K } else { ZXMachine::Sinclair48K },
        emulation_mode: EmulationMode::FrameCount(1),
        tape_fastload_enabled: c.fastload,
        kempston_enabled: c.kempston,
        mouse_enabled: c.mouse,
        ay_mode: match c.ay_mode {
            0 => ZXAYMode::Mono,
            1 => ZXAYMode::ABC,
            _ => ZXAYMode::ACB,
        },
        ay_enabled: c.ay,
        beeper_enabled: c.beeper,
        sound_enabled: c.sound,
        sound_volume: c.volume,
        sound_sample_rate: c.rate,
        load_default_rom: c.rom,
        autoload_enabled: c.autoload,
    };
    let mut e = match Emulator::<SimHost>::new(settings, SimCtx) {
        Ok(e) => e,
        Err(_) => panic!("Emulator::new failed"),
    };
    if c.debug {
        e.set_debug_interface(SimDebug::new(BreakMode::Never));
    }
    e
}

pub const LONG: Duration = Duration::from_secs(3600);

/// Executes exactly one instruction step through the public API (always-break debug interface).
/// Returns the number of frame boundaries crossed (0 or 1).
pub fn step_public(e: &mut Emu) -> Result<usize, String> {
    set_break_mode(e, BreakMode::Always);
    let r = e.emulate_frames(LONG);
    match r {
        Ok(info) => {
            if info.stop_reason != EmulationStopReason::Breakpoint {
                return Err("single step did not stop at breakpoint".into());
            }
            Ok(e.verif_passed_frames())
        }
        Err(err) => Err(format!("emulate_frames error: {:?}", err)),
    }
}

pub fn set_break_mode(e: &mut Emu, m: BreakMode) {
    if let Some(d) = e.debug_interface() {
        d.mode = m;
    }
}

/// Runs whole frames through the public API in FrameCount(1) mode, no breakpoints.
pub fn run_frames(e: &mut Emu, n: usize) -> Result<(), String> {
    set_break_mode(e, BreakMode::Never);
    e.set_speed(EmulationMode::FrameCount(1));
    for _ in 0..n {
        match e.emulate_frames(LONG) {
            Ok(i) if i.stop_reason == EmulationStopReason::Completed => {}
            Ok(_) => return Err("unexpected stop reason".into()),
            Err(err) => return Err(format!("emulate_frames error: {:?}", err)),
        }
    }
    Ok(())
}

pub fn drain_audio(e: &mut Emu, sink: &mut Vec<(f32, f32)>) -> usize {
    let mut n = 0;
    while let Some(s) = e.next_audio_sample() {
        sink.push((s.left, s.right));
        n += 1;
    }
    n
}

/// Write through the machine's memory map with device side effects (screen shadow), no timing.
pub fn write_mem(e: &mut Emu, addr: u16, data: &[u8]) {
    let bus = e.verif_bus();
    for (i, b) in data.iter().enumerate() {
        bus.write_internal(addr.wrapping_add(i as u16), *b);
    }
}

pub fn cpu_state(e: &mut Emu) -> CpuState {
    CpuState::from_impl(e.verif_cpu())
}

pub fn ram_pages(m128: bool) -> u8 {
    if m128 {
        8
    } else {
        3
    }
}

/// Hash of the complete CPU-visible and device state: registers (incl. hidden), all RAM, paging,
/// in-frame clock, border colour; optionally both frame buffers.
pub fn state_hash(e: &mut Emu, m128: bool, with_video: bool) -> u64 {
    let mut h = Fnv::new();
    cpu_state(e).hash_into(&mut h);
    h.u8(e.verif_cpu().verif_prefix_pending() as u8);
    for p in 0..ram_pages(m128) {
        h.bytes(e.verif_ram_page(p));
    }
    let (latch, unlocked, map) = e.verif_paging();
    h.u8(latch);
    h.u8(unlocked as u8);
    for (r, p) in map {
        h.u8(r as u8);
        h.u8(p);
    }
    h.u64(e.verif_frame_clocks() as u64);
    h.u8(e.border_color() as u8);
    if with_video {
        h.bytes(&e.screen_buffer().px);
        h.bytes(&e.border_buffer().px);
    }
    h.get()
}

pub fn video_hash(e: &Emu) -> u64 {
    let mut h = Fnv::new();
    h.bytes(&e.screen_buffer().px);
    h.bytes(&e.border_buffer().px);
    h.get()
}

/// Moves the in-frame clock to `t` by forward jumps only (devices keep cursors into the frame): when
/// `t` lies behind the current clock the rest of the frame is skipped first.
pub fn goto_frame_t(e: &mut Emu, t: usize, frame: usize) {
    let c = e.verif_frame_clocks();
    if t < c {
        e.verif_bus().wait_internal(frame - c);
    }
    e.verif_set_frame_clocks(t);
}

/// Physical RAM page (machine numbering) that the logical Spectrum bank maps to.
/// 48K: bank 5 -> page 0, bank 2 -> page 1, bank 0 -> page 2.
pub fn phys_page(m128: bool, bank: u8) -> Option<u8> {
    if m128 {
        Some(bank & 7)
    } else {
        match bank {
            5 => Some(0),
            2 => Some(1),
            0 => Some(2),
            _ => None,
        }
    }
}

/// One host-side way of asking for `n` frames.
#[derive(Clone, Copy, Debug)]
pub enum Slice {
    /// `FrameCount(n)` in one call
    Count(usize),
    /// Max-speed mode; the scripted stopwatch exceeds the limit at the n-th end-of-frame check;
    /// `style` selects the earlier readings (0 zero, 1 random below the limit, 2 non-monotone)
    Max(usize, u8),
    /// FrameCount(1) calls interrupted by a breakpoint at every `nth` instruction, resumed until n frames passed
    Break(u64, usize),
}

/// Drives the emulator for exactly the requested number of frames. Returns frames completed.
thread_local! {
    /// a debugging host that pokes (the value already there) into screen memory while the machine is stopped
    /// at a breakpoint in the middle of a frame; no emulated time may pass
    pub static POKE_AT_STOPS: std::cell::Cell<bool> = std::cell::Cell::new(false);
}

struct SamePoke([rustzx_core::poke::PokeAction; 1]);
impl rustzx_core::poke::Poke for SamePoke {
    fn actions(&self) -> &[rustzx_core::poke::PokeAction] {
        &self.0
    }
}

pub fn drive(e: &mut Emu, s: Slice, rng: &mut crate::prng::Rng) -> Result<usize, String> {
    match s {
        Slice::Count(n) => {
            set_break_mode(e, BreakMode::Never);
            e.set_speed(EmulationMode::FrameCount(n));
            match e.emulate_frames(LONG) {
                Ok(i) if i.stop_reason == EmulationStopReason::Completed => Ok(n),
                Ok(_) => Err("FrameCount call did not complete".into()),
                Err(x) => Err(format!("emulate_frames: {:?}", x)),
            }
        }
        Slice::Max(n, style) => {
            set_break_mode(e, BreakMode::Never);
            e.set_speed(EmulationMode::Max);
            let limit = 1000u64;
            let mut readings = vec![];
            for _ in 0..n.saturating_sub(1) {
                readings.push(match style {
                    0 => 0,
                    1 => rng.below(limit),
                    _ => *rng.pick(&[0u64, 999, 1, 500, 1000]),
                });
            }
            readings.push(limit + 1 + rng.below(1_000_000));
            set_clock_script(ClockScript::List(readings));
            match e.emulate_frames(std::time::Duration::from_micros(limit)) {
                Ok(i) if i.stop_reason == EmulationStopReason::Timeout => Ok(n.max(1)),
                Ok(_) => Err("Max-mode call did not end by timeout".into()),
                Err(x) => Err(format!("emulate_frames: {:?}", x)),
            }
        }
        Slice::Break(nth, n) => {
            set_break_mode(e, if nth == 0 { BreakMode::Always } else { BreakMode::EveryNth(nth) });
            e.set_speed(EmulationMode::FrameCount(1));
            let mut done = 0;
            let mut guard = 0u64;
            while done < n {
                guard += 1;
                if guard > 100_000_000 {
                    return Err("no progress under breakpoints".into());
                }
                match e.emulate_frames(LONG) {
                    Ok(i) => match i.stop_reason {
                        EmulationStopReason::Completed => done += 1,
                        EmulationStopReason::Breakpoint => {
                            done += e.verif_passed_frames();
                            if POKE_AT_STOPS.with(|p| p.get()) && guard % 3 == 0 {
                                let addr = 0x4000 + ((guard * 37) % 0x1B00) as u16;
                                let v = e.peek(addr);
                                e.execute_poke(SamePoke([rustzx_core::poke::PokeAction::mem(addr, v)]));
                            }
                        }
                        EmulationStopReason::Timeout => return Err("unexpected timeout".into()),
                    },
                    Err(x) => return Err(format!("emulate_frames: {:?}", x)),
                }
            }
            set_break_mode(e, BreakMode::Never);
            Ok(done)
        }
    }
}

/// Like `drive` for `Count` / `Break` slices, but a host that carries on after `emulate_frames`
/// returned an error (e.g. a tape that cannot be read): the deck is stopped and the remaining frames
/// are requested again. Returns (frames completed, errors seen).
pub fn drive_tolerant(e: &mut Emu, s: Slice) -> Result<(usize, usize), String> {
    let (n, nth) = match s {
        Slice::Count(n) => (n, None),
        Slice::Break(nth, n) => (n, Some(nth)),
        Slice::Max(n, _) => (n, None),
    };
    match nth {
        Some(0) => set_break_mode(e, BreakMode::Always),
        Some(k) => set_break_mode(e, BreakMode::EveryNth(k)),
        None => set_break_mode(e, BreakMode::Never),
    }
    let mut done = 0usize;
    let mut errors = 0usize;
    let mut guard = 0u64;
    while done < n {
        guard += 1;
        if guard > 100_000_000 || errors > 1000 {
            return Err("no progress".into());
        }
        e.set_speed(EmulationMode::FrameCount(if nth.is_some() { 1 } else { n - done }));
        match e.emulate_frames(LONG) {
            Ok(i) => match i.stop_reason {
                EmulationStopReason::Completed => done += if nth.is_some() { 1 } else { n - done },
                EmulationStopReason::Breakpoint => done += e.verif_passed_frames(),
                EmulationStopReason::Timeout => return Err("unexpected timeout".into()),
            },
            Err(_) => {
                errors += 1;
                done += e.verif_passed_frames();
                e.stop_tape();
            }
        }
    }
    set_break_mode(e, BreakMode::Never);
    Ok((done, errors))
}

/// Calls the ROM tape block routine LD-BYTES (0x0556) the way `CALL 0x0556` from RAM would:
/// A = expected flag byte, carry = LOAD (set) / VERIFY (clear), IX = destination, DE = length;
/// `ret` is pushed on the stack at `sp`. Runs until the routine returns to `ret` (true) or
/// `max_frames` have passed (false). The 48K BASIC ROM must be paged in.
pub fn call_ld_bytes(e: &mut Emu, a: u8, carry: bool, ix: u16, de: u16, sp: u16, ret: u16, max_frames: usize) -> Result<bool, String> {
    let mut st = cpu_state(e);
    st.af = (a as u16) << 8 | (st.af & 0x00FE) | carry as u16;
    st.ix = ix;
    st.de = de;
    st.pc = 0x0556;
    st.sp = sp.wrapping_sub(2);
    st.halted = false;
    st.no_sample = false;
    // the caller has interrupts disabled (otherwise the ROM's frame interrupt could run before the
    // routine's own DI and touch system variables)
    st.iff1 = false;
    st.iff2 = false;
    st.to_impl(e.verif_cpu());
    write_mem(e, sp.wrapping_sub(2), &ret.to_le_bytes());
    run_until_pc(e, ret, max_frames)
}

thread_local! {
    /// extra PC breakpoints a debugging host keeps set while `run_until_pc` runs (stops there are resumed)
    pub static EXTRA_BREAKPOINTS: std::cell::RefCell<Vec<u16>> = std::cell::RefCell::new(vec![]);
}

/// Runs (FrameCount(1) calls) until a breakpoint at `pc` is hit; false if `max_frames` passed first.
pub fn run_until_pc(e: &mut Emu, pc: u16, max_frames: usize) -> Result<bool, String> {
    let extra: Vec<u16> = EXTRA_BREAKPOINTS.with(|x| x.borrow().clone());
    if !extra.is_empty() {
        let mut all = vec![pc];
        all.extend_from_slice(&extra);
        set_break_mode(e, BreakMode::Set(all));
        e.set_speed(EmulationMode::FrameCount(1));
        let mut frames = 0;
        let mut stops = 0u64;
        let r = loop {
            match e.emulate_frames(LONG) {
                Ok(i) => match i.stop_reason {
                    EmulationStopReason::Breakpoint => {
                        if e.verif_cpu().regs.get_pc() == pc {
                            break Ok(true);
                        }
                        frames += e.verif_passed_frames();
                        stops += 1;
                        if frames >= max_frames || stops > 2_000_000 {
                            break Ok(false);
                        }
                    }
                    EmulationStopReason::Completed => {
                        frames += 1;
                        if frames >= max_frames {
                            break Ok(false);
                        }
                    }
                    EmulationStopReason::Timeout => break Err("unexpected timeout".to_string()),
                },
                Err(x) => break Err(format!("emulate_frames: {:?}", x)),
            }
        };
        set_break_mode(e, BreakMode::Never);
        return r;
    }
    set_break_mode(e, BreakMode::Set(vec![pc]));
    e.set_speed(EmulationMode::FrameCount(1));
    let mut frames = 0;
    let r = loop {
        match e.emulate_frames(LONG) {
            Ok(i) => match i.stop_reason {
                EmulationStopReason::Breakpoint => break Ok(true),
                EmulationStopReason::Completed => {
                    frames += 1;
                    if frames >= max_frames {
                        break Ok(false);
                    }
                }
                EmulationStopReason::Timeout => break Err("unexpected timeout".to_string()),
            },
            Err(x) => break Err(format!("emulate_frames: {:?}", x)),
        }
    };
    set_break_mode(e, BreakMode::Never);
    r
}
