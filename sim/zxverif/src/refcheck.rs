//! Validation of the reference CPU against the third-party z80test tapes the project trusts:
//! the real emulator only fast-loads the tape (up to the jump to 0x8000); from there the program
//! runs on `RefZ80` over a flat copy of ROM + RAM, independently of rustzx's CPU core.

use crate::cpustate::CpuState;
use crate::host::*;
use crate::machine::*;
use rustzx_core::host::Tape;
use zxref::z80::{RefBus, RefZ80};

struct Flat {
    mem: Vec<u8>,
    t: u64,
}

impl RefBus for Flat {
    fn m1(&mut self, addr: u16) -> u8 {
        self.t += 4;
        self.mem[addr as usize]
    }
    fn rd(&mut self, addr: u16) -> u8 {
        self.t += 3;
        self.mem[addr as usize]
    }
    fn wr(&mut self, addr: u16, v: u8) {
        self.t += 3;
        if addr >= 0x4000 {
            self.mem[addr as usize] = v;
        }
    }
    fn dly(&mut self, _addr: u16, n: u8) {
        self.t += n as u64;
    }
    fn internal(&mut self, n: u8) {
        self.t += n as u64;
    }
    fn io_r(&mut self, port: u16) -> u8 {
        self.t += 4;
        if port & 1 == 0 {
            0xBF // no key held, EAR low (issue 2 style, as rustzx reports it)
        } else {
            0xFF
        }
    }
    fn io_w(&mut self, _port: u16, _v: u8) {
        self.t += 4;
    }
    fn sample_lines(&mut self) -> (bool, bool) {
        (false, self.t % 69888 < 32)
    }
    fn int_bus_byte(&mut self) -> u8 {
        0xFF
    }
}

fn find(mem: &[u8], pat: &[u8], from: usize, to: usize) -> Option<usize> {
    (from..to).find(|&i| mem[i..i + pat.len()] == *pat)
}

/// returns the process exit code
pub fn run(name: &str) -> i32 {
    let Some(tap) = crate::props::c16::read_repo_gz(&format!("{}.tap.gz", name)) else {
        eprintln!("HARNESS-ERROR cannot read {}.tap.gz", name);
        return 2;
    };
    let cfg = MCfg { fastload: true, autoload: true, sound: false, beeper: false, ..Default::default() };
    let mut e = new_emu(&cfg);
    if e.load_tape(Tape::Tap(AnyAsset::Sim(SimAsset::plain(tap)))).is_err() {
        eprintln!("HARNESS-ERROR load_tape failed");
        return 2;
    }
    match run_until_pc(&mut e, 0x8000, 500) {
        Ok(true) => {}
        other => {
            eprintln!("HARNESS-ERROR the tape did not start at 0x8000: {:?}", other);
            return 2;
        }
    }
    let mut mem: Vec<u8> = (0..=0xFFFFu16).map(|a| e.peek(a)).collect();
    // same ROM poke as the project's own test harness uses: no "scroll?" prompt (JP 0x0CD2 at 0x0C88)
    mem[0x0C88] = 0xC3;
    mem[0x0C89] = 0xD2;
    mem[0x0C8A] = 0x0C;
    // stop address: z80test prints "all tests passed." through a CALL right before the text;
    // z80bltst ends at DI ; LD SP,nn
    let stop = if let Some(p) = find(&mem, b"all tests passed", 0x8000, 0x8400) {
        p - 3
    } else if let Some(p) = find(&mem, &[0xF3, 0x31, 0x00, 0x00], 0x8000, 0x8400) {
        p
    } else {
        eprintln!("HARNESS-ERROR cannot locate the end of the test program");
        return 2;
    };
    let st: CpuState = cpu_state(&mut e);
    let mut z: RefZ80 = st.to_ref();
    let mut bus = Flat { mem, t: e.verif_frame_clocks() as u64 };
    let t0 = std::time::Instant::now();
    let mut steps = 0u64;
    let limit = 60_000_000_000u64; // T-states
    while bus.t < limit {
        if z.pc as usize == stop {
            println!("REFMODEL {}: reached the success address {:04X} after {} instructions, {} T-states ({:.1} s)", name, stop, steps, bus.t, t0.elapsed().as_secs_f64());
            if name == "z80bltst" {
                // the block-flag test draws its verdict on screen: compare the attribute area with the
                // real emulator's run of the same tape (pinned test) is not possible here; success = reached exit
            }
            return 0;
        }
        z.step(&mut bus);
        steps += 1;
    }
    println!("REFMODEL {}: did NOT reach the success address {:04X} within {} T-states (PC {:04X})", name, stop, limit, z.pc);
    1
}
