#!/bin/sh
# usage: confirm_loop.sh <round> <variantA> <variantB> <worktree> <ID...>
#   confirms /tmp/seed<round>-<ID>/{A,B} in <worktree> and stores them as seeded/<ID>-<variantA|variantB>
R=$1; VA=$2; VB=$3; WT=$4; shift 4
for id in "$@"; do
  for v in A:$VA B:$VB; do
    src=${v%%:*}; dst=${v##*:}
    [ -d /verif/seeded/$id-$dst ] && { echo "=== $id $dst exists"; continue; }
    echo "=== $id $src -> $dst"
    python3 /verif/tools/confirm_seed.py /tmp/seed$R-$id/$src $id $dst --wt $WT 2>&1 | tail -4
  done
done
