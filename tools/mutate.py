#!/usr/bin/env python3
"""helper: mutate.py <name> <file> <old> <new>  -> writes /verif/mutants/<name>.patch (repo restored)"""
import subprocess, sys
def mutate(name, path, old, new, count=1):
    s = open(path).read()
    assert s.count(old) >= 1, (name, 'pattern not found')
    open(path, 'w').write(s.replace(old, new, count))
    d = subprocess.run(['git', '-C', '/repo', 'diff'], capture_output=True, text=True).stdout
    subprocess.run(['git', '-C', '/repo', 'checkout', '--', '.'])
    assert d.strip(), name
    open(f'/verif/mutants/{name}.patch', 'w').write(d)
if __name__ == '__main__':
    mutate(*sys.argv[1:5])
