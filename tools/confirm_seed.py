#!/usr/bin/env python3
"""Confirms a seeded change independently in a scratch worktree and, if everything holds, stores it
under /verif/seeded/<ID>-<variant>/ (patch.diff, demo.rs, demo.md, notes.md, meta.json).

usage: confirm_seed.py <seed-dir e.g. /tmp/seed-C02/A> <ID> <variant> [--dest path/in/repo.rs] [--cmd "cargo test ..."]

Steps (all in /tmp/confirm-wt, a detached worktree of /repo HEAD, removed by the caller when done):
  1. demo on the unmodified tree            -> must pass
  2. patch applied: demo                    -> must fail
  3. patch applied: full pinned suite       -> must pass (31 tests)
"""
import json, os, re, subprocess, sys, shutil

def sh(cmd, cwd, env=None, timeout=3600):
    e = dict(os.environ)
    e["CARGO_NET_OFFLINE"] = "true"
    if env:
        e.update(env)
    p = subprocess.run(cmd, shell=True, cwd=cwd, env=e, capture_output=True, text=True, timeout=timeout)
    return p.returncode, p.stdout + p.stderr

def main():
    seed, pid, variant = sys.argv[1], sys.argv[2], sys.argv[3]
    args = sys.argv[4:]
    dest = cmd = None
    wt = "/tmp/confirm-wt"
    while args:
        a = args.pop(0)
        if a == "--dest": dest = args.pop(0)
        elif a == "--cmd": cmd = args.pop(0)
        elif a == "--wt": wt = args.pop(0)
    md = open(os.path.join(seed, "demo.md")).read()
    if dest is None:
        m = re.search(r"`?((?:rustzx-[a-z0-9]+|vtx|aym)/(?:tests|src)[^\s`]*\.rs)`?", md)
        dest = m.group(1) if m else None
    if cmd is None:
        m = re.search(r"^\s*`?((?:[A-Z_]+=\S+\s+)*cargo test[^\n`]*)`?\s*$", md, re.M)
        cmd = m.group(1).strip() if m else None
    if not dest or not cmd:
        print("cannot determine demo destination / command; pass --dest / --cmd", dest, cmd); return 2
    if "--offline" not in cmd:
        cmd += " --offline"
    if not os.path.isdir(wt):
        rc, out = sh(f"git -C /repo worktree add --detach {wt} HEAD", "/")
        if rc: print(out); return 2
    sh("git checkout -- . && git clean -fdq -e target -e target-verif", wt)
    head = sh("git rev-parse HEAD", wt)[1].strip()
    repo_head = sh("git -C /repo rev-parse HEAD", "/")[1].strip()
    if head != repo_head:
        sh(f"git checkout --detach {repo_head}", wt)
    demo_path = os.path.join(wt, dest)
    os.makedirs(os.path.dirname(demo_path), exist_ok=True)
    shutil.copy(os.path.join(seed, "demo.rs"), demo_path)
    result = {"property": pid, "variant": variant, "demo_dest": dest, "demo_cmd": cmd, "repo_head": repo_head}
    rc1, out1 = sh(cmd, wt)
    result["demo_unmodified_exit"] = rc1
    print(f"[1] demo on unmodified tree: exit {rc1}")
    rc, out = sh(f"git apply {os.path.join(seed,'patch.diff')}", wt)
    if rc:
        print("patch does not apply:", out); return 2
    rc2, out2 = sh(cmd, wt)
    result["demo_patched_exit"] = rc2
    print(f"[2] demo with the patch: exit {rc2}")
    os.remove(demo_path)
    rc3, out3 = sh("cargo test --workspace --no-fail-fast --offline", wt)
    passed = sum(int(x) for x in re.findall(r"test result: \w+\. (\d+) passed", out3))
    failed = sum(int(x) for x in re.findall(r"test result: \w+\. \d+ passed; (\d+) failed", out3))
    result["suite_exit"] = rc3; result["suite_passed"] = passed; result["suite_failed"] = failed
    print(f"[3] pinned suite with the patch: exit {rc3}, {passed} passed, {failed} failed")
    sh("git checkout -- . && git clean -fdq -e target -e target-verif", wt)
    ok = rc1 == 0 and rc2 != 0 and rc3 == 0 and failed == 0 and passed >= 31
    result["confirmed"] = ok
    if ok:
        out_dir = f"/verif/seeded/{pid}-{variant}"
        os.makedirs(out_dir, exist_ok=True)
        for f in ["patch.diff", "demo.rs", "demo.md", "notes.md"]:
            if os.path.exists(os.path.join(seed, f)):
                shutil.copy(os.path.join(seed, f), os.path.join(out_dir, f))
        notes = open(os.path.join(seed, "notes.md")).read() if os.path.exists(os.path.join(seed, "notes.md")) else ""
        meta = {
            "breaks_property": pid,
            "source": "independent sub-agent given only the property text and its own worktree",
            "needs_to_manifest": "see notes.md",
            "confirmed_in_scratch_worktree": result,
            "what_was_run": [cmd + "   (unmodified tree: pass; with patch: fail)", "cargo test --workspace --no-fail-fast --offline   (with patch: %d passed, 0 failed)" % passed],
            "detected_by": [],
        }
        json.dump(meta, open(os.path.join(out_dir, "meta.json"), "w"), indent=1)
        print("stored in", out_dir)
    else:
        print("NOT confirmed:", json.dumps(result))
        print(out2[-1500:] if rc2 == 0 else "")
    return 0 if ok else 1

sys.exit(main())
