#!/usr/bin/env python3
"""Generates the prompts for a further round of seeded-change sub-agents.
usage: gen_seed_prompts.py <round> <outdir>      (worktrees /tmp/wt<round>-<ID>, results /tmp/seed<round>-<ID>/{A,B})
The agent gets the property text, its worktree, and one-line titles of the changes earlier agents
already produced for that property (so that it does something else) - nothing about /verif."""
import json, os, re, sys, glob
rnd, out = sys.argv[1], sys.argv[2]
os.makedirs(out, exist_ok=True)
props = [json.loads(l) for l in open('/verif/properties.jsonl')]
PREF3 = "Prefer changes of these kinds: (i) an INTERACTION between two features that are each fine alone (e.g. memory paging x tape, snapshot loading x sound or video state, breakpoints x fast loading, joystick x keyboard, sound disabled x timing), (ii) legal but unusual sequences of PUBLIC HOST API calls (an API called twice in a row, in the middle of a frame after a breakpoint stop, before the first frame was emulated, after an error was returned, a setter called while the emulator is running), (iii) rarely used public functions or settings that the property's wording covers, (iv) arithmetic at extremes (0, 1, 0xFF, 0xFFFF, wrap-around, i8 extremes, the last line / last T-state / last sample of a frame, the largest legal sample rate or smallest legal buffer), (v) two code sites that each look fine alone (a helper refactored so that one caller's assumption breaks), (vi) state that survives where it should be reset, or is reset where it should survive, only on an unusual path."
PREF5 = 'Prefer changes that are HARD TO FIND FOR RANDOMISED TESTING yet clearly violate the property as written: assume the verifier drives the public API with seeded random histories and random data and compares against an independent reference model, so anything that random data or random timing hits within a few thousand tries will be found at once. Think of (i) a condition on a SPECIFIC 16-bit or wider value, or on two values being EQUAL (address == length, two register pairs equal, block length == buffer size x k, value == its own complement) that is nevertheless natural in real programs, (ii) a specific ORDER of four or more distinct operations, (iii) a specific ALIGNMENT between two periodic things (instruction boundary vs frame end vs sample boundary vs tape edge vs buffer refill), (iv) state that only differs after a LONG time (counters that wrap after 256 / 65536 / 2^24 events, the 16-frame flash period, very long tapes, many frames), (v) a rarely reached BRANCH of an existing function (an error branch that continues, an else-arm for a legal but unusual configuration), (vi) behaviour that differs only for the SECOND instance of something (second tape inserted, second snapshot loaded, second emulator created, second time the end is reached). Keep it realistic - something a maintainer could plausibly write during a refactoring or optimisation.'
PREF6 = 'Prefer changes that sit where a RANDOMISED, MODEL-BASED VERIFIER IS LIKELY TO HAVE SIMPLIFIED: assume the verifier drives the public API with seeded random histories against independent reference models, uses small inputs (tapes of a few short blocks, runs of a few dozen frames), mostly default settings, and has already been hardened against needle values, wrapped counters and unusual call orders. Think of (i) SETTINGS and FEATURE combinations that are legal but rarely chosen (autoload_enabled, load_default_rom = false with host ROMs, every ZXAYMode, kempston + mouse + IoExtender together, beeper disabled with AY enabled, volume 0, the largest and smallest sample rates) and paths that only run for one machine model, (ii) the SECOND USE of something (a second load_tape replacing a playing tape, a second load_rom, replacing or removing the IoExtender or DebugInterface, a snapshot loaded after a tape was inserted, set_* called with the value already in force), (iii) ATOMICITY of failing operations: a load / save / rewind that returns Err must leave what the property talks about untouched or well-defined, also when the error comes late (last chunk, last page, after the header was applied), (iv) what happens EXACTLY AT a frame boundary inside a multi-frame emulate_frames call (FrameCount(n) with n > 1, Max mode), or between a load and the first emulated instruction, (v) the extremes the quantifier of the property explicitly includes ("all", "any", "every": the longest block, the highest port, the last bank, the last T-state, the largest legal count) in combination with a second, ordinary condition, (vi) the host seams (Stopwatch values, IoExtender claims, DebugInterface answers, FrameBuffer / asset / recorder implementations that behave legally but unusually: zero-length reads, seeks beyond the end, claims that change, a stopwatch that runs backwards), (vii) compensating errors: two changes that cancel for the common case and only differ for a rare one. Every change must still clearly violate the property AS WRITTEN (not merely differ in something the property leaves open), and must not be a close variant of an earlier one.'
PREF7 = 'This is a late round: the verifier has by now been hardened against needle values, wrapped counters, unusual call orders, rare settings, second uses, failing operations and host-seam oddities (see the list of earlier changes). To still get past it, (a) first split the STATEMENT of the property into its separate clauses and pick a clause, or a corner of the QUANTIFIER, that NONE of the earlier changes attacked - say in notes.md which clause it is; (b) prefer an effect that is visible through a DIFFERENT observation channel than the obvious one for that clause (for example through border_buffer()/screen_buffer() contents rather than register values, through the timing of a later unrelated instruction, through what a DebugInterface or IoExtender is told, through the audio samples, through what save_snapshot writes, through peek()), or that shows only in the SECOND of two emulator instances alive in the same process (process-wide state such as a lazily initialised static table or cache keyed too coarsely), or only for ONE of the two machine models in combination with a second condition; (c) prefer a fault whose first wrong observable appears LATE - many frames, many instructions or many bytes after the trigger - while everything compared right at the trigger still looks right; (d) prefer inputs that are legal but that no generator written from the property text would think of: tapes or files with zero-length or maximal-length items in the middle, snapshots whose fields contradict each other in a way the loader must resolve the documented way, programs that execute out of contended or ROM or just-paged-out memory, port addresses that select two devices, host calls made from inside a DebugInterface/IoExtender callback-adjacent moment (right after a breakpoint stop, right after an Err). The change must still clearly violate the property AS WRITTEN and must not be a close variant of an earlier one.'
PREF4 = 'Prefer changes of these kinds: (i) histories of THREE OR MORE distinct steps (public host API calls and/or emulated-program actions) where each prefix behaves correctly and only the full sequence goes wrong, (ii) recovery paths: behaviour after an operation returned an error, after a file was rejected, after the end of a tape/log was reached, after a breakpoint stop - followed by normal use, (iii) DATA-dependent corners: particular byte patterns or lengths (a checksum byte of 0, a run of equal bytes, a length that is an exact multiple of an internal buffer or of a frame, two identical consecutive items, values with the top bit set, the same value written twice with something else in between), (iv) a change in a DIFFERENT subsystem than the one the property names (shared helper, shared state, initialisation order, Default impl, settings plumbing) whose side effect breaks this property, (v) asymmetric twins: two functions / match arms / machine models (48K vs 128K) / channels (left vs right, A/B/C) / directions (read vs write, save vs load, press vs release) that should mirror each other but no longer do in one rarely used case, (vi) saturating / wrapping / truncating conversions (usize<->u16, i8<->u8, f32<->f64, division rounding) that only matter for extreme but legal parameter values.'
def title(path):
    try:
        for l in open(path):
            l = l.strip()
            if l.startswith('#'):
                return re.sub(r'^#+\s*', '', l)
    except OSError:
        pass
    return None
for p in props:
    pid = p['id']
    earlier = []
    for d in sorted(glob.glob(f'/verif/seeded/{pid}-*')):
        t = title(os.path.join(d, 'notes.md'))
        touched = sorted(set(re.findall(r'^\+\+\+ b/(\S+)', open(os.path.join(d, 'patch.diff')).read(), re.M)))
        earlier.append(f" - {t or d} (touched {', '.join(touched)})")
    # changes of a round whose confirmation is still running (not yet under /verif/seeded)
    for r in range(2, int(rnd)):
        for v in 'AB':
            d = f'/tmp/seed{r}-{pid}/{v}'
            if os.path.exists(os.path.join(d, 'patch.diff')) and not os.path.isdir(f'/verif/seeded/{pid}-' + 'ABCDEFGHIJKLMNOPQR'[(r - 1) * 2 + 'AB'.index(v)]):
                t = title(os.path.join(d, 'notes.md'))
                touched = sorted(set(re.findall(r'^\+\+\+ b/(\S+)', open(os.path.join(d, 'patch.diff')).read(), re.M)))
                earlier.append(f" - {t or d} (touched {', '.join(touched)})")
    wt = f'/tmp/wt{rnd}-{pid}'
    od = f'/tmp/seed{rnd}-{pid}'
    quant = p.get('quantifier') or p.get('quantification') or ''
    PREF = {'4': PREF4, '5': PREF5, '6': PREF6, '7': PREF7, '8': PREF7}.get(rnd, PREF3)
    text = f"""You are helping to evaluate a verification effort for the open-source ZX Spectrum emulator "rustzx" (Rust workspace: rustzx-z80 CPU core, rustzx-core machine, aym AY chip, vtx player, rustzx-utils, rustzx-test integration tests). Your job is to play the role of a developer who introduces a REALISTIC, SUBTLE BUG that breaks ONE stated semantic property while everything still compiles and the existing test suite still passes.

Work ONLY inside your own git worktree of the repository: {wt} (a detached checkout of the current code; it has its own build directory). You may read and edit anything inside it. You must NOT read, list or touch /verif, /repo, other /tmp/wt* directories or /tmp/seed* directories of other properties - your result has to be independent of any existing checking machinery. No network is available; always pass --offline to cargo. NEVER use `git stash` (the stash is shared between all worktrees of the repository and other agents are working in parallel): to switch between the unmodified and the modified tree use `git diff > /tmp/seed{rnd}-{pid}/work.patch; git checkout -- .; git apply /tmp/seed{rnd}-{pid}/work.patch`.

The property you must break:
----------------------------------------------------------------
{pid} - {p.get('title')}

Statement: {p.get('statement')}

Quantifier: {quant}
----------------------------------------------------------------

IMPORTANT - this is round {rnd} (several earlier rounds were made). Earlier rounds already produced the following changes for this property; do NOT repeat them or close variants of them - choose different code sites and different mechanisms:
{chr(10).join(earlier)}
Also already tried for various properties (avoid): off-by-one of a single constant, swapping two table entries, dropping one mask bit in a port decode, removing a single bounds check, a one-entry cache of the last port / last written value, a lazily evaluated generator, a "same value written again" early return.
{PREF}

Produce TWO independent candidate changes (A and B), each a small source change to the rustzx crates (not to tests, not to Cargo files) such that:
 1. the workspace still compiles and `cargo test --workspace --no-fail-fast --offline` (run inside the worktree; first build takes a few minutes; 31 tests pass on the unmodified tree, some are #[ignore]d) still passes with the change applied - verify this yourself;
 2. the change violates the property above for at least some inputs / schedules / histories, in a way a user could in principle observe through the public API;
 3. the violation needs something SPECIFIC to manifest - a particular interleaving or timing, a fault at a particular point, a multi-step sequence of operations, an unusual input value or boundary, a particular configuration, or two code sites that each look fine alone - NOT something ordinary use exposes immediately;
 4. A and B use different mechanisms / code sites.

For each candidate also write a DEMONSTRATION: a small Rust integration test (preferred; e.g. a new file under rustzx-test/tests/ or rustzx-z80/tests/ or vtx/tests/ or aym/tests/ using only public APIs of the crates) or a small program, which FAILS with the change applied and PASSES on the unmodified tree. Verify both directions yourself. The demonstration is not part of the patch. Do not rely on `--cfg rustzx_verif` items (they are not part of the public API).

Deliverables - create directory {od} and write:
  {od}/A/patch.diff   (output of `git diff` for change A only, relative to the unmodified tree, source files only)
  {od}/A/demo.rs      (the demonstration source) and {od}/A/demo.md (where the file goes - say it as a path like `rustzx-test/tests/<name>.rs` - and on its own line the exact `cargo test ...` command to run it; expected output with and without the change)
  {od}/A/notes.md     (first line: `# {pid} / A - <one-line title>`; then what the change is, why it breaks the property, exactly what is needed for it to manifest, and which existing tests you ran with what result)
  and the same under {od}/B/.
Leave the worktree clean (git checkout -- . and remove untracked demo files) when you are done, but do not delete the worktree directory. Finally reply with a short summary (one paragraph per candidate) including the commands you ran to confirm (1) and the two directions of the demonstration.
"""
    open(os.path.join(out, f'prompt-{pid}.txt'), 'w').write(text)
print('written', len(props), 'prompts to', out)
