#!/usr/bin/env python3
"""For every confirmed seeded change under /verif/seeded/, applies it to /repo, runs the quick (and
if missed, the thorough) check of the property it breaks, reverts, and records the outcome in
meta.json (detected_by).  usage: seed_detect.py [name-pattern] [--also ID,ID] [--only-also]  (--only-also keeps the recorded result of the own check and adds the others)"""
import glob, json, os, re, subprocess, sys
ROOT = "/verif"
pat = sys.argv[1] if len(sys.argv) > 1 and not sys.argv[1].startswith("--") else ""
also = []
if "--also" in sys.argv:
    also = sys.argv[sys.argv.index("--also") + 1].split(",")
only_also = "--only-also" in sys.argv
recheck = "--recheck" in sys.argv  # run again exactly the checks that are recorded as detecting (plus the own one)
def run(cmd, env=None):
    e = dict(os.environ); e.update(env or {})
    p = subprocess.run(cmd, shell=True, capture_output=True, text=True, env=e)
    return p.returncode, p.stdout + p.stderr
if run("git -C /repo status --porcelain --untracked-files=no")[1].strip():
    print("refusing: /repo dirty"); sys.exit(2)
for d in sorted(glob.glob(f"{ROOT}/seeded/*{pat}*/")):
    meta_p = os.path.join(d, "meta.json")
    meta = json.load(open(meta_p))
    pid = meta["breaks_property"]
    rc, out = run(f"git -C /repo apply {d}patch.diff")
    if rc:
        print(d, "patch does not apply"); continue
    res = [r for r in meta.get("detected_by", []) if r.get("check") == pid] if only_also else []
    checks = also if only_also else [pid] + also
    if recheck:
        checks = [pid] + [r["check"] for r in meta.get("detected_by", []) if not r.get("missed") and not r.get("error") and r.get("check") != pid]
        res = []
    for cid in checks:
        for tier in ["quick", "thorough"]:
            rc, out = run(f"{ROOT}/check {cid} {tier}", {"VERIF_NO_EVIDENCE": "1", "VERIF_REPLAY_DIR": f"{ROOT}/sim/target/seed-replays"})
            if rc == 1:
                m = re.search(r"^VIOLATION[^\n]*\n\s+site=(\S+) witness=(\S*)", out, re.M)
                res.append({"check": cid, "tier": tier, "site": m.group(1) if m else "?", "witness": m.group(2) if m else ""})
                break
            if rc != 0:
                res.append({"check": cid, "tier": tier, "error": rc}); break
        else:
            res.append({"check": cid, "tier": "quick+thorough", "missed": True})
    run("git -C /repo checkout -- .")
    meta["detected_by"] = res
    json.dump(meta, open(meta_p, "w"), indent=1)
    print(os.path.basename(d.rstrip("/")), json.dumps(res))
run(f"cd {ROOT}/sim && cargo build --release --offline -p zxverif")
