#!/bin/sh
# usage: tools/try_seed.sh <patch.diff> <ID> [ID...]   — applies the patch to /repo, runs the quick
# checks named, reverts the patch; prints DETECTED/MISSED per check.
ROOT=$(cd "$(dirname "$0")/.." && pwd)
P="$1"; shift
if [ -n "$(git -C /repo status --porcelain --untracked-files=no)" ]; then echo "refusing: /repo dirty" >&2; exit 2; fi
git -C /repo apply "$P" || { echo "patch does not apply"; exit 2; }
for id in "$@"; do
  out=$(VERIF_NO_EVIDENCE=1 VERIF_TIER_OVERRIDE="${TIER:-quick}" VERIF_REPLAY_DIR="$ROOT/sim/target/seed-replays" "$ROOT/check" "$id" "${TIER:-quick}" 2>&1); code=$?
  if [ $code -eq 1 ]; then echo "DETECTED by $id: $(echo "$out" | grep -m1 -A2 '^VIOLATION' | tail -2 | tr '\n' ' ' | cut -c1-300)";
  elif [ $code -eq 0 ]; then echo "MISSED by $id"; else echo "ERROR($code) in $id: $(echo "$out" | tail -3)"; fi
done
git -C /repo checkout -- .
# rebuild from the clean tree so that the binary left behind is never the patched one
(cd "$ROOT/sim" && cargo build --release >/dev/null 2>&1)
