#!/usr/bin/env python3
"""Regenerates /verif/MANIFEST.json from the table below (one entry per built check)."""
import json, os, subprocess
ROOT = os.path.dirname(os.path.dirname(os.path.abspath(__file__)))

TECH = "deterministic simulation with fault injection: "
CHECKS = {
 "C13": dict(
   text="Seeded machine states (all registers, IFF2, IM, border, 128K latch incl. lock, every RAM byte, SP in screen memory / at the top of RAM) are saved as SNA through a faulty recorder (short writes, error or Ok(0) at the k-th call) and loaded back into the same emulator after more execution or into a fresh emulator in a seeded dirty state; checks: hash of registers + RAM + paging + clock identical before and after the save (also when the recorder fails), every SNA-carried item restored, lock behaviour, and a twin continuation in which the saved machine and the restored one must execute the following frames identically. Save/load at an arbitrary instant is the crash/restart analogue of this codebase. Sampling, not proof. States may be halted at save time; a failed save may be retried through a healthy recorder; receivers may have just rejected another file.",
   note="48K: the two bytes below SP hold PC after a load (format property) and are masked/equalised; IFF1 := IFF2, MEMPTR, Q and the position inside the frame are equalised before the continuation because SNA cannot carry them.",
   technique=TECH+"snapshot save through a fault-injecting recorder and reload into seeded dirty receivers, twin-machine continuation",
   ref="5 (C13)"),
 "C14": dict(
   text="Seeded machine states encoded by independent SNA / SZX / SCR writers (chunk order permuted, pages stored or zlib-compressed, unknown chunks, optional AY/KEYB/AMXM/CRTR chunks) are loaded through chunking assets into seeded dirty receivers (halted, mid prefix chain, EI pending, paging locked on another bank, other border/IM/IFF, after a program ran, AY programmed, stopped by a breakpoint in the middle of a frame) and into a fresh one: field-by-field state comparison, display vs RefScreen, identical continuation of dirty and fresh receiver, AY read-back and PCM against a twin programmed through the ports, joystick/mouse presence, SZX HALTED/EILAST behaviour, identical continuation of SNA / stored-SZX / zlib-SZX encodings of one state, and the model-mismatch matrix (Err or correct layout, never a panic). The load at an arbitrary instant into an arbitrary receiver is this technique's crash/restart analogue: only what the file carries survives. Sampling, not proof. Receivers may have AY sound disabled in the settings; the same file may be loaded twice in a row. SZX frame positions are seeded (incl. values above 65535) and compared; receivers may have just rejected another file.",
   note="Writers follow the public format documents (DESIGN appendix E); what a format cannot carry is equalised before continuation; SZX HALTED accepted under either PC convention; AY PCM compared bit-exactly for fresh receivers only; SCR with the shadow screen displayed not asserted.",
   technique=TECH+"snapshot load injected at seeded instants into seeded dirty receivers; twin-machine continuation and reference-state comparison",
   ref="5 (C14)", cat="exploration"),
 "C15": dict(
   text="Fault enumeration: for a corpus file of each format (SNA, SZX, SCR, TAP, ROM, gzip, VTX; from independent writers and the repository) the load is repeated with a read error and with a seek error at every asset call index, with short reads, both EOF styles and truncation at structural prefixes. Plus seeded structure-aware mutations (length/size/count fields, non-UTF-8 ids, out-of-range IM/border/page values, duplicated/shortened chunks, oversize) and random byte strings up to 160 KiB. Oracles: no panic and no arithmetic overflow (harness built with overflow checks), asset-call budget (deterministic hang detector), single-allocation bound, and the machine still emulates frames afterwards. Structure-aware mutations include re-spelled chunk ids with shortened bodies, 16-bit register fields at the extremes and RAM page chunks re-encoded with the wrong amount of data. A fifth of the receiving machines have been stopped by a breakpoint in the middle of a frame.",
   note="Enumeration is over fault positions of one load, not over all inputs; mutations and random strings are sampled. Allocation failure itself cannot be injected in-process (it aborts); the bound on the largest single request stands in for it. One known finding: a panic inside the third-party delharc LH5 decoder.",
   technique=TECH+"enumeration of asset failure positions plus seeded structure-aware corruption of the real loaders' inputs",
   ref="5 (C15)", cat="fault_enumeration"),
 "C18": dict(
   text="The real AymPrecise driven by seeded register-write histories interleaved with sample generation at seeded sample rates (8-384 kHz), chips (AY/YM) and stereo modes, followed by one probe segment whose PCM is measured: tone pitch (zero crossings), TP=0 vs TP=1 stream identity, noise transition rate, envelope contour and repeat period for all 16 shapes, strictly increasing volume ladder, mixer gating for all 64 masks, panning per mode x channel, finiteness and bound; port read-back and register-number wrap through the real machine; two differentials on twin chips with identical histories: order independence of register writes, and listener independence (a channel that starts to listen to the tone / noise / envelope generator after an idle time hears bit-exactly what one that listened all along hears). Exploration with analytic, tolerance-based oracles - the weakest fit of the twenty (stated in DESIGN). Machine-level probes: register numbers with upper bits against a twin using the plain numbers (bit-identical sound), host mute / un-mute after a finished one-shot envelope (must stay silent).",
   note="Tolerances: pitch 1.5%+2 Hz (f < 0.2*rate), noise rate +-15%, envelope repeat period +-3%, ramp timing coarse (+-7%); a 1% pitch error or a wrong noise polynomial would pass. The simulated dimension is the write/generate interleaving and the sample rate; pitch and shape clauses themselves are pure.",
   technique=TECH+"seeded register-write/sample-generation interleavings on the real chip model, PCM features checked against the chip definition",
   ref="5 (C18)"),
 "C20": dict(
   text="vtx::Player on a recording AymBackend under seeded partitions of the output into play() buffer lengths (1, 2, odd, prime, huge, mixed; odd and length-1 buffers in stereo): exact register-write schedule (frame k at sample k*floor(rate/freq), R13=0xFF skipped), totals, end reporting, stream order; on the real AymPrecise the chunked stream must be bit-identical to the one-buffer stream for i8/i16/i32/f32/f64; Vtx::load of generated files (independent header/strings builder + literal-only LH5 encoder) and of the repository's files must give the frame-major transpose. Sampling, not proof. A fourth kind interleaves rewind / rewind_loop / set_frame (also rejected ones) with play() against a reference position model.",
   note="The schedule dimension is the caller's chunking of play(); no clock or fault is involved. Domain: sample_rate >= player_frequency >= 1; a length-1 buffer in stereo cannot hold a pair and must leave the stream untouched.",
   technique=TECH+"seeded call/buffer-size schedules on the real player with a recording backend seam; stream identity across chunkings",
   ref="5 (C20)"),
 "C10": dict(
   text="Seeded TAP images (0-6 blocks, boundary lengths around the 128-byte buffer, right/wrong checksums, chunked asset) and request sequences (A, LOAD/VERIFY, IX anywhere incl. ROM and wrap, DE incl. 0 and D=0xFF) issued as direct calls of the ROM routine with fast loading on, on both machines (128K: the 48K BASIC ROM paged in through a seeded paging history - any bank at 0xC000, via ROM 0, locked, locked followed by ignored writes, paging writes between requests); memory, IX, DE and carry compared with RefLdBytes (byte-level model of the ROM code); requests past the end of the tape must not return and must leave the machine bit-identical to a twin with no tape inserted. Sampling, not proof. The host may rewind the deck between requests (also after the end of the tape was hit); the fast-load setting may be applied through the setter. Play followed at once by stop between requests leaves the deck servable by the fast loader; blocks up to 65535 bytes and repeated blocks are generated.",
   note="RefLdBytes is cross-validated against the real ROM loader running in real time by C11's system runs; the ROM's own stack traffic (also where it is visible through a second window onto the same bank) and (when its frame interrupt ran before returning) system variables are masked; banks mapped nowhere must stay untouched.",
   technique=TECH+"seeded tape images and request histories on the real machine against a reference loader model and a no-tape twin machine",
   ref="5 (C10)"),
 "C11": dict(
   text="Component level: the real Tap state machine is stepped through whole tapes with time partitioned into seeded 1..16 T bus-wait steps (also constant and zero-length steps, chunked asset reads); every pulse must lie in [nominal, nominal+32), pilots/syncs/bit pairs/pauses and the decoded bytes must equal RefTape. System level: twin machines on the same tape - fast load vs the real 48K ROM loader running in real time on the played waveform, each request issued in the pause before its block - must agree on memory, IX, DE and carry and with RefLdBytes; (the real-time machine with the fast-load setting on or off); and the pilot tone observed through a seeded even port (any high byte) while the CPU executes code full of contended internal cycles must keep its average pulse length within [2168, 2200]. Sampling, not proof.",
   note="'About one second' = 3.15M..3.85M T; system runs use blocks up to 300 bytes; system variables touched by the ROM's frame interrupt are masked.",
   technique=TECH+"seeded time partitions on the real tape state machine against a reference waveform; twin-machine differential (fast load vs real-time ROM loader)",
   ref="5 (C11)"),
 "C19": dict(
   text="Seeded speaker/MIC toggle schedules (observed by single-stepping), SZX snapshot loads between frames that carry their own speaker/MIC levels, under seeded sample rates (8-384 kHz), volumes, device enables and host drain policies (always / every j-th frame / never, multi-frame host calls): exactly floor(rate/50) samples per drained frame, every sample equals a beeper level in force within one sample of its frame time, all samples finite and within the volume bound (also with a randomly programmed AY), queue below two frames' worth when not drained. Sampling, not proof. The host may switch AY sound through set_ay_enabled between frames; the speaker level in force must survive. Sound generation may be switched on through set_sound() after a construction with sound disabled.",
   note="Beeper factors (0.5 speaker, 0.1 MIC, volume/200) are taken from the mixer's documented constants; the per-sample clause is checked with the AY disabled; AY signal content is C18's.",
   technique=TECH+"seeded port-write times, sample rates and host drain schedules on the real machine, PCM checked against a reference level time line",
   ref="5 (C19)"),
 "C08": dict(
   text="Seeded screen contents written through every path the property lists (CPU LDIR via 0x4000 and via 0xC000 with bank 5/7 paged, CPU 16-bit stores and pushes at seeded offsets, pokes, SCR / SNA / SZX load with chunked assets, tape fast-load of the whole screen and of partial blocks through either window, raw bus writes), 128K screen-select toggles, then quiet frames compared pixel-exact with RefScreen; FLASH polarity run-lengths over 50+ frames; single writes (CPU, poke or bus while stopped mid-frame) at a seeded T at least two lines before/after the beam position must appear in the current/next frame, also with a 128K paging write that leaves the displayed screen alone in the same frame. Sampling, not proof. Host actions before the quiet frames: save_snapshot with SP inside the display file; screen select written together with the lock bit.",
   note="Oracle input is the actual content of the displayed RAM bank (hook); loader correctness is C14's; flash phase origin is not assumed.",
   technique=TECH+"seeded write paths and write times relative to the simulated beam, frame buffers checked against a reference decode",
   ref="5 (C08)"),
 "C09": dict(
   text="Seeded schedules of OUTs to even ports over several frames (several per line, in retrace, in the first/last border lines, straddling the frame end, frames with no write, border set by a loaded SNA or SZX snapshot at the start or between frames, SZX files with arbitrary low bits in their last-OUT field); write instants are observed by single-stepping and every completed border buffer is compared pixel by pixel with the reference time line within the property's 16-pixel tolerance. Sampling, not proof. Every fourth run the writes are made by a free-running program (instants from RefZ80 on RefMem+RefULA) while the host asks for several frames per call; the frame presented after each call is compared. OUT (C) uses any even port; addresses that also match the AY decode are a known finding (the ULA never sees them).",
   note="Pixels whose beam time lies within 8 T of the span [start of port cycle, end of OUT] may show either colour; power-on state before any write is outside the statement.",
   technique=TECH+"seeded port-write times on the simulated frame clock, border frame buffer checked against a reference beam time line",
   ref="5 (C09)"),
 "C07": dict(
   text="Seeded device configurations (machine, Kempston joystick, mouse, I/O extender with a seeded claimed set, held keys, AY contents), then stratified port accesses interleaved with host actions (extender installed late, replaced, or changing its claims for the port just accessed; snapshot of the running machine loaded and the previous ULA value written again) (IN and OUT executed by the emulated CPU) at seeded beam positions; a strict partial-decode model says which single device is selected, its effect/value is asserted and every other device's canary (border, paging latch + bank marker, AY read-back, extender log) must be unchanged; unclaimed reads must return the floating bus - exact ULA fetch schedule (display byte, attribute, +1, +1, four idle T-states per 8-T group) when nothing delays the port cycle, a position-specific tolerant set otherwise; with a pilot tone playing bit 6 of every ULA read (any even address) must agree with an immediate read of an unclaimed canonical port. Sampling, not proof; the decode clause is static, only the floating-bus clause depends on simulated time. AY sound may be disabled in the settings or toggled through the setter (the chip stays on the bus); a port claimed by the extender must reach no built-in device.",
   note="Multi-device addresses and addresses the strict reading leaves open are don't-care (counted); floating-bus values inside the window are checked against a position-specific set (+-4 columns), so a wrong byte passes with ~13% probability per sample; EAR asserted low with no tape.",
   technique=TECH+"seeded configuration / port / beam-position sampling on the real machine against a strict decode model with canaries on all non-selected devices",
   ref="5 (C07)"),
 "C04": dict(
   text="Whole-machine simulation at three levels: single bus operations on the real ZXController; stratified instructions single-stepped through the public API; and (every sixth run) a lock-step of thousands of instructions of seeded random code against RefZ80 running on RefMem + RefULA with no re-synchronisation, the cumulative emulated time compared after every instruction (state that only goes wrong over a history - a stale cache, a latch following an ignored write). The first two run each from a seeded start T (uniform and biased to the edges of the contention window / frame) with code, operands, stack, I register and port address placed in contended or uncontended memory under seeded 128K paging; observed durations are compared with RefULA applied to RefZ80's cycle script. Sampling, not proof. Round-3 additions: ports claimed by a host I/O extender are timed like any other port; 16-bit accesses with the word on a window border. The lock-step also loads SZX snapshots of the current state positioned elsewhere in the frame (also earlier), so that anything cached about the frame position is exercised.",
   note="In the lock-step a clock difference at a frame crossing or interrupt entry is left to C05 and a register difference to C01/C06 (the pair is re-synchronised). Truth is RefULA (constants of the property text) + RefZ80 cycle scripts; the reference is re-synchronised from the machine's own registers and memory before every instruction (attribution: value bugs are C01's); even ports matching the paging decode are don't-care.",
   technique=TECH+"seeded start-time / placement / paging schedules on the real machine, durations checked against a reference contention model",
   ref="5 (C04)"),
 "C17": dict(
   text="Seeded event histories over all host input sources (keys, compound keys, both Sinclair joysticks, Kempston joystick, mouse buttons/wheel/motion) with heavy overlap on shared matrix positions, double presses and releases of unheld controls; after every event the ports are read back by IN A,(C) executed by the emulated CPU and compared with the RefInputs set model. Sampling, not proof.",
   note="Only bits 0-4 of ULA reads are compared (EAR belongs to C07/C11); mouse counters compared as deltas; the Sinclair joystick 2 'down' mapping is a recorded known finding and excluded in a quarter of the runs (avoid-known mode).",
   technique=TECH+"seeded input-event histories on the real machine, read back through the emulated CPU, against a reference set model",
   ref="5 (C17)"),
 "C05": dict(
   text="Whole-machine simulation: constant-time programs (DI busy loop, EI busy loop with a 39-T IM-2 handler, EI;HALT idle loop, DI;HALT entered at a T-state that is not a multiple of 4) run for K frames under a seeded host driving schedule (FrameCount(n), Max mode stopped by scripted stopwatch readings, breakpoint stops) with an exact T-state conservation equation and interrupt counter, plus INT-window and frame-end single-step probes on both machines, and a whole-machine lock-step of seeded random code (any instruction, contended or not, crossing the frame end or being interrupted) against RefZ80 on RefMem + RefULA with no re-synchronisation: frames completed and in-frame clock must equal the reference after every instruction. Sampling, not proof. An unreadable tape may be started mid-run: emulate_frames returns an error in the middle of a frame, the host stops the deck and carries on, and the conservation equation must still hold; sound/device settings are seeded.",
   note="The constant-time programs run in uncontended RAM so instruction times are the documented ones (C03); the lock-step relies on RefULA/RefZ80 for instruction times and judges only frame crossings, interrupt entries and the frame count (differences inside a frame are C04's); uses hooks verif_frame_clocks/verif_set_frame_clocks.",
   technique=TECH+"seeded host-call schedules and scripted stopwatch on the real emulator, exact T-state accounting",
   ref="5 (C05)"),
 "C06": dict(
   text="Seeded histories of paging-port writes (all values, lock early/late/never, decoy ports), CPU reads/writes, single arbitrary instructions whose multi-byte accesses straddle the 16 KiB window borders (16-bit loads/stores, stack traffic, block transfers, IM 2 vector fetch; model RefZ80 on RefMem), host load_rom in the middle of the history, and sweeps on the real machine, checked operation by operation against RefMem (8 banks + ROMs + latch), with embedded and host-supplied (chunked asset) ROM sets. Sampling, not proof. SNA / SZX snapshots of the current state are loaded in the middle of the history.",
   note="Trusts RefMem (zxref::mem) and, for the instruction-level operation, RefZ80 (a difference is re-run on the bare CPU over a flat copy of the visible memory so that a CPU bug is not reported as a memory-map bug); paging writes use odd ports with A15=0, A1=0, A5-A7=1 so that no other device is selected (port decode itself is C07).",
   technique=TECH+"seeded operation histories on the real machine checked against a reference memory model",
   ref="5 (C06)"),
 "C16": dict(
   text="The property this technique is made for: one scenario (machine, content, frame-keyed input script) is executed under several host drivings - call slicing, Max mode with arbitrary scripted stopwatch readings, breakpoint stops and resumes, sound off, drain always/sometimes/never, five asset implementations (BufferCursor, chunking asset, GzipAsset, real FileAsset, 1-byte reads) - and the hash of all CPU state, RAM, paging, clock, both frame buffers (and PCM for draining drivings) must be identical at every compared frame boundary. The system is its own oracle under a different schedule. Sampling, not proof. Sound and fast-load settings may be changed through their setters at call boundaries; the AY registers read back at the end of every driving are compared; in loader-program scenarios the frame phase is calibrated so that the fast-load trap is raised by the instruction that completes a frame. Frame-count requests are driven with arbitrary stopwatch readings and a small limit as well; one scenario family fast-loads a tape longer than 256 KiB through every asset kind.",
   note="Inputs are applied at frame boundaries only; audio is compared only between drivings that drain every frame; repository snapshots, ROM boot and random programs are the workloads.",
   technique=TECH+"differential execution of one scenario under seeded host schedules, stopwatch scripts, breakpoints and asset chunkings",
   ref="5 (C16)"),
 "C01": dict(
   text="Lock-step refinement of the real Z80 core against an independent reference CPU (RefZ80) under seeded instruction streams: program runs (hidden MEMPTR/Q state carried across instructions) and stratified state sweeps over all 7 encoding pages x 256 opcodes; every instruction's registers, hidden state and ordered bus value history are compared. No schedule or fault dimension exists in this property; it is decided by the reference-model half of the technique. Sampling, not proof.",
   note="Truth is RefZ80 (zxref::z80), written from documentation and validated by ZEXALL and its cycle-sum self-check; listed don't-cares are truncated and counted; Q after a repeating block iteration is unobservable and not compared.",
   technique=TECH+"seeded lock-step refinement of the real CPU against an executable reference model, single-instruction replay files",
   ref="5 (C01)"),
 "C02": dict(
   text="Seeded search over INT-level / NMI-edge schedules (keyed by sampling opportunity), IM-2 bus bytes and instruction streams biased to EI/DI/HALT/RETN/prefix chains; lock-step refinement against RefZ80 plus independent history monitors over the implementation's own bus log (acceptance only when allowed, pushed PC, vector, HALT idling, RETN). Sampling, not proof. A machine-level clause runs the real Emulator in lock-step with RefZ80 on the reference machine: sequencing-critical instructions (EI, DI, prefix chains, HALT, a short IM 2 handler) are placed so that they end inside the frame interrupt pulse, host actions that must not disturb the CPU (rejected snapshot files, snapshot saves, idempotent pokes) happen right behind them or in the middle of a prefix chain, and an interrupt taken or skipped against the rules is identified by re-running the reference step with the opposite decision.",
   note="Truth is RefZ80 plus the monitors; divergences are attributed to C02 only when they involve the lines, a control instruction or a sampling decision (others are C01's); NMI directly after EI/DI is inhibited in both models.",
   technique=TECH+"seeded interrupt-line schedules on a simulated Z80 bus, refinement + history monitors",
   ref="5 (C02)"),
 "C03": dict(
   text="The same simulated runs as C01/C02 with the full timed bus-cycle list of every instruction, repeat iteration and interrupt entry compared with RefZ80's cycle script (cycle kinds, lengths and the address carried by every delay T-state). Reported only when the value history agrees (else it is C01/C02's). Sampling, not proof.",
   note="Truth is RefZ80's cycle scripts (DESIGN appendix A), cross-checked against a static T-state table; in interrupt-entry steps only the total acknowledge overhead is compared, not its position relative to the pushes.",
   technique=TECH+"recorded bus-cycle histories of the real CPU checked against reference cycle scripts",
   ref="5 (C03)"),
 "C12": dict(
   text="Seeded search over deck-command histories on the real Tap state machine: commands (play/stop/rewind) are injected at arbitrary waveform phases while simulated time advances in 1..16 T bus-wait steps; the recorded EAR edge history is decoded by an independent ROM-like decoder and compared with the tape's block list. One run in ten drives the same histories through Emulator::play_tape/stop_tape/rewind_tape and observes EAR through the ULA port. Sampling, not proof.",
   note="Trusts the RefTape decoder (zxref::tape) and can_fast_load() as the 'deck stopped' indicator; tapes are well-formed with blocks of 2..302 bytes; component level (Tap driven directly), system-level ROM loads are covered by C11.",
   technique=TECH+"seeded command/time schedules on the real tape state machine, history checked against a reference waveform decoder",
   ref="5 (C12)"),
}
NOT_YET = "no check registered in this revision (machinery for it is not built yet)"

props = [json.loads(l) for l in open(os.path.join(ROOT, "properties.jsonl"))]
hooks_commits = subprocess.run(["git", "-C", "/repo", "log", "--format=%H", "--grep=^verif hooks"], capture_output=True, text=True).stdout.split()
man = {
 "version": 1,
 "setup_cmd": "./setup.sh",
 "hooks": {
   "guard": "cfg(rustzx_verif)",
   "enable": "RUSTFLAGS=\"--cfg rustzx_verif\" (set in /verif/sim/.cargo/config.toml); hooks: Emulator::verif_* accessors, rustzx_core::verif::{Tap,TapeImpl}, Z80::verif_prefix_pending",
   "baseline_off_cmd": "cd /repo && cargo test --workspace --no-fail-fast --offline",
   "source_commits": hooks_commits,
   "add_only": True,
 },
 "engines": [
   {"name": "zxverif", "path": "sim/zxverif", "serves_properties": sorted(CHECKS), "kind_free_text": "seeded deterministic simulator: real rustzx crates behind simulated host seams (stopwatch, assets, recorder, frame buffer, IO extender, debug interface, Z80 bus), PRNG-driven schedules and fault injection, ddmin minimiser, replay files"},
   {"name": "zxref", "path": "sim/zxref", "serves_properties": sorted(CHECKS), "kind_free_text": "independent executable reference models (RefZ80 with cycle scripts, RefTape, ...) used as oracles"},
 ],
 "checks": [],
 "not_applicable": [],
 "notes": "Every check: ./check <ID> quick|thorough rebuilds the harness from /repo's working tree, exit 0/1/2 (2 = harness error). Known findings: known_findings.txt. Replays: replays/<ID>/*.json, ./check <ID> --replay <file>.",
}
for p in props:
    i = p["id"]
    if i in CHECKS:
        c = CHECKS[i]
        man["checks"].append({
          "property_id": i,
          "quick_cmd": f"./check {i} quick",
          "thorough_cmd": f"./check {i} thorough",
          "evidence_file": f"evidence/{i}.json",
          "replay_cmd_template": f"./check {i} --replay {{path}}",
          "engine": "zxverif",
          "level_claimed": {"category": c.get("cat", "exploration"), "text": c["text"], "design_ref": "DESIGN.md section " + c["ref"]},
          "level_note": c["note"],
          "technique": c["technique"],
        })
    else:
        man["not_applicable"].append({"property_id": i, "reason": NOT_YET})
json.dump(man, open(os.path.join(ROOT, "MANIFEST.json"), "w"), indent=1)
print("checks:", len(man["checks"]), "not_applicable:", len(man["not_applicable"]))
