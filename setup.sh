#!/bin/sh
# Offline build of the simulation harness (MANIFEST.setup_cmd). Needs only files on disk:
# /repo (path dependencies), the cargo registry cache, and /verif/sim.
set -e
ROOT=$(cd "$(dirname "$0")" && pwd)
export CARGO_NET_OFFLINE=true
cd "$ROOT/sim"
cargo build --release --offline -p zxverif 2>&1 | tail -3
echo "setup ok"
