#!/bin/sh
# Cross matrix: every patch in mutants/ (and seeded/*/patch.diff) against EVERY quick check.
# Output: one line per patch: name -> list of checks that raised a violation. Used to review
# attribution: a check firing for a change that does not break its property would be a false alarm.
# usage: selftest/matrix.sh [pattern] > mutants/MATRIX.txt
ROOT=$(cd "$(dirname "$0")/.." && pwd)
PAT="${1:-}"
if [ -n "$(git -C /repo status --porcelain --untracked-files=no)" ]; then echo "refusing: /repo dirty" >&2; exit 2; fi
IDS=$("$ROOT/sim/target/release/zxverif" list)
for p in "$ROOT"/mutants/*${PAT}*.patch "$ROOT"/seeded/*${PAT}*/patch.diff; do
  [ -f "$p" ] || continue
  case "$p" in */seeded/*) name="seeded/$(basename "$(dirname "$p")")";; *) name=$(basename "$p" .patch);; esac
  git -C /repo apply "$p" 2>/dev/null || { echo "$name: PATCH DOES NOT APPLY"; continue; }
  if ! (cd "$ROOT/sim" && cargo build --release --offline -p zxverif >/dev/null 2>&1); then
    echo "$name: DOES NOT BUILD"; git -C /repo checkout -- .; continue
  fi
  hits=""
  for id in $IDS; do
    VERIF_ROOT="$ROOT" VERIF_NO_EVIDENCE=1 VERIF_REPLAY_DIR="$ROOT/sim/target/matrix-replays" "$ROOT/sim/target/release/zxverif" "$id" --tier quick >/dev/null 2>&1
    code=$?
    [ $code -eq 1 ] && hits="$hits $id"
    [ $code -ge 2 ] && hits="$hits $id(err$code)"
  done
  git -C /repo checkout -- .
  echo "$name:$hits"
done
(cd "$ROOT/sim" && cargo build --release --offline -p zxverif >/dev/null 2>&1)
