#!/bin/sh
# Validates the reference CPU (RefZ80) against the third-party suites the project itself trusts,
# independently of rustzx's CPU core: ZEXALL (CP/M harness in zxref/examples), the cycle-sum
# self-check (cargo test -p zxref) and the z80test tapes z80full / z80ccf / z80memptr / z80bltst
# (fast-loaded by the real emulator, then executed on RefZ80 over a flat memory image).
ROOT=$(cd "$(dirname "$0")/.." && pwd)
cd "$ROOT/sim" || exit 2
fail=0
cargo test --release --offline -p zxref 2>&1 | grep "test result" || fail=1
cargo build --release --offline -p zxverif >/dev/null 2>&1 || exit 2
for t in z80bltst z80memptr z80ccf z80full; do
  ./target/release/zxverif refmodel $t || fail=1
done
if [ "${1:-}" = "--zexall" ]; then
  cargo run --release --offline -p zxref --example zexall -- /repo/rustzx-z80/tests/integration/assets/zexall.com | tail -3 || fail=1
fi
exit $fail
