#!/bin/sh
# Convenience: every registered quick check once (default seed), evidence rewritten; prints one line each.
ROOT=$(cd "$(dirname "$0")/.." && pwd)
bad=0
for id in $(python3 -c "import json;print(' '.join(c['property_id'] for c in json.load(open('$ROOT/MANIFEST.json'))['checks']))"); do
  out=$("$ROOT/check" "$id" "${1:-quick}" 2>&1); code=$?
  echo "$id exit=$code $(echo "$out" | grep '^SUMMARY' | cut -d' ' -f4-)"
  [ $code -ne 0 ] && { bad=1; echo "$out" | grep -A2 '^VIOLATION\|HARNESS' | head -8; }
done
exit $bad
