#!/bin/sh
# Sensitivity self-test: every patch in mutants/ (named <ID>-<slug>.patch) breaks property <ID>
# while still compiling; the quick check of <ID> must exit 1 with the patch applied to /repo and
# 0 without it. /repo is restored after every patch (git checkout -- .).
# usage: selftest/sensitivity.sh [pattern]
ROOT=$(cd "$(dirname "$0")/.." && pwd)
PAT="${1:-}"
fail=0
if [ -n "$(git -C /repo status --porcelain --untracked-files=no)" ]; then
  echo "refusing: /repo has uncommitted changes" >&2; exit 2
fi
for p in "$ROOT"/mutants/*${PAT}*.patch; do
  name=$(basename "$p" .patch)
  id=${name%%-*}
  if ! git -C /repo apply "$p" 2>/dev/null; then echo "SKIP $name (patch does not apply)"; fail=1; continue; fi
  out=$(VERIF_NO_EVIDENCE=1 VERIF_REPLAY_DIR="$ROOT/sim/target/mutant-replays" "$ROOT/check" "$id" quick 2>&1); code=$?
  git -C /repo checkout -- .
  if [ $code -eq 1 ]; then
    echo "DETECTED $name: $(echo "$out" | grep -m1 -A1 '^VIOLATION' | tail -1)"
  else
    echo "MISSED   $name (exit $code)"; fail=1
  fi
done
# leave the harness built against the unchanged tree, and no stray replays of mutants
(cd "$ROOT/sim" && cargo build --release --offline -p zxverif >/dev/null 2>&1)
exit $fail
