#!/bin/sh
# False-alarm soak: every registered quick check on N other seeds (default 50) on the unchanged tree.
# Any exit code other than 0 is reported. usage: selftest/soak.sh [N] [ID...]
ROOT=$(cd "$(dirname "$0")/.." && pwd)
N="${1:-50}"; shift 2>/dev/null
IDS="$*"
[ -z "$IDS" ] && IDS=$("$ROOT/sim/target/release/zxverif" list)
(cd "$ROOT/sim" && cargo build --release --offline -p zxverif >/dev/null 2>&1) || { echo "build failed"; exit 2; }
cp "$ROOT/sim/target/release/zxverif" "$ROOT/sim/target/zxverif-soak"
bad=0
for id in $IDS; do
  fails=""
  s=1
  while [ $s -le $N ]; do
    out=$(VERIF_ROOT="$ROOT" VERIF_NO_EVIDENCE=1 VERIF_REPLAY_DIR="$ROOT/sim/target/soak-replays" "$ROOT/sim/target/zxverif-soak" "$id" --tier quick --seed $s 2>&1); code=$?
    if [ $code -ne 0 ]; then fails="$fails $s(exit$code)"; echo "$out" | grep -A2 "^VIOLATION\|HARNESS" | head -6; fi
    s=$((s+1))
  done
  if [ -n "$fails" ]; then echo "SOAK $id: FAILED seeds:$fails"; bad=1; else echo "SOAK $id: $N seeds clean"; fi
done
exit $bad
