#!/bin/sh
# Determinism self-test: for every check, N seeds (default 20) x 2 executions x {1, 16} workers;
# the DIGEST line (hash over coverage sets, probe and fault counters, simulated time, work units and
# every failure's run index/site/witness) must be identical in all four executions of a seed.
# usage: selftest/determinism.sh [N] [ID...]
ROOT=$(cd "$(dirname "$0")/.." && pwd)
N="${1:-20}"; shift 2>/dev/null
IDS="$*"
(cd "$ROOT/sim" && cargo build --release --offline -p zxverif >/dev/null 2>&1) || { echo "build failed"; exit 2; }
BIN="$ROOT/sim/target/zxverif-det"; cp "$ROOT/sim/target/release/zxverif" "$BIN"
[ -z "$IDS" ] && IDS=$("$BIN" list)
bad=0
for id in $IDS; do
  s=101; diverged=""
  while [ $s -lt $((101+N)) ]; do
    ref=""
    for w in 1 16 16 1; do
      d=$(VERIF_ROOT="$ROOT" VERIF_NO_EVIDENCE=1 VERIF_WORKERS=$w VERIF_RUNS="${VERIF_RUNS:-}" VERIF_REPLAY_DIR="$ROOT/sim/target/det-replays" "$BIN" "$id" --tier quick --seed $s 2>/dev/null | grep '^DIGEST')
      [ -z "$ref" ] && ref="$d"
      [ "$d" != "$ref" ] && diverged="$diverged $s(w$w)"
    done
    s=$((s+1))
  done
  if [ -n "$diverged" ]; then echo "DETERMINISM $id: DIVERGED at$diverged"; bad=1; else echo "DETERMINISM $id: $N seeds x 4 executions identical"; fi
done
exit $bad
